"""C11 — element areas / volumes / normals are geometric invariants and add up."""
import json
import math
import re
import subprocess
import sys
from fractions import Fraction
from pathlib import Path

sys.path.insert(0, str(Path(__file__).resolve().parent))
sys.path.insert(0, str(Path(__file__).resolve().parent.parent / 'translate'))
import lib  # noqa
import c11_kernels  # noqa
import c11_brick  # noqa
import c11_glue  # noqa
import c11_motion  # noqa
import c11_gen as G  # noqa

PID = 'C11'
F32_KERNELS_NOTE = 'float32 accumulator'


# ------------------------------------------------------------------ literals
def qz(n):
    n = int(n)
    return f'({n}#1)'


def qf(fr):
    fr = Fraction(fr)
    return f'({fr.numerator}#{fr.denominator})'


def hexq(s):
    return Fraction(float.fromhex(s))


def v3lit(p):
    return '(' + ', '.join(qz(x) for x in p) + ')'


def v3flit(p):
    return '(' + ', '.join(qf(x) for x in p) + ')'


def zlit(n):
    return f'({int(n)})%Z'


def mesh_defs(name, mesh):
    nodes = lib.coq_list([f'({zlit(i)}, {v3lit(c)})' for i, c in zip(mesh['node_ids'], mesh['coords'])])
    blocks = []
    for ty, eids, conn in mesh['blocks']:
        rows = lib.coq_list([f'({zlit(e)}, {lib.coq_list([zlit(x) for x in c])})'
                             for e, c in zip(eids, conn)])
        blocks.append(f'({lib.coq_str(ty)}, {rows})')
    return (f'Definition nodes_{name} : node_table Q := {nodes}.\n'
            f'Definition blocks_{name} : list block := {lib.coq_list(blocks)}.\n')


HEADER = '''From Coq Require Import ZArith QArith List String Bool.
Import ListNotations.
From FV.C11 Require Import Model Entry Check.
From FV.C11.gen Require Import Kernels.
Open Scope string_scope. Open Scope Q_scope.
Set Printing Width 100000.
Definition raise_ok (m : option (list (Z * Q))) : bool :=
  match m with None => true | Some l => existsb (fun r => Qeq_bool (snd r) 0) l end.
'''


def failing(out, tag):
    t = lib.parse_marked(out).get(tag)
    if t is None:
        return None
    t = t.split(':')[0]
    return [int(x) for x in re.findall(r'\d+', t)]


def run_impl(ctx, tasks, name):
    spec = {'out': str(ctx.scratch / f'impl_{name}.json'), 'tasks': tasks}
    r = subprocess.run([lib.PY, str(lib.VERIF / 'harness' / 'c11_impl.py')],
                       input=json.dumps(spec), text=True, capture_output=True,
                       env=lib.impl_env(), timeout=1500)
    if r.returncode != 0:
        raise RuntimeError('impl runner failed: ' + r.stderr[-2000:])
    return {x['id']: x for x in json.loads(Path(spec['out']).read_text())}


# ------------------------------------------------- 1. translator validation
KERNEL_TYPE = {3: 'tri', 4: None, 5: 'pyr', 6: 'prism', 8: 'hex', 12: 'hexprism'}


def kernel_cases(ctx, model, n_elems):
    """random integer-coordinate elements for every translated kernel"""
    tasks = []
    for k in model['kernels']:
        ar = len(k['args'])
        ty = KERNEL_TYPE[ar]
        if ty is None:
            ty = 'quad' if ('quad' in k['py'] or 'areas' in k['py'] or 'normals' in k['py']) else 'tet'
        coords, conn = [], []
        for e in range(n_elems):
            row = []
            for a in range(ar):
                coords.append([ctx.rng.randrange(-9, 10) for _ in range(3)])
                row.append(len(coords))
            conn.append(row)
        if 'normals' in k['py'] and n_elems > 1:
            # one degenerate element (all points equal): exercises the EPSILON branch
            for a in conn[-1]:
                coords[a - 1] = list(coords[conn[-1][0] - 1])
        mesh = {'node_ids': list(range(1, len(coords) + 1)), 'coords': coords,
                'blocks': [[ty, list(range(1, n_elems + 1)), conn]]}
        tasks.append({'id': len(tasks), 'kind': 'kernel', 'name': k['py'], 'point': k['point'],
                      'arity': ar, 'mesh': mesh, 'k': k})
    return tasks


def tolerance(kname, notes, vector=False):
    """(eabs, erel) for a kernel: see notes/C11.md"""
    f32 = any(F32_KERNELS_NOTE in n for n in notes)
    if f32:
        return Fraction(1, 2 ** 26), Fraction(1, 2 ** 21)
    if 'areas' in kname or 'normals' in kname or vector:
        return Fraction(1, 2 ** 36), Fraction(1, 2 ** 40)
    return Fraction(1, 2 ** 28), Fraction(1, 2 ** 40)     # LAPACK det of integers up to ~20


def validate_translator(ctx, model):
    n = 12 if ctx.tier == 'quick' else 60
    tasks = kernel_cases(ctx, model, n)
    res = run_impl(ctx, [{k: v for k, v in t.items() if k != 'k'} for t in tasks], 'kernels')
    lines = [HEADER, 'Definition cases : list (nat * bool) := [']
    items, index, crashed = [], [], []
    for t in tasks:
        k = t['k']
        r = res[t['id']]
        if 'values' not in r:
            crashed.append((k['py'], r))
            continue
        eabs, erel = tolerance(k['py'], k['notes'])
        for e, row in enumerate(t['mesh']['blocks'][0][2]):
            pts = ' '.join(v3lit(t['mesh']['coords'][i - 1]) for i in row)
            call = f"({k['coq']} QOps {pts})"
            if k['ty'] == 'S':
                chk = f'close {qf(eabs)} {qf(erel)} {call} {qf(hexq(r["values"][e]))}'
            else:
                chk = (f'close3 {qf(eabs)} {qf(erel)} {call} '
                       f'{v3flit([hexq(x) for x in r["values"][e]])}')
            items.append(f'({len(items)}%nat, {chk})')
            index.append((k['py'], e, [t['mesh']['coords'][i - 1] for i in row], r['values'][e]))
            ctx.case(['kernel', k['py'], [t['mesh']['coords'][i - 1] for i in row]],
                     sample={'kernel': k['py'], 'points': [t['mesh']['coords'][i - 1] for i in row],
                             'impl': r['values'][e]} if e == 0 and len(ctx.samples) < 2 else None)
            ctx.count('kernel:' + k['py'])
    lines.append(';\n'.join(items) + '].')
    lines.append('Goal True. idtac "@@ failing". Abort.')
    lines.append('Eval vm_compute in map fst (filter (fun c => negb (snd c)) cases).')
    rc, out, err = ctx.coq_eval('KernelCases', '\n'.join(lines) + '\n', timeout=600)
    bad = failing(out, 'failing') if rc == 0 else None
    n_bad = 0
    if bad is None:
        ctx.log('kernel validation file failed to compile:', err[-800:])
        ctx.violation('tie-broken', {'stage': 'translator validation'}, 'KernelCases.v compiles',
                      err[-400:], 'translator validation', found_input=False,
                      signature={'kind': 'kernel-validation-compile'})
        n_bad = 1
    else:
        seen = set()
        for i in bad:
            py, e, pts, val = index[i]
            n_bad += 1
            if py in seen:
                continue
            seen.add(py)
            ctx.violation('correspondence', {'kernel': py, 'points': pts},
                          'translated kernel over Q agrees with the Python method',
                          {'impl_value': val}, f'translator validation of {py}',
                          found_input=True, signature={'kind': 'kernel-validation', 'kernel': py},
                          what=f'generated Gallina of {py} disagrees with the Python method')
    for py, r in crashed:
        n_bad += 1
        ctx.violation('correspondence', {'kernel': py}, 'kernel runs', r,
                      f'translator validation of {py}', found_input=False,
                      signature={'kind': 'kernel-crash', 'kernel': py})
    return len(items), n_bad


# ------------------------------- 1b. validation of the translated glue (gen/Glue.v)
TINY_MESH = {'node_ids': [1, 2, 3, 4], 'coords': [[0, 0, 0], [1, 0, 0], [0, 1, 0], [0, 0, 1]],
             'blocks': [['tet', [1], [[1, 2, 3, 4]]]]}
MAGNITUDES = [0.0, -0.0, 1.0, -1.0, 2.5, -3.0, 1e-3, -1e-5, 7e-13, -7e-13, 1e-15, -2e-17, 5e-21,
              -5e-21, 1e-300, -1e-300, 4e12, -4e12, 1e150, 5e-324]


def validate_glue(ctx, translated):
    """gen/Glue.v against the Python methods: _validate_metric on arrays whose values span many
    orders of magnitude in ONE array (signs, zeros, +-0.0, denormals), both flags (bools and
    falsy/truthy non-bools); _slot_answers on stored/asked option tuples that are equal, differ
    at exactly one position, or differ in length."""
    rng = ctx.rng
    n = 60 if ctx.tier == 'quick' else 300
    tasks = []
    for i in range(n):
        k = rng.choice([1, 2, 3, 5, 8])
        if i % 3 == 0:
            vals = [rng.choice(MAGNITUDES) for _ in range(k)]
        elif i % 3 == 1:      # one huge value next to tiny ones
            vals = [rng.choice([1.0, 3e8, 1e150])] + [rng.choice([-1, 1]) * 10.0 ** rng.randint(-30, -9)
                                                      for _ in range(k)]
            rng.shuffle(vals)
        else:
            vals = [rng.choice([-1, 1]) * rng.random() * 10.0 ** rng.randint(-3, 3) for _ in range(k)]
        rs, ab = rng.choice([(False, False), (False, True), (True, False), (True, True),
                             ('None', '1'), ('0', '0'), ('1', 'None')])
        tasks.append({'id': len(tasks), 'kind': 'validate', 'mesh': TINY_MESH,
                      'values': [float(v).hex() for v in vals], 'raise': rs, 'abs': ab})
    n_val = len(tasks)
    tuples = [[mo, r, a] for mo in c11_kernels.MODES for r in (False, True) for a in (False, True)] + \
             [[r, a] for r in (False, True) for a in (False, True)]
    pairs = []
    for st in tuples:
        pairs.append((st, list(st)))
        for k in range(len(st)):
            o = list(st)
            o[k] = (not o[k]) if isinstance(o[k], bool) else rng.choice([m for m in c11_kernels.MODES if m != o[k]])
            pairs.append((st, o))
        pairs.append((st, st[1:] if len(st) == 3 else ['centroid'] + st))
        pairs.append((None, list(st)))
    for st, o in pairs:
        tasks.append({'id': len(tasks), 'kind': 'slot_answers', 'mesh': TINY_MESH,
                      'key': rng.choice(['area', 'volume', 'metric']), 'stored': st, 'options': o})
    res = run_impl(ctx, tasks, 'glue')
    truthy = lambda x: x in (True, '1')   # noqa
    b = lambda x: 'true' if x else 'false'   # noqa

    def optl(t):
        return lib.coq_list([f'OFlag {b(x)}' if isinstance(x, bool) else f'OMode {lib.coq_str(x)}' for x in t])
    items = []
    crashed = []
    for t in tasks:
        r = res[t['id']]
        if 'crash' in r:
            crashed.append(t)
            continue
        if t['kind'] == 'validate':
            ctx.count('glue:_validate_metric')
            ctx.case(['glue', 'validate', t['values'], t['raise'], t['abs']],
                     sample={'stream': 'translated _validate_metric vs the method',
                             'values': [float.fromhex(v) for v in t['values']], 'raise': t['raise'],
                             'abs': t['abs']} if t['id'] < 2 else None)
            call = (f"validate_metric QOps {b(truthy(t['raise']))} {b(truthy(t['abs']))} "
                    f"{lib.coq_list([qf(hexq(v)) for v in t['values']])}")
            impl = 'None' if 'error' in r else \
                '(Some ' + lib.coq_list([qf(hexq(v)) for v in r['values']]) + ')'
            items.append(f"({t['id']}%nat, same_values ({call}) {impl})")
        else:
            ctx.count('glue:_slot_answers')
            ctx.case(['glue', 'slot_answers', t['stored'], t['options']])
            st = 'None' if t['stored'] is None else f"(Some {optl(t['stored'])})"
            items.append(f"({t['id']}%nat, Bool.eqb (slot_answers {st} {optl(t['options'])}) {b(r['answers'])})")
    text = (HEADER + 'From FV.C11 Require Import Slot.\nFrom FV.C11.gen Require Import Glue.\n'
            'Fixpoint same_list (a b : list Q) : bool := match a, b with [] , [] => true '
            '| x :: a\', y :: b\' => Qeq_bool x y && same_list a\' b\' | _, _ => false end.\n'
            'Definition same_values (m i : option (list Q)) : bool := match m, i with None, None => true '
            '| Some a, Some b => same_list a b | _, _ => false end.\n'
            'Definition cases : list (nat * bool) := [' + ';\n'.join(items) + '].\n'
            'Goal True. idtac "@@ failing". Abort.\n'
            'Eval vm_compute in map fst (filter (fun c => negb (snd c)) cases).\n')
    rc, out, err = ctx.coq_eval('GlueCases', text, timeout=600)
    bad = failing(out, 'failing') if rc == 0 else None
    n_bad = 0
    if bad is None:
        ctx.log('GlueCases.v failed to compile:', err[-600:])
        ctx.violation('tie-broken', {'stage': 'GlueCases.v'}, 'case file compiles', err[-300:],
                      'validation of gen/Glue.v', found_input=False,
                      signature={'kind': 'case-file', 'file': 'GlueCases'})
        return len(tasks), 1
    byid = {t['id']: t for t in tasks}
    seen = set()
    for i in bad:
        t = byid[i]
        n_bad += 1
        sig = (t['kind'], str(t.get('raise')), str(t.get('abs'))) if t['kind'] == 'validate' else \
            (t['kind'], t['stored'] is None, len(t['options']))
        if sig in seen:
            continue
        seen.add(sig)
        if t['kind'] == 'validate':
            ctx.violation('correspondence' if translated else 'impl-violation',
                          {'method': '_validate_metric', 'values': [float.fromhex(v) for v in t['values']],
                           'raise_negative_metric': t['raise'], 'return_abs_metric': t['abs']},
                          'raises iff raise_negative and a value is negative; otherwise element k of the result '
                          'is (the absolute value of) element k -- whatever the other elements are',
                          {k: ([float.fromhex(v) for v in res[i][k]] if k == 'values' else res[i][k])
                           for k in ('values', 'error') if k in res[i]},
                          'C11_validate_metric_spec (gen/Glue.v evaluated in Coq vs the method)',
                          found_input=True,
                          signature={'kind': 'glue-validate', 'raise': str(t['raise']), 'abs': str(t['abs'])},
                          what='_validate_metric does not act elementwise as ' +
                               ('translated' if translated else 'specified (reference semantics)'))
        else:
            ctx.violation('correspondence' if translated else 'impl-violation',
                          {'method': '_slot_answers', 'stored': t['stored'], 'options': t['options']},
                          'answers iff the stored option tuple equals the asked one (or nothing was stored by '
                          'these methods)', {'answers': res[i].get('answers')},
                          'C11_slot_history_* (gen/Glue.v evaluated in Coq vs the method)', found_input=True,
                          signature={'kind': 'glue-slot-answers', 'stored_none': t['stored'] is None,
                                     'n_options': len(t['options'])},
                          what='_slot_answers differs from ' +
                               ('its translation' if translated else 'the reference semantics'))
    for t in crashed:
        n_bad += 1
        ctx.violation('correspondence', {k: t.get(k) for k in ('kind', 'values', 'raise', 'abs', 'stored', 'options')},
                      'method runs', res[t['id']], 'validation of gen/Glue.v', found_input=True,
                      signature={'kind': 'glue-crash', 'method': t['kind']})
    ctx.notes['glue_validation'] = {'validate_cases': n_val, 'slot_answers_cases': len(tasks) - n_val,
                                    'disagreements': n_bad, 'translated': translated}
    return len(tasks), n_bad


# ------------------------------- 1c. validation of the translated motions (gen/Motion.v)
def validate_motion(ctx, translated):
    """gen/Motion.v evaluated over Q in Coq (c, s = the floats np.cos(theta), np.sin(theta)) vs the
    coordinates the nodes hold after fd.rotation(axis, theta) / fd.translation(v): non-unit integer and
    decimal axes, arbitrary angles, decimal coordinates; 1e-11 (absolute + relative)."""
    rng = ctx.rng
    n = 24 if ctx.tier == 'quick' else 120
    tasks = []
    for i in range(n):
        coords = [[round(rng.uniform(-10, 10), 3) for _ in range(3)] for _ in range(4)]
        mesh = {'node_ids': rng.sample(range(1, 60), 4), 'coords': coords, 'coord_dtype': 'float64'}
        mesh['blocks'] = [['tet', [rng.randrange(1, 99)], [list(mesh['node_ids'])]]]
        if i % 4 == 3:
            t = {'motion': 'translation', 'axis': [round(rng.uniform(-50, 50), 2) for _ in range(3)]}
        else:
            axis = rng.choice([[0.0, 0.0, 1.0], [1.0, 1.0, 1.0], [0.0, -3.0, 4.0],
                               [round(rng.uniform(-5, 5), 2) or 1.0 for _ in range(3)],
                               [float(rng.randint(-3, 3)) or 2.0, float(rng.randint(-3, 3)), float(rng.randint(-3, 3))]])
            t = {'motion': 'rotation', 'axis': axis,
                 'theta': rng.choice([rng.uniform(-7, 7), math.pi / 2, math.pi, 2 * math.pi / 3, 1e-3, 0.0])}
        tasks.append(dict(t, id=len(tasks), kind='motion_point', mesh=mesh))
    res = run_impl(ctx, tasks, 'motion_point')
    items, crashed = [], []
    tol = Fraction(1, 10 ** 11)
    for t in tasks:
        r = res[t['id']]
        ctx.count('motion-code:' + t['motion'])
        ctx.case(['motion-code', t['motion'], t['axis'], t.get('theta'), t['mesh']['coords']],
                 sample={'stream': 'translated translation()/rotation() vs the methods', 'motion': t['motion'],
                         'axis': t['axis'], 'theta': t.get('theta')} if t['id'] < 2 else None)
        if 'coords' not in r:
            crashed.append(t)
            continue
        pos = dict(zip(t['mesh']['node_ids'], t['mesh']['coords']))
        a = ' '.join(qf(Fraction(x)) for x in t['axis'])
        for k, (nid, after) in enumerate(zip(r['node_ids'], r['coords'])):
            xyz = ' '.join(qf(Fraction(x)) for x in pos[nid])
            if t['motion'] == 'rotation':
                call = f"rotation_xyz QOps {a} {qf(hexq(r['c']))} {qf(hexq(r['s']))} {xyz}"
            else:
                call = f'translation_xyz QOps {a} {xyz}'
            items.append(f"({8 * t['id'] + k}%nat, close3 {qf(tol)} {qf(tol)} ({call}) "
                         f"{v3flit([hexq(x) for x in after])})")
    text = (HEADER + 'From FV.C11.gen Require Import Motion.\n'
            'Definition cases : list (nat * bool) := [' + ';\n'.join(items) + '].\n'
            'Goal True. idtac "@@ failing". Abort.\n'
            'Eval vm_compute in map fst (filter (fun c => negb (snd c)) cases).\n')
    rc, out, err = ctx.coq_eval('MotionCodeCases', text, timeout=600)
    bad = failing(out, 'failing') if rc == 0 else None
    n_bad = 0
    if bad is None:
        ctx.log('MotionCodeCases.v failed to compile:', err[-600:])
        ctx.violation('tie-broken', {'stage': 'MotionCodeCases.v'}, 'case file compiles', err[-300:],
                      'validation of gen/Motion.v', found_input=False,
                      signature={'kind': 'case-file', 'file': 'MotionCodeCases'})
        return len(tasks), 1
    byid = {t['id']: t for t in tasks}
    seen = set()
    for j in bad:
        t = byid[j // 8]
        n_bad += 1
        if (t['motion'], t['id']) in seen or len(seen) >= 6:
            continue
        seen.add((t['motion'], t['id']))
        ctx.violation('correspondence' if translated else 'impl-violation',
                      {k: t[k] for k in ('motion', 'axis', 'theta', 'mesh') if k in t},
                      'every node goes where the translated method (gen/Motion.v, a proved rotation / translation) '
                      'sends it', {k: res[t['id']].get(k) for k in ('node_ids', 'coords', 'c', 's')},
                      'C11_rotation_code_is_a_rotation / C11_translation_code_is_a_translation '
                      '(gen/Motion.v evaluated in Coq vs the method)', found_input=True,
                      signature={'kind': 'motion-code', 'motion': t['motion']},
                      what=f"{t['motion']}() does not move the nodes as " +
                           ('translated' if translated else 'the reference semantics say'))
    for t in crashed:
        n_bad += 1
        ctx.violation('correspondence', {k: t[k] for k in ('motion', 'axis', 'theta', 'mesh') if k in t},
                      'method runs on a mesh without attached data', res[t['id']], 'validation of gen/Motion.v',
                      found_input=True, signature={'kind': 'motion-code-crash', 'motion': t['motion']})
    ctx.notes['motion_code_validation'] = {'motions': len(tasks), 'node_comparisons': len(items),
                                           'disagreements': n_bad, 'translated': translated}
    return len(tasks), n_bad


# ------------------------------------------------ 2. entry-point correspondence
def gen_meshes(ctx):
    rng = ctx.rng
    n = 1 if ctx.tier == 'quick' else 5
    meshes = []
    solid_kind_sets = [['hex'], ['tet'], ['prism'], ['pyr'], ['hex', 'tet'], ['hex', 'prism', 'tet'],
                       ['hex', 'prism', 'pyr', 'tet'], ['tet', 'prism']]
    shell_kind_sets = [['tri'], ['quad'], ['polygon'], ['tri', 'quad'], ['tri', 'quad', 'polygon'],
                       ['quad', 'polygon']]
    for rep in range(3 * n):
        for ks in solid_kind_sets:
            meshes.append(G.solid_mesh(rng, ks, G.random_opts(rng)))
        for ks in shell_kind_sets:
            o = G.random_opts(rng)
            o['ragged'] = rng.random() < 0.5
            meshes.append(G.shell_mesh(rng, ks, o))
        meshes.append(G.hexprism_mesh(rng, G.random_opts(rng, jitter_ok=False)))
        for ks in (['hex'], ['prism'], ['pyr'], ['hex', 'prism', 'pyr']):
            meshes.append(G.frustum_mesh(rng, ks, G.random_opts(rng, jitter_ok=False)))
    # dense, almost sorted id patterns (ends in place + interior shuffled, adjacent
    # swap, reversed, one id moved) for nodes and for elements
    for pat in G.PATTERN_MODES:
        for which in ('node_ids', 'elem_ids', 'both'):
            o = G.random_opts(rng)
            o['extra_nodes'] = 0
            if which in ('node_ids', 'both'):
                o['node_ids'] = pat
            if which in ('elem_ids', 'both'):
                o['elem_ids'] = pat
            ks = rng.choice([['hex'], ['tet'], ['prism'], ['hex', 'tet']])
            meshes.append(G.solid_mesh(rng, ks, o))
            o = dict(o, ragged=False)
            meshes.append(G.shell_mesh(rng, rng.choice([['tri'], ['quad'], ['tri', 'quad']]), o))
    # ids just below 2**53 (nodes and elements)
    for ks, fn in ((['hex', 'tet'], G.solid_mesh), (['tri', 'quad'], G.shell_mesh)):
        o = G.random_opts(rng)
        o['node_ids'] = 'huge'
        o['elem_ids'] = 'huge'
        o['ragged'] = False
        meshes.append(fn(rng, ks, o))
    # mixed meshes whose blocks are stored in id order AND ones that are not
    for rep in range(2 * n):
        for sh in (False, True):
            o = G.random_opts(rng)
            o['shuffle_elems'] = sh
            o['elem_ids'] = 'unsorted'
            meshes.append(G.solid_mesh(rng, ['hex', 'prism', 'tet'], o, dims=(2, 2, 1)))
            o = G.random_opts(rng)
            o['shuffle_elems'] = sh
            o['elem_ids'] = 'sparse'
            meshes.append(G.shell_mesh(rng, ['tri', 'quad'], o))
    return meshes


COORD_DTYPES = ['float64', 'float64', 'int64', 'int32', 'float32']


def entry_tasks(ctx, meshes, skip=0, first_id=0):
    tasks = []
    for mi, mesh in enumerate(meshes):
        if mi < skip:
            continue
        dim = mesh['meta']['dim']
        m = {k: mesh[k] for k in ('node_ids', 'coords', 'blocks')}
        # dtype of the node coordinate array (voxel grids keep integer coordinates)
        mesh['meta'].setdefault('coord_dtype', ctx.rng.choice(COORD_DTYPES))
        m['coord_dtype'] = mesh['meta']['coord_dtype']
        calls = []
        if dim == 3:
            for mode in c11_kernels.MODES:
                calls.append(('volumes', mode, False, False))
            calls.append(('volumes', 'centroid', True, False))
            calls.append(('volumes', 'linear', False, True))
            calls.append(('metrics', None, False, False))
            calls.append(('metrics', None, True, False))
        else:
            for mode in c11_kernels.MODES:
                calls.append(('areas', mode, False, True))
                calls.append(('normals', mode, None, None))
            calls.append(('areas', 'centroid', True, False))
            calls.append(('metrics', None, True, False))
        if ctx.tier == 'quick' and len(calls) > 6:
            keep = calls[:3] + ctx.rng.sample(calls[3:], 3)
            calls = keep
        for (entry, mode, rs, ab) in calls:
            tasks.append({'id': first_id + len(tasks), 'kind': 'entry', 'entry': entry, 'mode': mode,
                          'raise': rs, 'abs': ab, 'mesh': m, 'mi': mi})
    return tasks


def entry_call(t, which, name, ops='QOps'):
    """which = 'impl' (faithful to the translated mixed-branch assignment) or 'spec'"""
    e = t['entry']
    b = lambda x: 'true' if x else 'false'   # noqa
    if e in ('areas', 'volumes'):
        return (f'{which}_{e} {ops} {lib.coq_str(t["mode"])} {b(t["raise"])} {b(t["abs"])} '
                f'nodes_{name} blocks_{name}')
    if e == 'metrics':
        return f'{which}_metrics {ops} {b(t["raise"])} {b(t["abs"])} nodes_{name} blocks_{name}'
    return f'{which}_normals {ops} {lib.coq_str(t["mode"])} nodes_{name} blocks_{name}'


def entry_tol(t, mesh):
    kinds = mesh['meta']['kinds']
    if mesh['meta'].get('coord_dtype') == 'float32':
        # every operation in binary32 (LAPACK sgetrf included): integer inputs <= 20
        return Fraction(1, 2 ** 8), Fraction(1, 2 ** 14)
    if t['entry'] == 'normals':
        if 'polygon' in kinds:
            return Fraction(1, 2 ** 16), Fraction(0)          # float32 polygon accumulators
        return Fraction(1, 2 ** 36), Fraction(0)
    if t['entry'] in ('areas',) or mesh['meta']['dim'] == 2:
        if 'polygon' in kinds:
            return Fraction(1, 2 ** 12), Fraction(1, 2 ** 16)
        return Fraction(1, 2 ** 36), Fraction(1, 2 ** 40)
    # volumes: centroid kernels accumulate in float32
    return Fraction(1, 2 ** 26), Fraction(1, 2 ** 21)


def correspondence(ctx, meshes, tasks, res):
    """impl vs faithful model (tie) and impl vs specification assembly (property)"""
    chunk = 60
    bad_corr, bad_prop = [], []
    files = 0
    for c0 in range(0, len(tasks), chunk):
        part = tasks[c0:c0 + chunk]
        lines = [HEADER]
        done = set()
        items_c, items_p = [], []
        for t in part:
            mi = t['mi']
            if mi not in done:
                done.add(mi)
                lines.append(mesh_defs(str(mi), meshes[mi]))
            r = res[t['id']]
            eabs, erel = entry_tol(t, meshes[mi])
            vec = t['entry'] == 'normals'
            if 'crash' in r:
                impl = None
            elif 'error' in r:
                impl = 'None'
            else:
                if vec:
                    rows = [f'({zlit(i)}, {v3flit([hexq(x) for x in v])})'
                            for i, v in zip(r['ids'], r['values'])]
                else:
                    rows = [f'({zlit(i)}, {qf(hexq(v))})' for i, v in zip(r['ids'], r['values'])]
                impl = f'(Some {lib.coq_list(rows)})'
            if impl is None:
                bad_corr.append(t['id'])
                continue
            cl = f'(close3 {qf(eabs)} {qf(erel)})' if vec else f'(close {qf(eabs)} {qf(erel)})'
            if r.get('error') == 'ValueError' and t['raise'] and not vec:
                # `metric < 0.` on a float: an exactly degenerate element (model value 0) may
                # come out as -1e-17 and raise; accept a raise when the model has an exact 0
                items_c.append(f'({t["id"]}%nat, raise_ok ({entry_call(t, "impl", str(mi))}))')
                items_p.append(f'({t["id"]}%nat, raise_ok ({entry_call(t, "spec", str(mi))}))')
                continue
            items_c.append(f'({t["id"]}%nat, agree {cl} ({entry_call(t, "impl", str(mi))}) {impl})')
            items_p.append(f'({t["id"]}%nat, agree {cl} ({entry_call(t, "spec", str(mi))}) {impl})')
        lines.append('Definition cases_c : list (nat * bool) := [' + ';\n'.join(items_c) + '].')
        lines.append('Definition cases_p : list (nat * bool) := [' + ';\n'.join(items_p) + '].')
        lines.append('Goal True. idtac "@@ corr". Abort.')
        lines.append('Eval vm_compute in map fst (filter (fun c => negb (snd c)) cases_c).')
        lines.append('Goal True. idtac "@@ prop". Abort.')
        lines.append('Eval vm_compute in map fst (filter (fun c => negb (snd c)) cases_p).')
        rc, out, err = ctx.coq_eval(f'EntryCases{files}', '\n'.join(lines) + '\n', timeout=900)
        files += 1
        if rc != 0:
            ctx.log('entry case file failed to compile:', err[-800:])
            bad_corr += [t['id'] for t in part]
            continue
        bad_corr += failing(out, 'corr') or []
        bad_prop += failing(out, 'prop') or []
    return bad_corr, bad_prop


def describe(t, mesh):
    return {'entry': t['entry'], 'mode': t['mode'], 'raise_negative': t['raise'],
            'return_abs': t['abs'],
            'mesh': {k: mesh[k] for k in ('node_ids', 'coords', 'blocks')},
            'labelling': {k: mesh['meta'][k] for k in
                          ('matrix', 't', 'jitter', 'node_ids', 'elem_ids', 'shuffle_nodes',
                           'shuffle_elems', 'unsorted_block', 'mixed', 'extra_nodes')}}


# ------------------------------------------------------ 3. python-side oracles
def oracle_affine(ctx, meshes, tasks, res):
    """closed forms on un-jittered meshes: every element = det M * reference
    volume in every mode, sum = det M * (number of cells); areas^2 exact."""
    n_bad = 0
    for t in tasks:
        mesh = meshes[t['mi']]
        meta = mesh['meta']
        r = res[t['id']]
        if meta['jitter'] or 'values' not in r or t['entry'] == 'normals':
            continue
        if meta['mixed'] and meta['unsorted_block']:
            continue    # ids are mis-assigned there (reported by the assembly check)
        vals = {i: hexq(v) for i, v in zip(r['ids'], r['values'])}
        for i, v in vals.items():
            exp = meta['expected'].get(str(i))
            if exp is None:
                continue
            exp = Fraction(exp[0], exp[1])
            if meta['dim'] == 3:
                if t['abs']:
                    exp = abs(exp)
                ok = abs(v - exp) <= Fraction(1, 2 ** 18) * max(1, abs(exp))
            else:
                ok = abs(v * v - exp) <= Fraction(1, 2 ** 12) * max(1, exp)
            ctx.notes['oracle_evaluations'] = ctx.notes.get('oracle_evaluations', 0) + 1
            if not ok:
                n_bad += 1
                ty = meta['geom'][str(i)][0]
                ctx.violation('impl-violation', dict(describe(t, mesh), element_id=i),
                              f'closed form {exp} (det M x reference {"volume" if meta["dim"] == 3 else "area, squared"})',
                              {'value': float(v)}, 'C11_modes_agree_* / C11_vol_affine_* (oracle on implementation)',
                              found_input=True,
                              signature={'kind': 'closed-form', 'entry': t['entry'], 'mode': t['mode'],
                                         'type': ty},
                              what=f'{t["entry"]}({t["mode"]}) of a {ty} differs from the closed form')
    return n_bad


def oracle_brick(ctx, model_ok=True, deep=False):
    rng = ctx.rng
    tasks = []
    top = 3 if (ctx.tier == 'quick' and not deep) else 5
    for ty in ('tri', 'quad', 'tet', 'hex'):
        sizes = [(1, 1, 1), (2, 1, 1), (1, 2, 1), (1, 1, 2), (2, 3, 2), (3, 2, 1)]
        sizes += [(rng.randint(1, top), rng.randint(1, top), rng.randint(1, top)) for _ in range(3)]
        if deep:      # the generator's text is not pinned: long / thin / larger boxes as well
            sizes += [(7, 1, 1), (1, 7, 1), (1, 1, 7), (4, 3, 5), (5, 4, 3), (3, 5, 4), (6, 6, 1)]
            sizes += [(rng.randint(1, 6), rng.randint(1, 6), rng.randint(1, 6)) for _ in range(6)]
        for nx, ny, nz in sizes:
            lx, ly, lz = nx * rng.randint(1, 3), ny * rng.randint(1, 3), nz * rng.randint(1, 3)
            tasks.append({'id': len(tasks), 'kind': 'brick', 'type': ty, 'nx': nx, 'ny': ny,
                          'nz': nz if ty in ('tet', 'hex') else None, 'lx': float(lx),
                          'ly': float(ly), 'lz': float(lz)})
    res = run_impl(ctx, tasks, 'brick')
    n_bad = 0
    if model_ok:
        items = []
        for t in tasks:
            r = res[t['id']]
            if 'conn' not in r:
                continue
            coords = lib.coq_list([v3flit([hexq(x) for x in c]) for c in r['coords']])
            conn = lib.coq_list([lib.coq_list([zlit(x) for x in row]) for row in r['conn']])
            nids = lib.coq_list([zlit(x) for x in r['node_ids']])
            eids = lib.coq_list([zlit(x) for x in r['eids']])
            if t['nz'] is not None:
                items.append(f"({t['id']}%nat, brick3_ok template_{t['type']} {zlit(t['nx'])} {zlit(t['ny'])} "
                             f"{zlit(t['nz'])} {qf(Fraction(t['lx']))} {qf(Fraction(t['ly']))} "
                             f"{qf(Fraction(t['lz']))} {nids} {coords} {eids} {conn})")
            else:
                items.append(f"({t['id']}%nat, brick2_ok template_{t['type']} {zlit(t['nx'])} {zlit(t['ny'])} "
                             f"{qf(Fraction(t['lx']))} {qf(Fraction(t['ly']))} {nids} {coords} {eids} {conn})")
        text = (HEADER + 'From FV.C11 Require Import BrickModel BrickCheck.\n'
                'From FV.C11.gen Require Import Brick.\n'
                'Definition cases : list (nat * bool) := [' + ';\n'.join(items) + '].\n'
                'Goal True. idtac "@@ failing". Abort.\n'
                'Eval vm_compute in map fst (filter (fun c => negb (snd c)) cases).\n')
        rc, out, err = ctx.coq_eval('BrickCases', text, timeout=600)
        bad = failing(out, 'failing') if rc == 0 else None
        if bad is None:
            ctx.log('BrickCases.v failed to compile:', err[-600:])
            ctx.violation('tie-broken', {'stage': 'BrickCases.v'}, 'case file compiles', err[-300:],
                          'correspondence C11 brick generator', found_input=False,
                          signature={'kind': 'case-file', 'file': 'BrickCases'})
            n_bad += 1
        else:
            byid = {t['id']: t for t in tasks}
            for i in bad:
                t = byid[i]
                n_bad += 1
                ctx.violation('correspondence', {k: t[k] for k in ('type', 'nx', 'ny', 'nz', 'lx', 'ly', 'lz')},
                              'node ids, node positions, element ids and connectivity equal to the model '
                              '(translated templates + stated index filter)',
                              {'conn': res[i].get('conn', [])[:6], 'n_elements': len(res[i].get('conn', []))},
                              'correspondence C11 brick3_conn / brick2_conn', found_input=True,
                              signature={'kind': 'brick-correspondence', 'type': t['type']},
                              what='generate_brick output differs from the model')
        ctx.notes['brick_correspondence'] = {'cases': len(items), 'disagreements': len(bad or [])}
    for t in tasks:
        r = res[t['id']]
        per = {'tri': 2, 'quad': 1, 'tet': 6, 'hex': 1}[t['type']]
        ncell = t['nx'] * t['ny'] * (t['nz'] or 1)
        total = Fraction(t['lx']) * Fraction(t['ly']) * (Fraction(t['lz']) if t['nz'] else 1)
        problems = []
        if 'crash' in r or 'error' in r:
            problems.append(r.get('crash') or r.get('error'))
        else:
            if len(r['eids']) != per * ncell:
                problems.append(f'{len(r["eids"])} elements, expected {per * ncell}')
            ms = [hexq(x) for x in r['metrics']]
            if any(m <= 0 for m in ms):
                problems.append('non-positive element')
            each = total / (per * ncell)
            if any(abs(m - each) > Fraction(1, 2 ** 30) * each for m in ms):
                problems.append('element metric differs from cell volume / count')
            if abs(sum(ms) - total) > Fraction(1, 2 ** 30) * total:
                problems.append(f'sum {float(sum(ms))} != box {float(total)}')
            if r.get('default_metrics_raises'):
                problems.append('calculate_element_metrics() raises (negative element)')
        ctx.case(['brick', t['type'], t['nx'], t['ny'], t['nz'], t['lx'], t['ly'], t['lz']])
        ctx.count('brick:' + t['type'])
        if problems:
            n_bad += 1
            ctx.violation('impl-violation', {k: t[k] for k in ('type', 'nx', 'ny', 'nz', 'lx', 'ly', 'lz')},
                          'exact element count, all positive, sum = box', problems,
                          'brick_count / brick_positive / brick_sum (oracle on implementation)',
                          found_input=True, signature={'kind': 'brick', 'type': t['type']},
                          what='generate_brick: ' + '; '.join(problems))
    return len(tasks), n_bad


def oracle_random_mesh(ctx):
    """generate_random_mesh (Delaunay mesh of a jittered lattice, made positive by
    make_elements_positive): the elements tile the convex hull of the nodes -- every element
    positive, linear = centroid (simplices are affine), sum = hull volume (scipy ConvexHull,
    independent of femio), default calculate_element_metrics() does not raise."""
    rng = ctx.rng
    n = 4 if ctx.tier == 'quick' else 16
    tasks = []
    for i in range(n):
        ty = 'tet' if i % 2 == 0 else 'tri'
        tasks.append({'id': len(tasks), 'kind': 'random_mesh', 'type': ty,
                      'n_point': rng.choice([12, 27, 40] if ty == 'tet' else [9, 16, 30]),
                      'lx': rng.choice([1.0, 2.5, 0.03]), 'ly': rng.choice([1.0, 0.7, 40.0]),
                      'lz': rng.choice([1.0, 3.0]), 'noise_scale': rng.choice([0.3, 1.0]),
                      'np_seed': rng.randrange(2 ** 31)})
    res = run_impl(ctx, tasks, 'random_mesh')
    n_bad = 0
    for t in tasks:
        r = res[t['id']]
        problems = []
        if 'crash' in r:
            problems.append(r['crash'])
        else:
            lin = [hexq(x) for x in r['linear']]
            cen = [hexq(x) for x in r['centroid']]
            hull = hexq(r['hull'])
            scale = hull / max(1, len(lin))
            if any(v <= 0 for v in lin):
                problems.append(f'{sum(1 for v in lin if v <= 0)} non-positive element(s)')
            if any(abs(a - b) > Fraction(1, 10 ** 9) * scale + Fraction(1, 10 ** 7) * abs(a)
                   for a, b in zip(lin, cen)):
                problems.append('linear and centroid modes disagree on a simplex')
            if abs(sum(lin) - hull) > Fraction(1, 10 ** 8) * hull:
                problems.append(f'sum of the elements {float(sum(lin))} != convex hull {float(hull)}')
            if r.get('default_metrics_raises'):
                problems.append('calculate_element_metrics() raises on the generated mesh')
        ctx.case(['random_mesh', t['type'], t['n_point'], t['lx'], t['ly'], t['lz'], t['noise_scale'], t['np_seed']],
                 sample={'stream': 'generate_random_mesh tiles the hull of its nodes', **{k: t[k] for k in
                         ('type', 'n_point', 'noise_scale')}, 'n_elements': r.get('n_elements')})
        ctx.count('random_mesh:' + t['type'])
        if problems:
            n_bad += 1
            ctx.violation('impl-violation', {k: t[k] for k in ('type', 'n_point', 'lx', 'ly', 'lz', 'noise_scale',
                                                               'np_seed')},
                          'all elements positive, modes agree, sum = volume of the convex hull of the nodes',
                          problems, 'C11_closed_form_tet / C11_vol_affine_tet + tiling (oracle on implementation)',
                          found_input=True, signature={'kind': 'random-mesh', 'type': t['type']},
                          what='generate_random_mesh: ' + '; '.join(problems))
    ctx.notes['random_mesh_oracle'] = {'cases': len(tasks), 'failures': n_bad}
    return len(tasks), n_bad


# ------------------------------------------ 4. same object: query, move, query
import math  # noqa


def mesh_defs_q(name, node_ids, coords, blocks):
    nodes = lib.coq_list([f'({zlit(i)}, {v3flit(c)})' for i, c in zip(node_ids, coords)])
    bl = []
    for ty, eids, conn in blocks:
        rows = lib.coq_list([f'({zlit(e)}, {lib.coq_list([zlit(x) for x in c])})'
                             for e, c in zip(eids, conn)])
        bl.append(f'({lib.coq_str(ty)}, {rows})')
    return (f'Definition nodes_{name} : node_table Q := {nodes}.\n'
            f'Definition blocks_{name} : list block := {lib.coq_list(bl)}.\n')


MOTIONS = [   # (calls, exact linear part M, exact translation t) of the composed motion
    ([{'kind': 'translation', 'v': [3.0, -2.0, 5.0]}], [[1, 0, 0], [0, 1, 0], [0, 0, 1]], [3, -2, 5]),
    ([{'kind': 'rotation', 'axis': [0.0, 0.0, 1.0], 'theta': math.pi / 2}],
     [[0, -1, 0], [1, 0, 0], [0, 0, 1]], [0, 0, 0]),
    ([{'kind': 'rotation', 'axis': [1.0, 0.0, 0.0], 'theta': math.pi / 2}],
     [[1, 0, 0], [0, 0, -1], [0, 1, 0]], [0, 0, 0]),
    ([{'kind': 'rotation', 'axis': [1.0, 1.0, 1.0], 'theta': 2 * math.pi / 3}],
     [[0, 0, 1], [1, 0, 0], [0, 1, 0]], [0, 0, 0]),
    ([{'kind': 'rotation', 'axis': [0.0, 1.0, 0.0], 'theta': math.pi},
      {'kind': 'translation', 'v': [-1.0, 4.0, 2.0]}], [[-1, 0, 0], [0, 1, 0], [0, 0, -1]], [-1, 4, 2]),
]


def motion_stream(ctx, model_ok):
    """compute metrics/normals, move the mesh IN PLACE through translation()/rotation(),
    query the same object again: the answers must be those of the moved coordinates
    (refusing the motion with NotImplementedError is fine)"""
    rng = ctx.rng
    n = 2 if ctx.tier == 'quick' else 8
    meshes, tasks = [], []
    for rep in range(n):
        for dim, ks in ((2, ['tri']), (2, ['quad']), (2, ['tri', 'quad']), (3, ['tet']), (3, ['hex'])):
            o = G.random_opts(rng, jitter_ok=False)
            o['matrix'] = rng.choice([m for m in G.MATRICES if m[0] in ('identity', 'shear', 'general', 'rotscale3')])
            meshes.append(G.shell_mesh(rng, ks, dict(o, ragged=False)) if dim == 2
                          else G.solid_mesh(rng, ks, o, dims=(2, 1, 1)))
    for mi, mesh in enumerate(meshes):
        m = {k: mesh[k] for k in ('node_ids', 'coords', 'blocks')}
        m['coord_dtype'] = ['float64', 'int64', 'int32', 'float32'][mi % 4]
        entries = [('normals', 'centroid'), ('normals', 'linear'), ('areas', 'linear'), ('metrics', None)] \
            if mesh['meta']['dim'] == 2 else [('volumes', 'linear'), ('volumes', 'centroid'), ('metrics', None)]
        for entry, mode in entries:
            for prep, order in (('reset', 'qmq'), ('reset', 'qmq'), ('reset', 'mq'), ('pop_node', 'qmq'),
                                ('as_built', 'qmq')):
                if True:
                    mv = rng.choice(MOTIONS)
                    tasks.append({'id': len(tasks), 'kind': 'motion', 'mesh': m, 'mi': mi, 'entry': entry,
                                  'mode': mode, 'prep': prep, 'order': order,
                                  'motions': mv[0], 'M': mv[1], 't': mv[2]})
    res = run_impl(ctx, tasks, 'motion')
    defs, items, index = [], [], {}
    n_bad = 0
    for t in tasks:
        r = res[t['id']]
        mesh = meshes[t['mi']]
        outcome = 'crash' if 'crash' in r else 'refused' if r.get('refused') else 'moved'
        ctx.count(f'motion:{outcome}:{t["prep"]}:{t["order"]}')
        ctx.count('motion:coord_dtype:' + t['mesh']['coord_dtype'])
        ctx.case(['motion', t['entry'], t['mode'], t['prep'], t['order'], t['motions'],
                  mesh['node_ids'], mesh['coords'], mesh['blocks']],
                 sample={'stream': 'same object: query, move in place, query', 'entry': t['entry'],
                         'motions': t['motions'], 'outcome': outcome})
        if outcome == 'crash':
            n_bad += 1
            ctx.violation('impl-violation', {'stream': 'motion', **{k: t[k] for k in
                          ('entry', 'mode', 'prep', 'order', 'motions', 'mesh')}},
                          'motion is performed or refused with NotImplementedError', r,
                          'same-object motion stream', found_input=True,
                          signature={'kind': 'motion-crash', 'entry': t['entry']})
            continue
        if outcome == 'refused':
            continue
        sec = r['second']
        held = [[hexq(x) for x in row] for row in r['coords_after']]
        # the moved mesh according to the exact rigid motion (the model's coordinates)
        pos0 = dict(zip(t['mesh']['node_ids'], t['mesh']['coords']))
        coords = [[Fraction(x) for x in G.apply_aff(t['M'], t['t'], pos0[i])] for i in r['node_ids_after']]
        if any(abs(a - b) > Fraction(1, 10 ** 9) * max(1, abs(b))
               for ra, rb in zip(held, coords) for a, b in zip(ra, rb)):
            n_bad += 1
            ctx.violation('impl-violation',
                          {'stream': 'motion', **{k: t[k] for k in ('entry', 'mode', 'prep', 'order', 'motions', 'mesh')}},
                          'node coordinates after the motion = exact rigid motion of the original ones',
                          {'coords_after': [[float(x) for x in row] for row in held][:6],
                           'expected': [[float(x) for x in row] for row in coords][:6]},
                          'same-object motion stream: the motion itself', found_input=True,
                          signature={'kind': 'motion-coordinates', 'motion': t['motions'][0]['kind'],
                                     'coord_dtype': t['mesh']['coord_dtype']},
                          what=f'{t["motions"][0]["kind"]}() does not move the nodes rigidly '
                               f'(coordinate dtype {t["mesh"]["coord_dtype"]})')
        name = f'm{t["id"]}'
        defs.append(mesh_defs_q(name, r['node_ids_after'], coords, mesh['blocks']))
        vec = t['entry'] == 'normals'
        if vec:
            eabs, erel = Fraction(1, 2 ** 30), Fraction(0)
        else:
            eabs, erel = Fraction(1, 2 ** 14), Fraction(1, 2 ** 16)
        if t['mesh']['coord_dtype'] == 'float32':
            eabs, erel = Fraction(1, 2 ** 8), Fraction(1, 2 ** 12)
        cl = f'(close3 {qf(eabs)} {qf(erel)})' if vec else f'(close {qf(eabs)} {qf(erel)})'

        def lit(values, ids):
            if vec:
                return '(Some ' + lib.coq_list([f'({zlit(i)}, {v3flit([hexq(x) for x in v])})'
                                                for i, v in zip(ids, values)]) + ')'
            return '(Some ' + lib.coq_list([f'({zlit(i)}, {qf(hexq(v))})' for i, v in zip(ids, values)]) + ')'
        tt = dict(t, **{'raise': False, 'abs': t['entry'] == 'areas'})
        call = entry_call(tt, 'spec', name)
        if 'values' not in sec:
            items.append((2 * t['id'], f'agree {cl} ({call}) None'))
        else:
            items.append((2 * t['id'], f'agree {cl} ({call}) {lit(sec["values"], sec["ids"])}'))
            if 'stored_after_second' in r:
                items.append((2 * t['id'] + 1,
                              f'agree {cl} ({call}) {lit(r["stored_after_second"], sec["ids"])}'))
    bad = []
    if model_ok and items:
        text = HEADER + '\n'.join(defs) + '\nDefinition cases : list (nat * bool) := [' + \
            ';\n'.join(f'({i}%nat, {e})' for i, e in items) + '].\n' \
            'Goal True. idtac "@@ failing". Abort.\n' \
            'Eval vm_compute in map fst (filter (fun c => negb (snd c)) cases).\n'
        rc, out, err = ctx.coq_eval('MotionCases', text, timeout=900)
        bad = failing(out, 'failing') if rc == 0 else None
        if bad is None:
            ctx.log('MotionCases.v failed to compile:', err[-600:])
            ctx.violation('tie-broken', {'stage': 'MotionCases.v'}, 'case file compiles', err[-300:],
                          'same-object motion stream', found_input=False,
                          signature={'kind': 'case-file', 'file': 'MotionCases'})
            bad = []
            n_bad += 1
    byid = {t['id']: t for t in tasks}
    for j in bad:
        t = byid[j // 2]
        r = res[t['id']]
        n_bad += 1
        what = 'stored attribute' if j % 2 else 'returned value'
        ctx.violation('impl-violation',
                      {'stream': 'motion', **{k: t[k] for k in ('entry', 'mode', 'prep', 'order', 'motions', 'mesh')}},
                      'after an accepted in-place motion the same object answers for the MOVED coordinates '
                      '(model evaluated on the coordinates the object now holds)',
                      {'first': r.get('first'), 'second': r.get('second'),
                       'stored_after_second': r.get('stored_after_second'),
                       'derived_keys_before_motion': r.get('derived_keys_before_motion')},
                      'C11_normal_rotation_* / C11_vol_affine_* / C11_area_similarity_* on the same object',
                      found_input=True,
                      signature={'kind': 'same-object-motion', 'entry': t['entry'], 'what': what,
                                 'order': t['order'], 'motion': t['motions'][0]['kind']},
                      what=f'{t["entry"]}: {what} after {t["motions"][0]["kind"]}() is not that of the moved mesh')
    ctx.notes['motion_stream'] = {'cases': len(tasks), 'compared': len(items), 'failures': n_bad}
    return len(tasks), n_bad


# ------------------------------- 4b. far from the origin, decimal length scales
# Supported range assumed per kernel (what the UNCHANGED kernels deliver, measured):
#  * kernels built on point differences (tri/quad areas in all modes, normals, tet, pyramid /
#    prism / hex linear, hex Gauss): relative error ~ eps * |position| / cell, i.e. 3e-9 at 1e7
#    cell sizes from the origin -> tested up to 1e7 cell sizes with relative tolerance 1e-7;
#  * centroid volume kernels (hex / prism / pyramid, the default mode): when the translated kernels
#    still carry the float32 accumulators (origin-based fans) they deliver 3e-5 at 1e2, 2e-4 at 1e3,
#    2e-3 at 1e4 cell sizes, useless beyond -> tested up to 1e3 cell sizes at 2e-3; the repaired
#    kernels (local origin, float64; proposed_fixes/C11_centroid_volume_kernels_local_origin.diff)
#    deliver 3e-9 at 1e7 like the others -> tested up to 1e7 cell sizes at 1e-7.
FAR = [(1e5, 0.37), (1e6, 1.7e-3), (1e7, 2.3e2), (4.1e6, 1.0)]
NEAR_CENTROID = [(1e2, 0.37), (1e3, 1.7e-3)]


def farfield_stream(ctx, model_ok, centroid_f32=True):
    rng = ctx.rng
    tasks, meshes = [], []
    reps = 1 if ctx.tier == 'quick' else 4
    for rep in range(reps):
        for K, h in FAR + NEAR_CENTROID:
            for dim, ks in ((2, ['tri', 'quad']), (2, ['quad']), (3, ['hex']), (3, ['tet', 'prism', 'pyr'])):
                o = G.random_opts(rng, jitter_ok=False)
                o['matrix'] = rng.choice([m for m in G.MATRICES if m[0] in
                                          ('identity', 'rot90z', 'shear', 'general', 'reflect_z', 'cyclic')])
                base = G.shell_mesh(rng, ks, dict(o, ragged=False)) if dim == 2 else \
                    G.solid_mesh(rng, ks, o, dims=(2, 1, 1))
                off = [0.32 * K * rng.choice([1, -1]), K, 1.5e-3 * K]
                rng.shuffle(off)
                coords = [[float(c) * h + off[k] * h for k, c in enumerate(row)] for row in base['coords']]
                base = dict(base, coords=coords)
                base['meta'] = dict(base['meta'], K=K, h=h, coord_dtype='float64')
                meshes.append(base)
    for mi, mesh in enumerate(meshes):
        m = {k: mesh[k] for k in ('node_ids', 'coords', 'blocks')}
        K = mesh['meta']['K']
        if mesh['meta']['dim'] == 2:
            if K < 1e4:
                continue
            calls = [('areas', mo, False, True) for mo in c11_kernels.MODES] + \
                    [('normals', 'centroid', None, None), ('normals', 'linear', None, None)]
        elif K >= 1e4:
            calls = [('volumes', 'linear', False, False), ('volumes', 'gaussian', False, False)]
            if not centroid_f32:
                # repaired centroid kernels (local origin, float64): same range as the others
                calls += [('volumes', 'centroid', False, False), ('metrics', None, False, False)]
        else:
            calls = [('volumes', 'centroid', False, False), ('metrics', None, False, False)]
        for entry, mode, rs, ab in calls:
            tasks.append({'id': len(tasks), 'kind': 'entry', 'entry': entry, 'mode': mode, 'raise': rs,
                          'abs': ab, 'mesh': m, 'mi': mi})
    res = run_impl(ctx, tasks, 'farfield')
    defs, items, done = [], [], set()
    n_bad = 0
    for t in tasks:
        r = res[t['id']]
        mesh = meshes[t['mi']]
        K, h = mesh['meta']['K'], mesh['meta']['h']
        ctx.count('farfield:offset %g cell sizes, cell size %g' % (K, h))
        ctx.case(['farfield', t['entry'], t['mode'], mesh['coords'], mesh['blocks']],
                 sample={'stream': 'far from the origin', 'offset_in_cell_sizes': K, 'cell_size': h,
                         'entry': t['entry'], 'mode': t['mode'], 'first_value': (r.get('values') or [None])[0]})
        if 'values' not in r and 'error' not in r:
            n_bad += 1
            ctx.violation('impl-violation', {'stream': 'farfield', **{k: t[k] for k in ('entry', 'mode', 'mesh')}},
                          'entry point returns', {k: r.get(k) for k in ('error', 'crash')}, 'far-field stream',
                          found_input=True, signature={'kind': 'farfield-error', 'entry': t['entry']})
            continue
        if t['mi'] not in done:
            done.add(t['mi'])
            defs.append(mesh_defs_q(f'f{t["mi"]}', mesh['node_ids'],
                                    [[Fraction(x) for x in row] for row in mesh['coords']], mesh['blocks']))
        vec = t['entry'] == 'normals'
        d = mesh['meta']['dim']
        tol = Fraction(1, 10 ** 7) if K >= 1e4 else Fraction(2, 10 ** 3)
        eabs = tol if vec else tol * Fraction(h) ** d
        cl = f'(close3 {qf(eabs)} 0)' if vec else f'(close {qf(eabs)} {qf(tol)})'
        tt = dict(t, **{'raise': bool(t['raise']), 'abs': bool(t['abs'])})
        call = entry_call(tt, 'spec', f'f{t["mi"]}')
        if 'error' in r:
            items.append((t['id'], f'agree {cl} ({call}) None'))
            continue
        if vec:
            rows = [f'({zlit(i)}, {v3flit([hexq(x) for x in v])})' for i, v in zip(r['ids'], r['values'])]
        else:
            rows = [f'({zlit(i)}, {qf(hexq(v))})' for i, v in zip(r['ids'], r['values'])]
        items.append((t['id'], f'agree {cl} ({call}) (Some {lib.coq_list(rows)})'))
    bad = []
    if model_ok and items:
        text = HEADER + '\n'.join(defs) + '\nDefinition cases : list (nat * bool) := [' + \
            ';\n'.join(f'({i}%nat, {e})' for i, e in items) + '].\n' \
            'Goal True. idtac "@@ failing". Abort.\n' \
            'Eval vm_compute in map fst (filter (fun c => negb (snd c)) cases).\n'
        rc, out, err = ctx.coq_eval('FarCases', text, timeout=900)
        bad = failing(out, 'failing') if rc == 0 else None
        if bad is None:
            ctx.log('FarCases.v failed to compile:', err[-600:])
            ctx.violation('tie-broken', {'stage': 'FarCases.v'}, 'case file compiles', err[-300:],
                          'far-field stream', found_input=False, signature={'kind': 'case-file', 'file': 'FarCases'})
            bad = []
            n_bad += 1
    byid = {t['id']: t for t in tasks}
    for i in bad:
        t = byid[i]
        mesh = meshes[t['mi']]
        n_bad += 1
        ctx.violation('impl-violation',
                      {'stream': 'farfield', 'entry': t['entry'], 'mode': t['mode'], 'mesh': t['mesh'],
                       'offset_in_cell_sizes': mesh['meta']['K'], 'cell_size': mesh['meta']['h']},
                      'value of the exact model on the same (float) coordinates within the relative accuracy '
                      'the unchanged kernel delivers at that distance (1e-7; 2e-3 for centroid volumes)',
                      {'values': [float.fromhex(v) if isinstance(v, str) else v
                                  for v in res[i].get('values', [])][:6]},
                      'C11_vol_affine_* / C11_area_similarity_* (translation invariance) far from the origin',
                      found_input=True,
                      signature={'kind': 'farfield', 'entry': t['entry'], 'mode': t['mode'],
                                 'kinds': '+'.join(mesh['meta']['kinds'])},
                      what=f'{t["entry"]}({t["mode"]}) loses accuracy {mesh["meta"]["K"]:g} cell sizes from the origin')
    ctx.notes['farfield_stream'] = {'cases': len(tasks), 'compared': len(items), 'failures': n_bad}
    return len(tasks), n_bad


# ------------- 4c. graded meshes: element sizes many orders of magnitude apart in ONE call
# The metric of an element depends only on its own shape -- not on what else is in the mesh.
# Tensor-product graded lattices (boundary-layer corner): the first cell layer along every axis has
# width h, all others width 1, so one mesh holds cells of volume h^3, h^2, h and 1 (areas h^2, h, 1);
# h ~ 1e-3, 1e-5, 1e-7 gives metric ratios from 1e-3 down to 1e-21 inside one call.  An overall
# length scale (1, ~2e-3, ~2e2) and an integer matrix (incl. mirrored) are applied afterwards.  The
# model is evaluated over Q on exactly the floats handed to femio; tolerance PER ELEMENT relative to
# the element's own value (no absolute term): 1e-6 (measured on the unchanged kernels: < 1e-8).
# Quick tier: dyadic h and scales (the floats are small dyadic rationals, so the evaluation over Q
# stays cheap); the thorough tier adds the decimal ones (52-bit mantissas everywhere).
GRADED_H = [2.0 ** -10, 2.0 ** -17, 2.0 ** -23]
GRADED_SCALE = [1.0, 2.0 ** -9, 2.0 ** 8]
GRADED_H_DEC = [1e-3, 1e-5, 1e-7]
GRADED_SCALE_DEC = [1.0, 1.7e-3, 2.3e2]


def graded_coord(x, h):
    """lattice coordinate (integer) -> graded position: first layer of width h, the others 1"""
    if x <= 0:
        return float(x)
    return h + (x - 1)


def graded_stream(ctx, model_ok, deep=False):
    rng = ctx.rng
    reps = 1 if (ctx.tier == 'quick' and not deep) else 3
    meshes, tasks = [], []
    for rep in range(reps):
        for h in (GRADED_H if rep % 2 == 0 else GRADED_H_DEC):
            for dim, ks in ((3, ['hex']), (3, ['tet']), (3, ['hex', 'prism', 'pyr', 'tet']),
                            (2, ['tri', 'quad']), (2, ['quad'])):
                o = G.random_opts(rng, jitter_ok=False)
                mat = rng.choice([m for m in G.MATRICES if m[0] in
                                  ('identity', 'rot90z', 'shear', 'general', 'reflect_z', 'cyclic', 'aniso')])
                o.update(matrix=G.MATRICES[0], t=[0, 0, 0], extra_nodes=0)
                base = G.solid_mesh(rng, ks, o, dims=(2, 2, 2)) if dim == 3 else \
                    G.shell_mesh(rng, ks, dict(o, ragged=False), dims=(2, 2))
                sc = rng.choice(GRADED_SCALE if rep % 2 == 0 else GRADED_SCALE_DEC)
                coords = []
                for row in base['coords']:
                    g = [graded_coord(x, h) for x in row]
                    coords.append([float(sum(mat[1][i][j] * g[j] for j in range(3))) * sc for i in range(3)])
                base = dict(base, coords=coords)
                base['meta'] = dict(base['meta'], h=h, scale=sc, matrix=mat[0], det=G.det3(mat[1]),
                                    coord_dtype='float64')
                meshes.append(base)
    for mi, mesh in enumerate(meshes):
        m = {k: mesh[k] for k in ('node_ids', 'coords', 'blocks')}
        if mesh['meta']['dim'] == 3:
            calls = [('volumes', mo, False, False) for mo in c11_kernels.MODES] + \
                    [('metrics', None, False, True), ('volumes', 'centroid', True, False)]
        else:
            calls = [('areas', mo, False, True) for mo in c11_kernels.MODES] + [('metrics', None, True, False)]
        if ctx.tier == 'quick' and not deep:
            calls = calls[:3] + [rng.choice(calls[3:])]
        for entry, mode, rs, ab in calls:
            tasks.append({'id': len(tasks), 'kind': 'entry', 'entry': entry, 'mode': mode, 'raise': rs,
                          'abs': ab, 'mesh': m, 'mi': mi})
    res = run_impl(ctx, tasks, 'graded')
    defs, done, groups = [], set(), {}
    n_bad = 0
    tol = Fraction(1, 10 ** 6)
    for t in tasks:
        r = res[t['id']]
        mesh = meshes[t['mi']]
        h = mesh['meta']['h']
        ctx.count('graded:first layer %g x cell' % h)
        ctx.case(['graded', t['entry'], t['mode'], t['raise'], t['abs'], mesh['coords'], mesh['blocks']],
                 sample={'stream': 'graded mesh (sizes many orders of magnitude apart in one call)',
                         'first_layer_width': h, 'length_scale': mesh['meta']['scale'],
                         'matrix': mesh['meta']['matrix'], 'entry': t['entry'], 'mode': t['mode'],
                         'min_max_abs_value': (lambda v: [min(v), max(v)] if v else None)(
                             [abs(float.fromhex(x)) for x in r.get('values', [])])})
        if 'values' not in r and 'error' not in r:
            n_bad += 1
            ctx.violation('impl-violation', {'stream': 'graded', **{k: t[k] for k in ('entry', 'mode', 'mesh')}},
                          'entry point returns', {k: r.get(k) for k in ('error', 'crash')}, 'graded-mesh stream',
                          found_input=True, signature={'kind': 'graded-error', 'entry': t['entry']})
            continue
        if t['mi'] not in done:
            done.add(t['mi'])
            defs.append(mesh_defs_q(f'g{t["mi"]}', mesh['node_ids'],
                                    [[Fraction(x) for x in row] for row in mesh['coords']], mesh['blocks']))
        cl = f'(close 0 {qf(tol)})'
        call = entry_call(t, 'spec', f'g{t["mi"]}', ops='QOpsHP')   # square roots to 2^-62 RELATIVE
        if 'error' in r:
            test = 'raise_ok m' if (r['error'] == 'ValueError' and t['raise']) else f'agree {cl} m None'
        else:
            rows = [f'({zlit(i)}, {qf(hexq(v))})' for i, v in zip(r['ids'], r['values'])]
            test = f'agree {cl} m (Some {lib.coq_list(rows)})'
        groups.setdefault(call, []).append((t['id'], test))
    bad = []
    if model_ok and groups:
        text = HEADER + 'From FV.C11 Require Import CheckRel.\n' + '\n'.join(defs) + '\n' + \
            grouped_cases(groups) + \
            'Goal True. idtac "@@ failing". Abort.\n' \
            'Eval vm_compute in map fst (filter (fun c => negb (snd c)) cases).\n'
        rc, out, err = ctx.coq_eval('GradedCases', text, timeout=900)
        bad = failing(out, 'failing') if rc == 0 else None
        if bad is None:
            ctx.log('GradedCases.v failed to compile:', err[-600:])
            ctx.violation('tie-broken', {'stage': 'GradedCases.v'}, 'case file compiles', err[-300:],
                          'graded-mesh stream', found_input=False,
                          signature={'kind': 'case-file', 'file': 'GradedCases'})
            bad = []
            n_bad += 1
    byid = {t['id']: t for t in tasks}
    for i in bad:
        t = byid[i]
        mesh = meshes[t['mi']]
        n_bad += 1
        vals = [float.fromhex(v) for v in res[i].get('values', [])]
        ctx.violation('impl-violation',
                      {'stream': 'graded', 'entry': t['entry'], 'mode': t['mode'], 'raise_negative': t['raise'],
                       'return_abs': t['abs'], 'mesh': t['mesh'], 'first_layer_width': mesh['meta']['h'],
                       'length_scale': mesh['meta']['scale'], 'matrix': mesh['meta']['matrix']},
                      'every element has the value of the exact model on its own nodes, within 1e-6 of THAT '
                      "element's value, whatever the size of the other elements in the call",
                      {'ids': res[i].get('ids'), 'values': vals, 'error': res[i].get('error'),
                       'zeros': sum(1 for v in vals if v == 0.0)},
                      'C11_block_rows / C11_validate_elementwise: a value depends on the element\'s own nodes only',
                      found_input=True,
                      signature={'kind': 'graded', 'entry': t['entry'], 'mode': t['mode'],
                                 'kinds': '+'.join(mesh['meta']['kinds']), 'h': mesh['meta']['h']},
                      what=f'{t["entry"]}({t["mode"]}) of small elements changes when much larger elements '
                           f'are in the same call (size ratio {mesh["meta"]["h"]:g} per axis)')
    ctx.notes['graded_stream'] = {'cases': len(tasks), 'model_evaluations': len(groups), 'failures': n_bad}
    return len(tasks), n_bad


# --------------------------- 5. option histories on one object (signs are part of the model)
def one_option_pairs(entry):
    """ordered pairs of option tuples (mode, raise_negative, return_abs) of an entry point that
    differ in exactly one component (calculate_element_metrics has no mode)"""
    modes = [None] if entry == 'metrics' else list(c11_kernels.MODES)
    tuples = [(mo, r, a) for mo in modes for r in (False, True) for a in (False, True)]
    return [(a, b) for a in tuples for b in tuples if sum(x != y for x, y in zip(a, b)) == 1]


def grouped_cases(groups):
    """groups: {model call expression: [(case id, test applied to the model value `m`)]};
    the model is evaluated ONCE per group (`let m := ... in`)"""
    parts = []
    for call, items in groups.items():
        rows = ';\n    '.join(f'({i}%nat, {test})' for i, test in items)
        parts.append(f'(let m := ({call}) in\n   [{rows}])')
    return 'Definition cases : list (nat * bool) :=\n  ' + '\n  ++ '.join(parts + ['[]']) + '.\n'


def history_stream(ctx, model_ok, deep=False):
    """several calls with different (mode, raise_negative, return_abs) on ONE object, on
    mirrored (det M < 0) and ordinary, single-type and mixed meshes; every call must answer
    like the model for exactly its own options"""
    rng = ctx.rng
    quick = ctx.tier == 'quick' and not deep
    n = 3 if quick else 12
    meshes, tasks = [], []
    mirrored = [m for m in G.MATRICES if G.det3(m[1]) < 0]
    for rep in range(n):
        for dim, ks in ((3, ['hex', 'prism', 'tet']), (3, ['hex']), (3, ['tet']), (3, ['prism', 'tet']),
                        (2, ['tri', 'quad'])):
            o = G.random_opts(rng, jitter_ok=False)
            o['matrix'] = rng.choice(mirrored) if rep % 3 != 2 else rng.choice(G.MATRICES)
            o['shuffle_elems'] = rng.random() < 0.5
            meshes.append(G.solid_mesh(rng, ks, o, dims=(2, 1, 1)) if dim == 3
                          else G.shell_mesh(rng, ks, dict(o, ragged=False)))
    flags = [(False, True), (False, False), (True, False), (True, True),
             ('None', '1'), ('0', 'np.False_'), ('np.False_', 'np.True_'), ('1', '0'), ('np.True_', 'None')]
    truthy = lambda x: x in (True, '1', 'np.True_')   # noqa
    for mi, mesh in enumerate(meshes):
        m = {k: mesh[k] for k in ('node_ids', 'coords', 'blocks')}
        for rep in range(3):
            calls = []
            for _ in range(rng.randint(2, 4)):
                rs, ab = rng.choice(flags)
                if mesh['meta']['dim'] == 3:
                    e = rng.choice(['volumes', 'volumes', 'volumes', 'metrics', 'volumes_default'])
                else:
                    e = rng.choice(['areas', 'areas', 'metrics', 'normals'])
                mode = rng.choice(c11_kernels.MODES) if e in ('volumes', 'areas', 'normals') else None
                if e == 'volumes_default':
                    mode, rs, ab = 'centroid', True, False
                calls.append({'entry': e, 'mode': mode, 'raise': rs, 'abs': ab})
            if rep == 0 and mesh['meta']['dim'] == 3:      # the canonical pair: absolute, then signed
                calls = [{'entry': 'volumes', 'mode': 'centroid', 'raise': False, 'abs': True},
                         {'entry': 'volumes', 'mode': 'centroid', 'raise': False, 'abs': False},
                         {'entry': 'volumes_default', 'mode': 'centroid', 'raise': True, 'abs': False}]
            tasks.append({'id': len(tasks), 'kind': 'history', 'mesh': m, 'mi': mi, 'calls': calls})
    # systematic part: on mirrored meshes, for every entry point that keeps a result slot, EVERY
    # ordered pair of option tuples that differ in exactly one option (mode / raise_negative /
    # return_abs), asked one after the other on one object (and the first one once more)
    n_random = len(tasks)
    pair_meshes = []
    for dim, ks in ((3, ['tet']), (3, ['hex', 'prism', 'tet']), (2, ['tri', 'quad'])) + \
            (() if quick else ((3, ['hex']), (3, ['prism', 'tet']), (2, ['quad']))):
        o = G.random_opts(rng, jitter_ok=False)
        o['matrix'] = rng.choice(mirrored)
        o['shuffle_elems'] = rng.random() < 0.5
        meshes.append(G.solid_mesh(rng, ks, o, dims=(2, 1, 1)) if dim == 3
                      else G.shell_mesh(rng, ks, dict(o, ragged=False)))
        pair_meshes.append(len(meshes) - 1)
    for mi in pair_meshes:
        mesh = meshes[mi]
        m = {k: mesh[k] for k in ('node_ids', 'coords', 'blocks')}
        for e in (['volumes', 'metrics'] if mesh['meta']['dim'] == 3 else ['areas', 'metrics']):
            for a, b in one_option_pairs(e):
                calls = [{'entry': e, 'mode': x[0], 'raise': x[1], 'abs': x[2]} for x in (a, b, a)]
                tasks.append({'id': len(tasks), 'kind': 'history', 'mesh': m, 'mi': mi, 'calls': calls,
                              'systematic': True})
    res = run_impl(ctx, tasks, 'history')
    defs, items, done, groups = [], [], set(), {}
    n_bad = 0
    for t in tasks:
        r = res[t['id']]
        mesh = meshes[t['mi']]
        ctx.count('history:' + ('one-option pairs:' if t.get('systematic') else 'random:') + ('mirrored' if mesh['meta']['det'] < 0 else 'not mirrored') + ':' +
                  ('mixed' if mesh['meta']['mixed'] else 'single type'))
        ctx.case(['history', t['calls'], mesh['node_ids'], mesh['coords'], mesh['blocks']],
                 sample={'stream': 'option history on one object', 'calls': t['calls'],
                         'det_M': mesh['meta']['det'], 'blocks': [[b[0], len(b[1])] for b in mesh['blocks']]})
        if 'results' not in r:
            n_bad += 1
            ctx.violation('impl-violation', {'stream': 'history', 'calls': t['calls'], 'mesh': t['mesh']},
                          'calls return or raise ValueError/NotImplementedError', r, 'option-history stream',
                          found_input=True, signature={'kind': 'history-crash'})
            continue
        if t['mi'] not in done:
            done.add(t['mi'])
            defs.append(mesh_defs(f'h{t["mi"]}', mesh))
        for k, (c, rr) in enumerate(zip(t['calls'], r['results'])):
            e = 'volumes' if c['entry'] == 'volumes_default' else c['entry']
            vec = e == 'normals'
            tt = {'entry': e, 'mode': c['mode'], 'raise': truthy(c['raise']), 'abs': truthy(c['abs'])}
            eabs, erel = entry_tol(tt, mesh)
            cl = f'(close3 {qf(eabs)} {qf(erel)})' if vec else f'(close {qf(eabs)} {qf(erel)})'
            call = entry_call(tt, 'spec', f'h{t["mi"]}')
            if 'error' in rr:
                if rr['error'] == 'ValueError' and truthy(c['raise']) and not vec:
                    test = 'raise_ok m'
                else:
                    test = f'agree {cl} m None'
            elif vec:
                rows = [f'({zlit(i)}, {v3flit([hexq(x) for x in v])})' for i, v in zip(rr['ids'], rr['values'])]
                test = f'agree {cl} m (Some {lib.coq_list(rows)})'
            else:
                rows = [f'({zlit(i)}, {qf(hexq(v))})' for i, v in zip(rr['ids'], rr['values'])]
                test = f'agree {cl} m (Some {lib.coq_list(rows)})'
            items.append(16 * t['id'] + k)
            groups.setdefault(call, []).append((16 * t['id'] + k, test))
    bad = []
    if model_ok and items:
        # at most ~400 comparisons per generated file
        chunks, cur, cnt = [], {}, 0
        for call, its in groups.items():
            if cnt and cnt + len(its) > 400:
                chunks.append(cur)
                cur, cnt = {}, 0
            cur[call] = its
            cnt += len(its)
        chunks.append(cur)
        for ci, ch in enumerate(chunks):
            text = HEADER + '\n'.join(defs) + '\n' + grouped_cases(ch) + \
                'Goal True. idtac "@@ failing". Abort.\n' \
                'Eval vm_compute in map fst (filter (fun c => negb (snd c)) cases).\n'
            rc, out, err = ctx.coq_eval('HistoryCases' + (str(ci) if ci else ''), text, timeout=900)
            part = failing(out, 'failing') if rc == 0 else None
            if part is None:
                ctx.log('HistoryCases.v failed to compile:', err[-600:])
                ctx.violation('tie-broken', {'stage': 'HistoryCases.v'}, 'case file compiles', err[-300:],
                              'option-history stream', found_input=False,
                              signature={'kind': 'case-file', 'file': 'HistoryCases'})
                n_bad += 1
            else:
                bad += part
    byid = {t['id']: t for t in tasks}
    for j in bad:
        t = byid[j // 16]
        k = j % 16
        mesh = meshes[t['mi']]
        n_bad += 1
        c = t['calls'][k]
        ctx.violation('impl-violation',
                      {'stream': 'history', 'calls': t['calls'], 'failing_call': k, 'mesh': t['mesh'],
                       'det_M': mesh['meta']['det']},
                      'call k on the same object answers like the model for its own options '
                      '(signed values are negative on a mirrored mesh; raise_negative raises)',
                      {'results': res[t['id']]['results']},
                      'C11_vol_affine_* (sign = sign det M) + _validate_metric on one object',
                      found_input=True,
                      signature={'kind': 'option-history', 'entry': c['entry'], 'call_index': k,
                                 'raise': c['raise'], 'abs': c['abs'],
                                 'mirrored': mesh['meta']['det'] < 0, 'mixed': mesh['meta']['mixed'],
                                 'previous': [(p['entry'], p['raise'], p['abs']) for p in t['calls'][:k]][-1:]},
                      what=f'call {k} ({c["entry"]}, raise={c["raise"]}, abs={c["abs"]}) after '
                           f'{[(p["entry"], p["raise"], p["abs"]) for p in t["calls"][:k]]} on one object '
                           'does not answer for its own options')
    ctx.notes['history_stream'] = {'histories': len(tasks), 'random_histories': n_random,
                                   'one_option_pair_histories': len(tasks) - n_random,
                                   'calls_compared': len(items), 'model_evaluations': len(groups),
                                   'failures': n_bad}
    return len(tasks), n_bad


# ---------------------------------------------------------------------- main
def main(ctx):
    ctx.rule = ('translator validation: every generated kernel on random integer elements '
                '(distinct = kernel x point tuple); entry points: structured lattice meshes '
                '(hex / 2 prisms / 3 pyramids / 6 tets per cell, tri/quad/polygon shells, hexagonal '
                'prisms) under integer affine maps, optional integer jitter, sparse/unsorted/large ids, '
                'shuffled node and element storage, unreferenced nodes, mixed blocks; a case = '
                '(mesh, entry point, mode, flags); all cases are non-trivial (>= 1 element)')
    ctx.trusted += [
        'translator /verif/translate/c11_kernels.py (fail-closed Python-ast partial evaluator) '
        'and its validation against the Python kernels',
        'hand models of the polygon / polyhedron loops, functions.normalize, the id lookup and '
        'the result assembly (coq/C11/Model.v, Entry.v), pinned by the correspondence',
        'float -> rational conversion float.hex()/Fraction; comparison inside Coq over Q '
        '(Check.close); Qsqrt = floor(sqrt(q) 2^60)/2^60 (graded meshes: CheckRel.Qsqrt_rel, 62 significant bits)',
        'translator /verif/translate/c11_glue.py (_validate_metric, _slot_answers, option tuples, '
        'functions.normalize) and its validation against the methods; when the glue is outside its grammar the '
        'reference semantics are used and notes.glue_translator says so (tie H for the glue)',
        'hand model of the stored-result state machine coq/C11/Slot.v (step/session) and the pattern match of how '
        'the entry points use the slot, pinned by the option-history stream',
    ]
    ctx.assumptions += [
        'floating-point rounding, float32 accumulators, LAPACK det and EPSILON clamping are '
        'modelled as exact real arithmetic (theorems over R); float literals denote their decimal value',
        'entry-point correspondence: fresh FEMData object per query; the stored area/volume/metric results are '
        'modelled separately (Slot.v, C11_slot_history_*) and exercised by the option-history stream; '
        'invalidation by mesh edits other than translation()/rotation() belongs to C19',
    ]
    # 1. translate
    tie_ok, model = True, None
    brick_tie = 'translated'
    try:
        model, consumed = c11_kernels.translate(str(lib.REPO))
        ctx.sources = consumed
        lib.write_if_changed(lib.COQ / 'C11' / 'gen' / 'Kernels.v', c11_kernels.emit(model))
        # brick generator: T (templates + layout statements pinned) -> templates T, layout H ->
        # reference templates (all H); below T the exact correspondence of generate_brick runs deeper
        brick_tie = 'translated'
        try:
            templates, bconsumed = c11_brick.translate(str(lib.REPO))
            ctx.sources.update(bconsumed)
        except c11_brick.TranslateError as e:
            ctx.log('brick generator outside the pinned form (degraded tie + deeper correspondence):', e)
            try:
                templates, bconsumed = c11_brick.translate(str(lib.REPO), strict_layout=False)
                ctx.sources.update(bconsumed)
                brick_tie = 'templates translated, layout by correspondence'
            except c11_brick.TranslateError as e2:
                templates = c11_brick.REFERENCE
                brick_tie = 'reference templates, tied by correspondence only'
                e = f'{e}; {e2}'
            ctx.notes['brick_translator'] = {'tie': brick_tie, 'error': str(e)}
        lib.write_if_changed(lib.COQ / 'C11' / 'gen' / 'Brick.v', c11_brick.emit(templates))
    except (c11_kernels.TranslateError, c11_brick.TranslateError, SyntaxError) as e:
        tie_ok = False
        ctx.log('translator failed closed:', e)
        ctx.notes['translator_error'] = str(e)
    # 1b. the glue (_validate_metric, _slot_answers, option tuples): translated when inside the
    # grammar; otherwise the REFERENCE semantics are emitted (tie H: pinned by the streams below,
    # which then run at thorough depth) -- a rewrite of the glue alone is not a violation
    glue_translated = False
    try:
        gmodel, gconsumed = c11_glue.translate(str(lib.REPO))
        ctx.sources.update(gconsumed)
        lib.write_if_changed(lib.COQ / 'C11' / 'gen' / 'Glue.v', c11_glue.emit(gmodel))
        glue_translated = True
        ctx.notes['glue_translator'] = {'translated': True}
    except (c11_glue.TranslateError, SyntaxError) as e:
        lib.write_if_changed(lib.COQ / 'C11' / 'gen' / 'Glue.v',
                             c11_glue.emit(c11_glue.REFERENCE, translated=False))
        ctx.log('glue outside the translator grammar (reference semantics + deeper search):', e)
        ctx.notes['glue_translator'] = {
            'translated': False, 'error': str(e),
            'policy': 'gen/Glue.v holds the reference semantics; the PropsGlue theorems are then about the '
                      'reference, tied to the code by correspondence only (glue validation, option-history and '
                      'graded-mesh streams at thorough depth)'}
    deep = not glue_translated
    # 1c. translation() / rotation(): what they do to one node, translated; outside the grammar -> the
    # reference text (tie H by the motion correspondence), not a violation by itself
    motion_translated = False
    try:
        mmodel, mconsumed = c11_motion.translate(str(lib.REPO))
        ctx.sources.update(mconsumed)
        lib.write_if_changed(lib.COQ / 'C11' / 'gen' / 'Motion.v', c11_motion.emit(mmodel))
        motion_translated = True
        ctx.notes['motion_translator'] = {'translated': True}
    except (c11_kernels.TranslateError, SyntaxError) as e:
        lib.write_if_changed(lib.COQ / 'C11' / 'gen' / 'Motion.v',
                             (lib.VERIF / 'translate' / 'c11_motion_reference.v').read_text())
        ctx.log('translation()/rotation() outside the translator grammar (reference semantics):', e)
        ctx.notes['motion_translator'] = {
            'translated': False, 'error': str(e),
            'policy': 'gen/Motion.v holds the reference semantics; the PropsMotion theorems are then about the '
                      'reference, tied to the code by the motion correspondence only'}
    # 2. proofs
    proof_ok = False
    if tie_ok:
        proof_ok, log = ctx.build_props('C11/Props.v', extra_targets=['C11/Check.vo', 'C11/BrickCheck.vo',
                                                                      'C11/CheckRel.vo'])
        if not proof_ok:
            ctx.notes['build_log_tail'] = log[-2500:]
    else:
        for n in lib.theorem_names(lib.COQ / 'C11' / 'Props.v'):
            ctx.obligations.append({'name': n, 'discharged': False, 'assumptions': [],
                                    'note': 'translator failed closed'})
    model_ok = tie_ok
    if tie_ok and not proof_ok:
        ok, log, _ = lib.coq_make(['C11/Check.vo', 'C11/BrickCheck.vo', 'C11/CheckRel.vo',
                                   'C11/gen/Kernels.vo', 'C11/Entry.vo'])
        model_ok = ok
        if not ok:
            ctx.notes['model_build_log_tail'] = log[-1500:]
    glue_proof_ok = None
    if model_ok:
        glue_proof_ok, glog = ctx.build_props('C11/PropsGlue.v')
        if not glue_proof_ok:
            ctx.notes['glue_build_log_tail'] = glog[-2000:]
            okg, _, _ = lib.coq_make(['C11/gen/Glue.vo'])
            if not okg:
                # the emitted glue does not even type-check: fall back to the reference for the streams
                lib.write_if_changed(lib.COQ / 'C11' / 'gen' / 'Glue.v',
                                     c11_glue.emit(c11_glue.REFERENCE, translated=False))
                lib.coq_make(['C11/gen/Glue.vo'])
            deep = True
    motion_proof_ok = None
    if model_ok and proof_ok:
        motion_proof_ok, mlog = ctx.build_props('C11/PropsMotion.v')
        if not motion_proof_ok:
            ctx.notes['motion_build_log_tail'] = mlog[-2000:]
            okm, _, _ = lib.coq_make(['C11/gen/Motion.vo'])
            if not okm:
                lib.write_if_changed(lib.COQ / 'C11' / 'gen' / 'Motion.v',
                                     (lib.VERIF / 'translate' / 'c11_motion_reference.v').read_text())
                lib.coq_make(['C11/gen/Motion.vo'])
    n_viol_before = len(ctx.violations)
    # 3. translator validation
    if model_ok:
        nk, nk_bad = validate_translator(ctx, model)
        ctx.log(f'translator validation: {nk} kernel evaluations, {nk_bad} disagreements')
        ctx.notes['translator_validation'] = {'cases': nk, 'disagreements': nk_bad}
        ng, ng_bad = validate_glue(ctx, glue_translated)
        ctx.log(f'glue validation: {ng} cases, {ng_bad} disagreements')
        if motion_proof_ok is not None:
            nm, nm_bad = validate_motion(ctx, motion_translated)
            ctx.log(f'motion-code validation: {nm} motions, {nm_bad} disagreements')
    # 4. entry points: implementation (corpus first)
    meshes, corpus_calls = [], []
    for f in sorted((lib.VERIF / 'corpus' / PID).glob('*.json')):
        c = json.loads(f.read_text())
        m = dict(c['mesh'])
        m['meta'] = c['meta']
        meshes.append(m)
        corpus_calls.append((len(meshes) - 1, c))
    n_corpus = len(meshes)
    meshes += gen_meshes(ctx)
    tasks = []
    for mi, c in corpus_calls:
        tasks.append({'id': len(tasks), 'kind': 'entry', 'entry': c['entry'], 'mode': c['mode'],
                      'raise': c['raise'], 'abs': c['abs'],
                      'mesh': {k: meshes[mi][k] for k in ('node_ids', 'coords', 'blocks')}, 'mi': mi})
    tasks += entry_tasks(ctx, meshes, skip=n_corpus, first_id=len(tasks))
    res = run_impl(ctx, tasks, 'entries')
    for t in tasks:
        mesh = meshes[t['mi']]
        meta = mesh['meta']
        r = res[t['id']]
        ctx.count('entry:' + t['entry'])
        ctx.count('mode:' + str(t['mode']))
        ctx.count('kinds:' + '+'.join(meta['kinds']))
        ctx.count('matrix:' + meta['matrix'])
        ctx.count('node_ids:' + meta['node_ids'] + ('/shuffled' if meta['shuffle_nodes'] else ''))
        ctx.count('elem_ids:' + meta['elem_ids'] + ('/shuffled' if meta['shuffle_elems'] else ''))
        ctx.count('jitter' if meta['jitter'] else 'affine')
        ctx.count('coord_dtype:' + meta.get('coord_dtype', 'float64'))
        ctx.count('outcome:' + ('error:' + r['error'] if 'error' in r else
                                'crash' if 'crash' in r else 'values'))
        ctx.case([t['entry'], t['mode'], t['raise'], t['abs'], mesh['node_ids'], mesh['coords'],
                  mesh['blocks']],
                 sample={'entry': t['entry'], 'mode': t['mode'], 'n_nodes': len(mesh['node_ids']),
                         'blocks': [[b[0], len(b[1])] for b in mesh['blocks']],
                         'labelling': describe(t, mesh)['labelling'],
                         'impl_first_values': (r.get('values') or [r.get('error')])[:2]})
    n_corr_bad = n_prop_bad = 0
    if model_ok:
        bad_corr, bad_prop = correspondence(ctx, meshes, tasks, res)
        n_corr_bad, n_prop_bad = len(bad_corr), len(bad_prop)
        ctx.corr = {'cases': len(tasks), 'disagreements': n_corr_bad,
                    'kernel_validation_cases': ctx.notes.get('translator_validation', {}).get('cases', 0)}
        byid = {t['id']: t for t in tasks}
        for i in bad_corr[:50]:
            t = byid[i]
            mesh = meshes[t['mi']]
            r = res[i]
            ctx.violation('correspondence', describe(t, mesh),
                          'entry point agrees with the model (translated kernels + lookup + assembly)',
                          {k: r.get(k) for k in ('ids', 'values', 'error', 'crash')},
                          f'correspondence C11 entry_{t["entry"]}', found_input=True,
                          signature={'kind': 'entry-correspondence', 'entry': t['entry'],
                                     'mode': t['mode'], 'kinds': '+'.join(mesh['meta']['kinds'])},
                          what='implementation and model disagree')
        for i in bad_prop:
            if i in bad_corr:
                continue
            t = byid[i]
            mesh = meshes[t['mi']]
            r = res[i]
            meta = mesh['meta']
            ctx.violation('impl-violation', describe(t, mesh),
                          'every element id is paired with the value computed from its own nodes '
                          '(independent of element storage order)',
                          {k: r.get(k) for k in ('ids', 'values', 'types')},
                          'C11_block_rows / assemble_spec (property oracle on the implementation)',
                          found_input=True,
                          signature={'kind': 'mixed-assembly', 'mixed': meta['mixed'],
                                     'block_ids_ascending_in_storage': not meta['unsorted_block']},
                          what=f'calculate_element_{t["entry"]}: values attached to the wrong element ids')
    # 5. oracles on the implementation
    ctx.log(f'entry-point correspondence: {len(tasks)} cases, {n_corr_bad} tie / {n_prop_bad} property disagreements')
    n_aff_bad = oracle_affine(ctx, meshes, tasks, res)
    n_brick, n_brick_bad = oracle_brick(ctx, model_ok, deep=brick_tie != 'translated')
    ctx.log(f'brick: {n_brick} cases, {n_brick_bad} failures')
    n_rand, n_rand_bad = oracle_random_mesh(ctx)
    ctx.log(f'random meshes: {n_rand} cases, {n_rand_bad} failures')
    n_motion, n_motion_bad = motion_stream(ctx, model_ok)
    ctx.log(f'same-object motion: {n_motion} cases, {n_motion_bad} failures')
    n_hist, n_hist_bad = history_stream(ctx, model_ok, deep)
    ctx.log(f'option histories: {n_hist} histories, {n_hist_bad} failures')
    n_graded, n_graded_bad = graded_stream(ctx, model_ok, deep)
    ctx.log(f'graded meshes: {n_graded} cases, {n_graded_bad} failures')
    centroid_f32 = model is None or any(
        k['py'].endswith('_centroid') and 'volumes' in k['py'] and any(F32_KERNELS_NOTE in x for x in k['notes'])
        for k in model['kernels'])
    ctx.notes['centroid_volume_kernels'] = (
        'origin-based fans with float32 accumulators: supported range assumed <= 1e3 cell sizes from the '
        'origin at 2e-3' if centroid_f32 else
        'local origin, float64: supported range assumed <= 1e7 cell sizes from the origin at 1e-7')
    n_far, n_far_bad = farfield_stream(ctx, model_ok, centroid_f32)
    ctx.log(f'far field: {n_far} cases, {n_far_bad} failures')
    ctx.notes['search_evaluations'] = len(tasks) + n_brick + n_motion
    ctx.notes['impl_property_failures'] = {'assembly': n_prop_bad, 'closed_form': n_aff_bad,
                                           'brick': n_brick_bad, 'same_object_motion': n_motion_bad,
                                           'option_history': n_hist_bad, 'farfield': n_far_bad,
                                           'graded': n_graded_bad, 'random_mesh': n_rand_bad}
    # 6. broken tie / proof without a failing input
    found_any = len(ctx.violations) > n_viol_before or ctx.known
    if not tie_ok and not found_any:
        ctx.violation('tie-broken', {'translator_error': ctx.notes.get('translator_error')},
                      'translator accepts the kernels and dispatchers of geometry_processor.py',
                      'fail-closed', 'translator c11_kernels', found_input=False,
                      signature={'kind': 'tie-broken'})
    if tie_ok and not proof_ok:
        bad = [o['name'] for o in ctx.obligations if not o['discharged']]
        ctx.violation('proof-broken', {'theorems': bad, 'log': ctx.notes.get('build_log_tail', '')[-600:]},
                      'all C11 theorems check against the regenerated kernels', 'do not check',
                      ', '.join(bad)[:300],
                      found_input=len(ctx.violations) > n_viol_before,
                      signature={'kind': 'proof-broken'})
    if glue_proof_ok is False:
        names = lib.theorem_names(lib.COQ / 'C11' / 'PropsGlue.v')
        bad = [o['name'] for o in ctx.obligations if not o['discharged'] and o['name'] in names]
        ctx.violation('proof-broken', {'theorems': bad, 'glue_translated': glue_translated,
                                       'log': ctx.notes.get('glue_build_log_tail', '')[-600:]},
                      'the theorems of C11/PropsGlue.v check against the regenerated gen/Glue.v '
                      '(_validate_metric elementwise and idempotent; stored results option-history independent)',
                      'do not check', ', '.join(bad)[:300],
                      found_input=len(ctx.violations) > n_viol_before,
                      signature={'kind': 'proof-broken', 'file': 'PropsGlue'})
    if motion_proof_ok is False:
        names = lib.theorem_names(lib.COQ / 'C11' / 'PropsMotion.v')
        bad = [o['name'] for o in ctx.obligations if not o['discharged'] and o['name'] in names]
        ctx.violation('proof-broken', {'theorems': bad, 'motion_translated': motion_translated,
                                       'log': ctx.notes.get('motion_build_log_tail', '')[-600:]},
                      'the theorems of C11/PropsMotion.v check against the regenerated gen/Motion.v '
                      '(rotation() is a rotation, translation() a translation; areas / volumes invariant, '
                      'normals follow)', 'do not check', ', '.join(bad)[:300],
                      found_input=len(ctx.violations) > n_viol_before,
                      signature={'kind': 'proof-broken', 'file': 'PropsMotion'})
    if ctx.tier == 'thorough' and proof_ok and motion_proof_ok:
        if not ctx.coqchk('C11/PropsMotion.v'):
            ctx.violation('proof-broken', {'coqchk': ctx.notes.get('coqchk')},
                          'coqchk accepts C11/PropsMotion.vo and its dependencies', 'rejected',
                          'coqchk FV.C11.PropsMotion', found_input=False, signature={'kind': 'coqchk-motion'})
    if ctx.tier == 'thorough' and proof_ok and glue_proof_ok:
        if not ctx.coqchk('C11/PropsGlue.v'):
            ctx.violation('proof-broken', {'coqchk': ctx.notes.get('coqchk')},
                          'coqchk accepts C11/PropsGlue.vo and its dependencies', 'rejected',
                          'coqchk FV.C11.PropsGlue', found_input=False, signature={'kind': 'coqchk-glue'})
    if ctx.tier == 'thorough' and proof_ok:
        if not ctx.coqchk('C11/Props.v'):
            ctx.violation('proof-broken', {'coqchk': ctx.notes.get('coqchk')},
                          'coqchk accepts C11/Props.vo and its dependencies', 'rejected',
                          'coqchk FV.C11.Props', found_input=False, signature={'kind': 'coqchk'})
    ctx.exhaustive = False
    return ctx.finish()


def replay(path):
    rp = json.loads(Path(path).read_text())
    c = rp['case']
    ctx = lib.Ctx(PID, 'quick')
    if 'mesh' in c:
        t = {'id': 0, 'kind': 'entry', 'entry': c['entry'], 'mode': c['mode'],
             'raise': c['raise_negative'], 'abs': c['return_abs'], 'mesh': c['mesh'], 'mi': 0}
        r = run_impl(ctx, [t], 'replay')[0]
        print('implementation:', json.dumps({k: r.get(k) for k in ('ids', 'types', 'values', 'error', 'crash')}))
        mesh = dict(c['mesh'])
        mesh['meta'] = {'kinds': [b[0] for b in mesh['blocks']], 'dim': 3 if c['entry'] == 'volumes' else 2}
        if 'values' in r:
            r['values'] = r['values']
        bad_corr, bad_prop = correspondence(ctx, [mesh], [t], {0: r})
        print('model (faithful assembly) agrees:', 0 not in bad_corr)
        print('specification (each id with its own value) agrees:', 0 not in bad_prop)
        bad = 0 in bad_prop or 0 in bad_corr
        print('property', 'VIOLATED' if bad else 'holds', 'on this input')
        return 1 if bad else 0
    if 'kernel' in c and 'points' in c:
        print('kernel case; re-run ./check C11 (translator validation) — input:', json.dumps(c))
        return 1
    if 'type' in c and 'nx' in c:
        t = dict(c, id=0, kind='brick')
        r = run_impl(ctx, [t], 'replay')[0]
        print('implementation:', json.dumps({k: r.get(k) for k in ('eids', 'metrics', 'error', 'crash')}))
        return 1
    print('nothing to replay on the implementation:', json.dumps(rp, indent=1)[:2000])
    return 1


if __name__ == '__main__':
    if len(sys.argv) > 2 and sys.argv[1] == 'replay':
        sys.exit(replay(sys.argv[2]))
    tier = sys.argv[1] if len(sys.argv) > 1 else 'quick'
    sys.exit(main(lib.Ctx(PID, tier)))
