"""Child process: runs femio (PYTHONPATH = tree under test) on the meshes of a
spec file and writes canonical results to a JSON file.

usage: c10_impl.py <spec.json>     spec = {out, work, cases:[{id, nodes, blocks, want:[...]}]}
"""
import io
import json
import os
import sys
import contextlib
import traceback


def frac(x):
    a, b = float(x).as_integer_ratio()
    return [int(a), int(b)]


def build(case):
    import numpy as np
    from femio import FEMData, FEMAttribute, FEMElementalAttribute
    ids = np.array([n[0] for n in case['nodes']], dtype=np.int64)
    xyz = np.array([n[1] for n in case['nodes']], dtype=float)
    blocks = {}
    for typ, es in case['blocks'].items():
        blocks[typ] = FEMAttribute(typ, np.array([e[0] for e in es], dtype=np.int64),
                                   np.array([e[1] for e in es], dtype=np.int64))
    return FEMData(nodes=FEMAttribute('NODE', ids, xyz),
                   elements=FEMElementalAttribute('ELEMENT', blocks))


def canon_surface(s):
    import numpy as np
    if isinstance(s, dict):
        return {k: np.asarray(v).astype(np.int64).tolist() for k, v in s.items()}
    a = np.asarray(s)
    k = {3: 'tri', 4: 'quad'}.get(a.shape[-1], 'n%d' % a.shape[-1])
    return {k: a.astype(np.int64).tolist()}


def run_case(case, work):
    import numpy as np
    res = {'id': case['id']}
    want = case.get('want', ['surface', 'to_surface', 'fistr', 'volumes', 'obj'])

    def guard(name, fn):
        try:
            res[name] = fn()
        except Exception as e:          # noqa
            res[name] = {'error': type(e).__name__, 'msg': str(e)[:300],
                         'tb': traceback.format_exc()[-600:]}

    if 'surface' in want:
        def f():
            fd = build(case)
            ind, pos = fd.extract_surface()
            return canon_surface(ind)
        guard('surface', f)
    if 'to_surface' in want:
        def f():
            fd = build(case)
            s = fd.to_surface()
            return {'nodes': s.nodes.ids.astype(np.int64).tolist(),
                    'node_xyz': [[frac(c) for c in row] for row in s.nodes.data.tolist()],
                    'elements': {k: {'ids': v.ids.astype(np.int64).tolist(),
                                     'data': np.asarray(v.data).astype(np.int64).tolist()}
                                 for k, v in s.elements.items()}}
        guard('to_surface', f)
    if 'fistr' in want:
        def f():
            fd = build(case)
            return np.asarray(fd.extract_surface_fistr()).astype(np.int64).tolist()
        guard('fistr', f)
    if 'volumes' in want:
        def f():
            fd = build(case)
            out = {}
            for typ, blk in fd.elements.items():
                v = fd.calculate_element_volumes(elements=blk, element_type=typ, update=False)
                out[typ] = [frac(x) for x in np.ravel(v)]
            fd2 = build(case)
            tot = fd2.calculate_element_volumes()
            out['_total_ids'] = fd2.elements.ids.astype(np.int64).tolist()
            out['_total'] = [frac(x) for x in np.ravel(tot)]
            return out
        guard('volumes', f)
    if 'obj' in want:
        def f():
            fd = build(case)
            path = os.path.join(work, 'c%d.obj' % case['id'])
            if os.path.exists(path):
                os.remove(path)
            fd.write('obj', path)
            text = open(path).read()
            lines = []
            for ln in text.split('\n'):
                tok = ln.split()
                if not tok:
                    continue
                if tok[0] == 'v':
                    lines.append(['v'] + [frac(float(t)) for t in tok[1:]])
                elif tok[0] == 'f':
                    lines.append(['f'] + [int(t) for t in tok[1:]])
                else:
                    lines.append(['?', ln[:80]])
            from femio import FEMData
            rd = FEMData.read_files('obj', [path])
            back = {'nodes': rd.nodes.ids.astype(np.int64).tolist(),
                    'node_xyz': [[frac(c) for c in row] for row in rd.nodes.data.tolist()],
                    'elements': {k: {'ids': v.ids.astype(np.int64).tolist(),
                                     'data': [[int(x) for x in row] for row in v.data]}
                                 for k, v in rd.elements.items()}}
            os.remove(path)
            return {'lines': lines, 'read': back}
        guard('obj', f)
    if 'incidence' in want:
        def f():
            fd = build(case)
            facet, inc, normals = fd.calculate_normal_incidence_matrix()
            coo = inc.tocoo()
            trip = sorted((int(r), int(c), int(v)) for r, c, v in zip(coo.row, coo.col, coo.data))
            return {'cell_ids': fd.elements.ids.astype(np.int64).tolist(),
                    'cell_types': [str(t) for t in fd.elements.types],
                    'shape': [int(inc.shape[0]), int(inc.shape[1])],
                    'facet_nodes': facet.nodes.ids.astype(np.int64).tolist(),
                    'facets': {k: {'ids': v.ids.astype(np.int64).tolist(),
                                   'data': np.asarray(v.data).astype(np.int64).tolist()}
                               for k, v in facet.elements.items()},
                    'facet_ids': facet.elements.ids.astype(np.int64).tolist(),
                    'triples': trip,
                    'normals': [[frac(c) for c in row] for row in np.asarray(normals).tolist()]}
        guard('incidence', f)
    return res


def main():
    spec = json.loads(open(sys.argv[1]).read())
    os.makedirs(spec['work'], exist_ok=True)
    out = []
    sink = io.StringIO()
    with contextlib.redirect_stdout(sink):
        for case in spec['cases']:
            out.append(run_case(case, spec['work']))
    with open(spec['out'], 'w') as f:
        json.dump(out, f)


if __name__ == '__main__':
    main()
