"""Child process: runs femio (PYTHONPATH = tree under test) on the meshes of a
spec file and writes canonical results to a JSON file.

usage: c10_impl.py <spec.json>     spec = {out, work, cases:[{id, nodes, blocks, want:[...]}]}
"""
import io
import json
import os
import sys
import contextlib
import traceback


def frac(x):
    a, b = float(x).as_integer_ratio()
    return [int(a), int(b)]


def build(case):
    import numpy as np
    from femio import FEMData, FEMAttribute, FEMElementalAttribute
    ids = np.array([n[0] for n in case['nodes']], dtype=np.int64)
    xyz = np.array([n[1] for n in case['nodes']], dtype=float)
    off = case.get('offset')
    if off:
        # exact: integers far below 2^53
        xyz = xyz + np.array(off, dtype=float)
    sc = case.get('scale')
    if sc:
        # exact for powers of two; for powers of ten each coordinate is rounded once
        xyz = xyz * (float(sc[0]) / float(sc[1]))
    dt = case.get('dtype')
    if dt:
        xyz = xyz.astype(dt)
    blocks = {}
    for typ, es in case['blocks'].items():
        blocks[typ] = FEMAttribute(typ, np.array([e[0] for e in es], dtype=np.int64),
                                   np.array([e[1] for e in es], dtype=np.int64))
    return FEMData(nodes=FEMAttribute('NODE', ids, xyz),
                   elements=FEMElementalAttribute('ELEMENT', blocks))


def canon_surface(s):
    import numpy as np
    if isinstance(s, dict):
        return {k: np.asarray(v).astype(np.int64).tolist() for k, v in s.items()}
    a = np.asarray(s)
    k = {3: 'tri', 4: 'quad'}.get(a.shape[-1], 'n%d' % a.shape[-1])
    return {k: a.astype(np.int64).tolist()}


def run_case(case, work):
    import numpy as np
    res = {'id': case['id']}
    want = case.get('want', ['surface', 'to_surface', 'fistr', 'volumes', 'obj'])

    def guard(name, fn):
        try:
            res[name] = fn()
        except Exception as e:          # noqa
            res[name] = {'error': type(e).__name__, 'msg': str(e)[:300],
                         'tb': traceback.format_exc()[-600:]}

    # ---- the views, each on a given object -------------------------------
    def v_surface(fd):
        ind, pos = fd.extract_surface()
        return canon_surface(ind)

    def v_to_surface(fd):
        s = fd.to_surface()
        return {'nodes': s.nodes.ids.astype(np.int64).tolist(),
                'node_xyz': [[frac(c) for c in row] for row in s.nodes.data.tolist()],
                'elements': {k: {'ids': v.ids.astype(np.int64).tolist(),
                                 'data': np.asarray(v.data).astype(np.int64).tolist()}
                             for k, v in s.elements.items()}}

    def v_fistr(fd):
        return np.asarray(fd.extract_surface_fistr()).astype(np.int64).tolist()

    counter = [0]

    def v_obj(fd):
        counter[0] += 1
        path = os.path.join(work, 'c%d_%d.obj' % (case['id'], counter[0]))
        if os.path.exists(path):
            os.remove(path)
        fd.write('obj', path)
        text = open(path).read()
        lines = []
        for ln in text.split('\n'):
            tok = ln.split()
            if not tok:
                continue
            if tok[0] == 'v':
                lines.append(['v'] + [frac(float(t)) for t in tok[1:]])
            elif tok[0] == 'f':
                lines.append(['f'] + [int(t) for t in tok[1:]])
            else:
                lines.append(['?', ln[:80]])
        from femio import FEMData
        rd = FEMData.read_files('obj', [path])
        back = {'nodes': rd.nodes.ids.astype(np.int64).tolist(),
                'node_xyz': [[frac(c) for c in row] for row in rd.nodes.data.tolist()],
                'elements': {k: {'ids': v.ids.astype(np.int64).tolist(),
                                 'data': [[int(x) for x in row] for row in v.data]}
                             for k, v in rd.elements.items()}}
        os.remove(path)
        # the raw `f` lines (characters, for the text-level model ObjText.face_line); capped: the
        # oracle-only plates are judged on the tokens
        fraw = [ln for ln in text.split('\n') if ln[:1] == 'f']
        vraw = [ln for ln in text.split('\n') if ln[:1] == 'v']
        return {'lines': lines, 'read': back, 'fraw': fraw if len(fraw) <= 4000 else None,
                'vraw': vraw if len(vraw) <= 4000 else None}

    def v_to_surface_all(fd):
        s = fd.to_surface(remove_unnecessary_nodes=False)
        return {'nodes': s.nodes.ids.astype(np.int64).tolist(),
                'node_xyz': [[frac(c) for c in row] for row in np.asarray(s.nodes.data).tolist()],
                'elements': {k: {'ids': v.ids.astype(np.int64).tolist(),
                                 'data': np.asarray(v.data).astype(np.int64).tolist()}
                             for k, v in s.elements.items()}}

    VIEWS = {'surface': v_surface, 'to_surface': v_to_surface, 'fistr': v_fistr, 'obj': v_obj,
             'to_surface_all': v_to_surface_all}
    for name in ('surface', 'to_surface', 'fistr', 'obj', 'to_surface_all'):
        if name in want:
            guard(name, lambda name=name: VIEWS[name](build(case)))
    def state_of(fd):
        return {'nodes': fd.nodes.ids.astype(np.int64).tolist(),
                'xyz': [[frac(c) for c in row] for row in np.asarray(fd.nodes.data).tolist()],
                'blocks': {k: {'ids': v.ids.astype(np.int64).tolist(),
                               'data': np.asarray(v.data).astype(np.int64).tolist()}
                           for k, v in fd.elements.items()}}

    def modify(fd, op):
        args = case.get('mod_args', {})
        if op == 'M:remove_useless_nodes':
            fd.remove_useless_nodes()
        elif op == 'M:assign_new':
            fd.elements.data = fd.elements.data[np.array(args['perm'])].copy()
        elif op == 'M:assign_same':
            conn = fd.elements.data
            a, b = args['swap']
            row = conn[a].copy()
            conn[a] = conn[b]
            conn[b] = row
            fd.elements.data = conn
        elif op == 'M:positive':
            fd.make_elements_positive()
        elif op == 'M:positive2':
            fd.make_elements_positive()
            fd.make_elements_positive()
        elif op == 'M:move_nodes':
            # through the setter (an in-place nodes.data[...] = leaves FEMAttribute's data frame, which
            # to_surface reads through .iloc, behind: C08's subject)
            fd.nodes.data = np.array(args['coords'], dtype=float)
        elif op == 'X:other':
            # another live object queried in between (class-level caches)
            other = build({'nodes': [[1, [0, 0, 0]], [2, [1, 0, 0]], [3, [0, 1, 0]], [4, [0, 0, 1]], [5, [1, 1, 1]]],
                           'blocks': {'tet': [[1, [1, 2, 3, 4]], [2, [2, 3, 4, 5]]]}})
            other.extract_surface()
            other.to_surface()
            other.calculate_incidence_matrix()
        else:
            raise ValueError(op)

    if 'history' in want:
        # ONE object, several rounds: modifiers (M:...) / other-object queries (X:...) first, then views
        fd = build(case)
        rounds = []
        for ops in case['history']:
            rr = {}
            for op in ops:
                try:
                    if op[:2] in ('M:', 'X:'):
                        modify(fd, op)
                        if op[:2] == 'M:':
                            rr['state'] = state_of(fd)
                    else:
                        rr[op] = VIEWS[op](fd)
                except Exception as e:          # noqa
                    rr[op] = {'error': type(e).__name__, 'msg': str(e)[:300],
                              'tb': traceback.format_exc()[-600:]}
            rounds.append(rr)
        res['history'] = rounds
    if 'volumes' in want:
        def f():
            fd = build(case)
            out = {}
            for typ, blk in fd.elements.items():
                v = fd.calculate_element_volumes(elements=blk, element_type=typ, update=False)
                out[typ] = [frac(x) for x in np.ravel(v)]
            fd2 = build(case)
            tot = fd2.calculate_element_volumes()
            out['_total_ids'] = fd2.elements.ids.astype(np.int64).tolist()
            out['_total'] = [frac(x) for x in np.ravel(tot)]
            return out
        guard('volumes', f)
    def incidence_of(fd):
        facet, inc, normals = fd.calculate_normal_incidence_matrix()
        coo = inc.tocoo()
        trip = sorted((int(r), int(c), int(v)) for r, c, v in zip(coo.row, coo.col, coo.data))
        areas = facet.calculate_element_areas()
        try:
            vols = [frac(x) for x in np.ravel(fd.calculate_element_volumes(
                raise_negative_volume=False, update=False))]
        except Exception as e:          # noqa
            vols = {'error': type(e).__name__, 'msg': str(e)[:200]}
        return {'areas': [frac(x) for x in np.ravel(areas)], 'volumes': vols,
                'state': state_of(fd),
                'cell_ids': fd.elements.ids.astype(np.int64).tolist(),
                'cell_types': [str(t) for t in fd.elements.types],
                'shape': [int(inc.shape[0]), int(inc.shape[1])],
                'facet_nodes': facet.nodes.ids.astype(np.int64).tolist(),
                'facets': {k: {'ids': v.ids.astype(np.int64).tolist(),
                               'data': np.asarray(v.data).astype(np.int64).tolist()}
                           for k, v in facet.elements.items()},
                'facet_ids': facet.elements.ids.astype(np.int64).tolist(),
                'triples': trip,
                'normals': [[frac(c) for c in row] for row in np.asarray(normals).tolist()]}

    if 'incidence' in want:
        guard('incidence', lambda: incidence_of(build(case)))
    if 'incidence_moved' in want:
        # ONE object: compute, move the mesh in place, compute again; plus a fresh
        # object built on the moved coordinates
        def f():
            mv = case['move']
            fd = build(case)
            first = incidence_of(fd)
            if mv['kind'] == 'repeat':
                pass
            elif mv['kind'] == 'useless':
                fd.remove_useless_nodes()
            elif mv['kind'] == 'permute':
                # query the plain node-cell incidence / adjacency first (memoised per object), then
                # re-order the connectivity rows in place
                # (the adjacency query first: it asks for the incidence with another spelling of the
                # arguments and would evict the entry of the plain call from a maxsize=1 cache)
                if mv.get('adjacency'):
                    fd.calculate_adjacency_matrix_element()
                fd.calculate_incidence_matrix()
                fd.elements.data = fd.elements.data[np.array(mv['perm'])].copy()
            elif mv['kind'] == 'api':
                fd.nodal_data.reset()
                ax = mv['axis']
                fd.rotation(float(ax[0]), float(ax[1]), float(ax[2]),
                            2 * np.pi * mv['turn'][0] / mv['turn'][1])
                t = mv['translate']
                fd.translation(float(t[0]), float(t[1]), float(t[2]))
            else:
                fd.nodes.data[:, :] = np.array(mv['coords'], dtype=float)
            second = incidence_of(fd)
            moved_xyz = [[frac(c) for c in row] for row in fd.nodes.data.tolist()]
            fresh_case = dict(case, nodes=[[int(i), c] for i, c in zip(fd.nodes.ids.tolist(), fd.nodes.data.tolist())],
                              scale=None, offset=None)
            if mv['kind'] == 'repeat':
                pass
            elif mv['kind'] == 'useless':
                fd.remove_useless_nodes()
            elif mv['kind'] == 'permute':
                fresh_case['blocks'] = case['moved_blocks']
            fresh = incidence_of(build(fresh_case))
            return {'first': first, 'second': second, 'fresh': fresh, 'moved_xyz': moved_xyz}
        guard('incidence_moved', f)
    return res


def run_probe(p):
    """_generate_all_faces called directly on a few connectivity rows of one type (all six
    solid types, also those no mesh generator produces): the groups of face rows it returns"""
    import numpy as np
    try:
        fd = build({'nodes': [[1, [0, 0, 0]], [2, [1, 0, 0]], [3, [0, 1, 0]], [4, [0, 0, 1]]],
                    'blocks': {'tet': [[1, [1, 2, 3, 4]]]}})
        r = fd._generate_all_faces(np.array(p['rows'], dtype=np.int64), p['type'])
        if not isinstance(r, tuple):
            return {'error': 'not_a_tuple', 'msg': type(r).__name__}
        return {'groups': [np.asarray(g).astype(np.int64).tolist() for g in r]}
    except Exception as e:          # noqa
        return {'error': type(e).__name__, 'msg': str(e)[:300]}


def main():
    spec = json.loads(open(sys.argv[1]).read())
    os.makedirs(spec['work'], exist_ok=True)
    out = []
    sink = io.StringIO()
    with contextlib.redirect_stdout(sink):
        for case in spec['cases']:
            out.append(run_case(case, spec['work']))
        if spec.get('probes'):
            out.append({'id': 'probes', 'rows': [run_probe(p) for p in spec['probes']]})
    with open(spec['out'], 'w') as f:
        json.dump(out, f)


if __name__ == '__main__':
    main()
