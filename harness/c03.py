"""C03 — FrontISTR control (.cnt) write -> read keeps the analysis conditions;
a condition on a node-group name = the same condition on every member."""
import json
import math
import re
import sys
import time
from collections import Counter
from pathlib import Path

sys.path.insert(0, str(Path(__file__).resolve().parent))
sys.path.insert(0, str(Path(__file__).resolve().parent.parent / 'translate'))
import lib  # noqa
import c01_tables  # noqa
import c03_cnt  # noqa
import c01_common as cm  # noqa

PID = 'C03'
FRAC = {'boundary': 5, 'spring': 6, 'cload': 6, 'fixtemp': 12, 'cflux': 12}
TABLE_KINDS = ['boundary', 'spring', 'cload']
VALUE_KINDS = ['fixtemp', 'cflux']
COQ_HEAD = '\n'.join([
    'From Coq Require Import String List ZArith.', 'Import ListNotations.',
    'From FV.C01 Require Import Str Dec.', 'From FV.C01 Require Model.',
    'From FV.C03 Require Import Model Floats.', 'From FV.C03 Require Fmt.',
    'Open Scope string_scope.', 'Set Printing Width 100000.', 'Set Printing Depth 100000.',
    'Definition dq s := match parse_dec_free s with Some d => d | None => dec_zero end.',
    '(* node groups come from the C01 model of the .msh reader *)',
    'Definition read_both (msh cnt : list string) : list string :=',
    '  match FV.C01.Model.read_ngroups msh with',
    '  | Ok ngs => show_rcnt (read_cnt ngs cnt) | Err _ => ["ERROR"] end.',
    'Definition show_ng (msh : list string) : list string :=',
    '  FV.C01.Model.show_groups (FV.C01.Model.read_ngroups msh).', ''])
NAN = float('nan')


def fx(h):
    return float.fromhex(h)


# ------------------------------------------------------------------ generators
def rand_value(rng):
    k = rng.random()
    if k < 0.3:
        return float(rng.randint(-50, 50))
    if k < 0.6:
        return rng.uniform(-1, 1) * 10.0 ** rng.randint(-8, 8)
    if k < 0.8:
        return rng.randint(-100000, 100000) / 128.0
    return rng.choice([0.0, -0.0, 1 / 3, 1e-7, 123456.5, 1234565.0, 9.999995, 0.9999995,
                       99999.95, 2.5, 1e30, -9.87654321e5, 1.0000005, 1.5e-300])


def gen_table(rng, node_ids, pattern=None):
    n = rng.randint(1, min(len(node_ids), 6))
    ids = rng.sample(node_ids, n)
    pattern = pattern or rng.choice(['dense', 'sparse', 'mixed', 'mixed', 'nan_row', 'nan_col',
                                     'single', 'all_nan'])
    rows = []
    for r in range(n):
        p = {'dense': 0.0, 'sparse': 0.75, 'mixed': 0.45, 'nan_row': 0.3, 'nan_col': 0.3,
             'single': 1.0, 'all_nan': 1.0}[pattern]
        rows.append([NAN if rng.random() < p else rand_value(rng) for _ in range(3)])
    if pattern == 'nan_row':
        rows[rng.randrange(n)] = [NAN] * 3
    if pattern == 'nan_col':
        c = rng.randrange(3)
        for r in rows:
            r[c] = NAN
    if pattern == 'single':
        rows[rng.randrange(n)][rng.randrange(3)] = rand_value(rng)
    return ids, rows, pattern


def gen_case(rng):
    types = rng.choice([['tet'], ['tet'], ['hex'], ['tri'], ['tet', 'prism'], ['quad', 'tet']])
    mesh = cm.gen_mesh(rng, types=types, features={'groups': 'none', 'sections': 'none',
                                                   'temp': 'none', 'materials': 'none'})
    sol = rng.choice(['STATIC', 'STATIC', 'HEAT', None])
    cons = {}
    pats = {}
    kinds = []
    if sol == 'HEAT':
        kinds = [k for k in VALUE_KINDS if rng.random() < 0.8] + \
                [k for k in TABLE_KINDS if rng.random() < 0.15]
    else:
        kinds = [k for k in TABLE_KINDS if rng.random() < 0.7] + \
                [k for k in VALUE_KINDS if rng.random() < 0.15]
    for k in kinds:
        if k in TABLE_KINDS:
            ids, rows, pat = gen_table(rng, mesh['node_ids'])
            cons[k] = [ids, [[float(v).hex() for v in r] for r in rows]]
            pats[k] = pat
        else:
            n = rng.randint(1, min(len(mesh['node_ids']), 6))
            ids = rng.sample(mesh['node_ids'], n)
            cons[k] = [ids, [[float(rand_value(rng)).hex()] for _ in ids]]
            pats[k] = 'values'
    mesh['constraints'] = cons
    # in-place edits of the live constraint arrays after construction (attr.data[i, j] = v):
    # the model sees the edited table
    if cons and rng.random() < 0.6:
        eff = {k: [list(v[0]), [list(r) for r in v[1]]] for k, v in cons.items()}
        edits = []
        for k in cons:
            for _ in range(rng.choice([0, 1, 1, 2])):
                r = rng.randrange(len(cons[k][0]))
                c = rng.randrange(len(cons[k][1][r]))
                if k in TABLE_KINDS and rng.random() < 0.4:
                    v = NAN
                else:
                    v = rand_value(rng)
                edits.append(['constraint', r, c, float(v).hex(), k])
                eff[k][1][r][c] = float(v).hex()
        if edits:
            mesh['inplace'] = edits
            mesh['constraints_eff'] = eff
    if sol:
        mesh['solution_type'] = sol
    mesh['meta'].update({'solution': sol or 'default', 'kinds': sorted(cons), 'patterns': pats,
                         'inplace_edits': len(mesh.get('inplace') or []),
                         'only_solid': all(t in ('tet', 'tet2', 'hex', 'hex2', 'prism') for t in types)})
    return mesh


# ------------------------------------------------------------------ Coq literals
def dec_or_none(h, frac):
    v = fx(h) if isinstance(h, str) else h
    return None if math.isnan(v) else cm.f2dec(v, frac)


def float_parts(v):
    """finite binary64 -> (neg, m, e) with |v| = m * 2^e exactly (m = 0 for +-0.0)"""
    neg = math.copysign(1.0, v) < 0
    if v == 0:
        return neg, 0, 0
    mant, exp = math.frexp(abs(v))
    m = int(mant * 2 ** 53)
    assert float(m) * 2.0 ** (exp - 53) == abs(v) if exp - 53 > -1074 else True
    return neg, m, exp - 53


def coq_b64(v):
    """the exact binary64 as Floats.b64; the model (Floats.cnt_of / Fmt.fmt_dec) computes the
    decimal the writer prints for it"""
    neg, m, e = float_parts(v)
    return f'(mkb64 {"true" if neg else "false"} {lib.coq_Z(m)} {lib.coq_Z(e)})'


def coq_table(ids, rows, frac):
    items = []
    for i, r in zip(ids, rows):
        cells = []
        for h in r:
            v = fx(h) if isinstance(h, str) else h
            cells.append('None' if math.isnan(v) else f'Some {coq_b64(v)}')
        items.append(f'({lib.coq_Z(i)}, {lib.coq_list(cells)})')
    return lib.coq_list(items)


def coq_values(ids, rows, frac):
    return lib.coq_list([f'({lib.coq_Z(i)}, {coq_b64(fx(r[0]))})' for i, r in zip(ids, rows)])


def coq_cnt(mesh):
    c = mesh.get('constraints_eff') or mesh['constraints']

    def opt(k, f):
        return f'(Some {f(c[k][0], c[k][1], FRAC[k])})' if k in c else 'None'
    sol = mesh.get('solution_type') or 'STATIC'
    return (f'(cnt_of (mkfcnt {lib.coq_str(sol)} {"true" if mesh["meta"]["only_solid"] else "false"} '
            f'{opt("boundary", coq_table)} {opt("spring", coq_table)} {opt("cload", coq_table)} '
            f'{opt("fixtemp", coq_values)} {opt("cflux", coq_values)}))')


def coq_ngs(ngs):
    return lib.coq_list([f'({lib.coq_str(k)}, {lib.coq_list([lib.coq_Z(i) for i in v])})'
                         for k, v in ngs])


def show_impl(r):
    """femio's read result -> the lines of Model.show_rcnt"""
    if 'read' not in r:
        return ['ERROR']
    d = r['read']
    out = ['SOLUTION ' + d['solution_type']]
    for k in TABLE_KINDS:
        if k in d['constraints']:
            ids, rows = d['constraints'][k]
            out.append(k)
            for i, row in zip(ids, rows):
                out.append(','.join([str(i)] + [(dec_or_none(h, FRAC[k]) or 'nan') for h in row]))
    for k in VALUE_KINDS:
        if k in d['constraints']:
            ids, rows = d['constraints'][k]
            out.append(k)
            for i, row in zip(ids, rows):
                out.append(f'{i},{cm.f2dec(fx(row[0]), FRAC[k])}')
    return out


def presc_of_dump(d):
    """multiset of (kind, id, dof, decimal) of a read result"""
    c = Counter()
    for k, (ids, rows) in d['constraints'].items():
        if k not in FRAC:
            continue
        for i, row in zip(ids, rows):
            for j, h in enumerate(row):
                v = dec_or_none(h, FRAC[k])
                if v is not None:
                    c[(k, i, j + 1, v)] += 1
    return c


def presc_of_input(mesh):
    c = Counter()
    for k, (ids, rows) in (mesh.get('constraints_eff') or mesh['constraints']).items():
        for i, row in zip(ids, rows):
            for j, h in enumerate(row):
                v = dec_or_none(h, FRAC[k])
                if v is not None:
                    c[(k, i, j + 1, v)] += 1
    return c


# ------------------------------------------------------------------ group cases
def gen_group_case(rng, base_msh_lines, node_ids, cid):
    """hand-made msh (+ !NGROUP blocks) and cnt texts: the same conditions once
    through group names, once listed per member"""
    ngroups = []
    for j in range(rng.randint(1, 3)):
        name = rng.choice(['NG', 'fix_', 'Load', 'n', 'N', 'ng', 'NG1', 'A', 'AB', 'ab']) + str(j + 1)
        if ngroups and rng.random() < 0.4:
            # a name that extends / is extended by an earlier group's name (TOP / TOP_EDGE, FIX / FIX2,
            # XFIX / FIX): header patterns that are not anchored collect the other group's nodes
            other = rng.choice(ngroups)[0]
            name = rng.choice([other + rng.choice(['2', '0', '_A', 'x', '_EDGE']),
                               rng.choice(['X', 'a', 'N_']) + other,
                               other[:-1] if len(other) > 1 and other[:-1] not in ('ALL',) else other + '1'])
        if name in [g[0] for g in ngroups] or name == 'ALL':
            name += '_%d' % (j + 1)
        ngroups.append([name, rng.sample(node_ids, rng.randint(1, min(4, len(node_ids))))])
    # blocks: a group may be given in several blocks, adjacent or separated by blocks of other groups
    blocks = []
    for name, ids in ngroups:
        if len(ids) >= 2 and rng.random() < 0.45:
            cut = sorted(rng.sample(range(1, len(ids)), rng.randint(1, min(2, len(ids) - 1))))
            parts = [ids[a:b] for a, b in zip([0] + cut, cut + [len(ids)])]
        else:
            parts = [ids]
        blocks.append([[name, part] for part in parts])
    order = []
    if rng.random() < 0.5:
        # interleave, keeping the order of the blocks of one group (FIX / LOAD / FIX)
        pend = [list(b) for b in blocks]
        while any(pend):
            b = rng.choice([x for x in pend if x])
            order.append(b.pop(0))
    else:
        order = [x for b in blocks for x in b]
    # members in file order: the blocks of one name are concatenated in the order they appear
    first_seen = []
    for name, _ in order:
        if name not in first_seen:
            first_seen.append(name)
    ngroups = [[name, [i for n2, part in order if n2 == name for i in part]] for name in first_seen]
    msh = [l for l in base_msh_lines if l != '!END']
    for name, ids in order:
        msh.append(f'!NGROUP, NGRP={name}')
        if rng.random() < 0.3 and len(ids) % 2 == 0:
            msh += [f'{ids[k]},{ids[k + 1]}' for k in range(0, len(ids), 2)]
        else:
            msh += [str(i) for i in ids]
    msh.append('!END')
    ngs = [['ALL', list(node_ids)]] + ngroups
    members = dict((k, v) for k, v in ngs)
    sol = rng.choice(['STATIC', 'HEAT'])
    head = ['!VERSION', '5', f'!SOLUTION, TYPE={sol}']
    grp, exp = list(head), list(head)
    kinds = rng.sample(['boundary', 'spring', 'cload', 'fixtemp', 'cflux'], rng.randint(1, 3))
    for k in kinds:
        hdr = '!' + k.upper()
        grp.append(hdr)
        exp.append(hdr)
        nrows = rng.randint(1, 4)
        used_group = False
        for r in range(nrows):
            val = cm.f2dec(rand_value(rng), FRAC[k])
            dof = rng.randint(1, 3)
            if k == 'boundary':
                e = rng.randint(dof, 3)
                rest = f'{dof},{e},{val}'
            elif k in ('spring', 'cload'):
                rest = f'{dof},{val}'
            else:
                rest = val
            if rng.random() < 0.6 or (r == nrows - 1 and not used_group):
                g = rng.choice(list(members))
                used_group = True
                sp = rng.choice(['', ' ', '  '])
                grp.append(f'{sp}{g}{rng.choice(["", " "])},{sp}{rest}')
                exp += [f'{i},{sp}{rest}' for i in members[g]]
            else:
                i = rng.choice(node_ids)
                grp.append(f'{i},{rest}')
                exp.append(f'{i},{rest}')
    grp.append('!END')
    exp.append('!END')
    return {'id': cid, 'msh': msh, 'cnt_group': grp, 'cnt_expanded': exp, 'ngs': ngs,
            'kinds': kinds, 'solution': sol}


# ------------------------------------------------------------------ _generate_constraints, exhaustively
def gen_mask_tables():
    """every NaN mask of a 1 x 3, 2 x 3 and 3 x 3 table (8 + 64 + 512), ids unsorted, distinct values"""
    import itertools
    out = []
    for n in (1, 2, 3):
        ids = [7, 3, 11][:n]
        for bits in itertools.product((0, 1), repeat=3 * n):
            rows = [[(float(3 * r + c + 1).hex() if bits[3 * r + c] else None) for c in range(3)]
                    for r in range(n)]
            out.append({'id': len(out), 'ids': ids, 'rows': rows})
    return out


def run_gen_child(ctx, tables):
    import subprocess
    spec = {'out': str(ctx.scratch / 'impl_gen.json'), 'tables': tables}
    r = subprocess.run([lib.PY, str(lib.VERIF / 'harness' / 'c03_impl.py')], input=json.dumps(spec),
                       text=True, capture_output=True, env=lib.impl_env(), timeout=600)
    if r.returncode != 0:
        raise RuntimeError('c03_impl failed: ' + r.stderr[-2000:])
    return {x['id']: x for x in json.loads(Path(spec['out']).read_text())}


def gen_item(t, r):
    """Model.gen_constraints on the table = what _generate_constraints returned (ids, both dof
    columns, values, in order), as the !BOUNDARY rows"""
    rows = lib.coq_list([
        f'({lib.coq_Z(i)}, ' + lib.coq_list(['None' if h is None else f'Some {cm.coq_dec(cm.f2dec(fx(h), 5))}'
                                             for h in row]) + ')'
        for i, row in zip(t['ids'], t['rows'])])
    if 'error' in r:
        want = ['ERROR']
    elif not (len(r['ids']) == len(r['dof']) == len(r['values'])):
        want = ['LENGTHS DIFFER']
    else:
        want = [f'{i},{d[0]},{d[1] if len(d) > 1 else "?"},{cm.f2dec(fx(v), 5)}'
                for i, d, v in zip(r['ids'], r['dof'], r['values'])]
    return (f'lines_eqb (match gen_constraints {rows} with Ok l => map boundary_row l '
            f'| Err _ => ["ERROR"] end) {cm.coq_lines(want)}')


# ------------------------------------------------------------------ pure_cflux / label decision
COQ_HEAD_PURE = 'From FV.C03 Require Import Sections Pure.\nFrom FV.C03.gen Require Import CntSections.\n'


def gen_pure_cnt(rng, node_ids, cid):
    """hand-made .cnt with !CFLUX blocks with / without TYPE= (PURE, other, several blocks)"""
    lines = ['!VERSION', '5', '!SOLUTION, TYPE=HEAT']
    shape = rng.choice(['pure', 'pure', 'plain', 'plain+pure', 'pure+plain', 'pure+pure', 'other',
                        'pure+other', 'pure_empty', 'fixtemp+pure'])
    for part in shape.split('+'):
        if part == 'fixtemp':
            lines.append('!FIXTEMP')
        else:
            lines.append({'pure': '!CFLUX, TYPE=PURE', 'plain': '!CFLUX', 'other': '!CFLUX, TYPE=TOTAL',
                          'pure_empty': '!CFLUX, TYPE=PURE'}[part])
        if part != 'pure_empty':
            for _ in range(rng.randint(1, 3)):
                lines.append(f'{rng.choice(node_ids)},{cm.f2dec(rand_value(rng), 12)}')
    lines.append('!END')
    return {'id': cid, 'cnt': lines, 'shape': shape}


def show_impl_x(r):
    out = show_impl(r)
    if 'read' in r and 'pure_cflux' in r['read']['constraints']:
        ids, rows = r['read']['constraints']['pure_cflux']
        out.append('pure_cflux')
        out += [f'{i},{cm.f2dec(fx(row[0]), 12)}' for i, row in zip(ids, rows)]
    return out


def coq_values_dec(ids, rows):
    return lib.coq_list([f'({lib.coq_Z(i)}, {cm.coq_dec(cm.f2dec(fx(r[0]), 12))})' for i, r in zip(ids, rows)])


# ------------------------------------------------------------------ Coq evaluation
def coq_failing(ctx, name, items, timeout=900, chunk_bytes=60000, head_extra=''):
    from concurrent.futures import ThreadPoolExecutor
    files, cur, size = [], [], 0
    for it in items:
        cur.append(it)
        size += len(it[1])
        if size > chunk_bytes:
            files.append(cur)
            cur, size = [], 0
    if cur:
        files.append(cur)

    def one(k):
        txt = [COQ_HEAD + head_extra, 'Definition cases : list (Z * bool) := [']
        txt.append(';\n'.join(f'({i}%Z, {e})' for i, e in files[k]) + '].')
        txt.append('Goal True. idtac "@@ failing". Abort.')
        txt.append('Eval vm_compute in map fst (filter (fun c => negb (snd c)) cases).')
        return ctx.coq_eval(f'{name}_{k}', '\n'.join(txt) + '\n', timeout=timeout)

    with ThreadPoolExecutor(max_workers=12) as ex:
        results = list(ex.map(one, range(len(files))))
    bad = []
    for k, (rc, out, err) in enumerate(results):
        if rc != 0:
            ctx.log(f'{name}_{k}.v failed to compile:', err[-800:])
            return None
        t = lib.parse_marked(out).get('failing', '').split(':')[0]
        bad += [int(x) for x in re.findall(r'\d+', t)]
    return bad


def coq_show(ctx, name, expr):
    txt = [COQ_HEAD, 'Goal True. idtac "@@ value". Abort.', f'Eval vm_compute in ({expr}).']
    rc, out, err = ctx.coq_eval(name, '\n'.join(txt) + '\n')
    if rc != 0:
        return ['<coq error> ' + err[-300:]]
    t = lib.parse_marked(out).get('value', '')
    return re.findall(r'"((?:[^"]|"")*)"', t.split('\n     : ')[0])


def split_lines(text):
    lines = text.split('\n')
    return lines[:-1] if lines and lines[-1] == '' else lines


# ------------------------------------------------------------------ main
def main(ctx):
    tier = ctx.tier
    ctx.rule = ('random meshes x solution type {default, STATIC, HEAT} x any subset of the five '
                'constraint kinds with random node subsets, NaN masks (dense, sparse, all-NaN rows / '
                'columns / tables, single cell) and values; plus hand-made msh/cnt pairs in which '
                'conditions are given on node-group names (ALL and !NGROUP groups) mixed with '
                'explicit ids; non-trivial = at least one prescription; distinct = distinct '
                '(tables, solution type) or distinct texts')
    ctx.trusted += [
        'translators translate/c01_tables.py (ignore pattern, digits of the default formats, block merging, '
        'effect program) and translate/c03_cnt.py (_generate_constraints on meaning, section table of '
        'write_cnt); a region they cannot read is taken from translate/c03_baseline.json and the '
        'correspondence is widened (notes.tie)',
        'harness glue: file <-> lines, float -> k-digit decimal (Python decimal, exact), dump of '
        'constraints/settings/node groups read back; the node groups the .cnt model uses come from '
        'the C01 model of the .msh reader (Model.read_ngroups, compared with femio\'s node_groups)',
        'libc/NumPy printf/strtod',
    ]
    ctx.assumptions += [
        'constraint tables have 3 dof columns (the reader allocates 3); ids distinct per table',
        'values finite; the value compared is the decimal the writer prints (6 / 7 / 13 '
        'significant digits)',
    ]
    tie_ok = True
    degraded = {}
    tables = {}
    try:
        # regions the translator cannot read are taken from the committed baseline
        # (translate/c03_baseline.json) and listed in `degraded`: tie T -> H with a widened
        # correspondence below, never by itself a violation
        tables, consumed, degraded = c03_cnt.translate(str(lib.REPO))
        ctx.sources = {k: v for k, v in consumed.items()
                       if any(s in k for s in ('_read_files', '_read_str_data', 'write_data', 'read_array',
                                               '_generate_constraints', 'write_cnt', '_read_node_groups',
                                               '_merge_groups', '_read_cnt_cflux'))}
        lib.write_if_changed(lib.COQ / 'C01' / 'gen' / 'Tables.v', c03_cnt.emit_tables(tables))
        lib.write_if_changed(lib.COQ / 'C03' / 'gen' / 'CntSections.v', c03_cnt.emit_sections(tables))
    except (c01_tables.TranslateError, SyntaxError, OSError, KeyError, ValueError) as e:
        tie_ok = False
        ctx.notes['translator_error'] = f'{type(e).__name__}: {e}'
    relevant = {k: v for k, v in degraded.items() if k in c03_cnt.RELEVANT}
    widened = bool(relevant)
    if degraded:
        ctx.notes['translator_degraded'] = degraded
    elif tie_ok and str(lib.REPO) == '/repo':
        # the registered tree translates completely: the baseline must be what it translates to
        try:
            base = c03_cnt.load_baseline()['tables']
            stale = sorted(k for k in tables if json.loads(json.dumps(tables[k])) != base.get(k))
        except (OSError, ValueError, KeyError) as e:
            stale = [f'baseline unreadable: {e}']
        if stale:
            ctx.notes['baseline_stale'] = stale
            ctx.log('translate/c03_baseline.json differs from the translation of /repo in', stale,
                    '(refresh: python translate/c03_cnt.py --write-baseline /repo)')
    proof_ok = False
    props = lib.COQ / 'C03' / 'Props.v'
    if tie_ok and props.exists():
        proof_ok, log = ctx.build_props('C03/Props.v', scan_dirs=[lib.COQ / 'C03', lib.COQ / 'C01'])
        if not proof_ok:
            ctx.notes['build_log_tail'] = log[-2500:]
    cfg_ok = True
    if tie_ok and proof_ok and (lib.COQ / 'C03' / 'PropsCfg.v').exists():
        cfg_ok, log2 = ctx.build_props('C03/PropsCfg.v', scan_dirs=[lib.COQ / 'C03'])
    sec_ok = True
    if tie_ok and proof_ok and (lib.COQ / 'C03' / 'PropsSections.v').exists():
        sec_ok, log3 = ctx.build_props('C03/PropsSections.v', scan_dirs=[lib.COQ / 'C03'])
    pure_ok = True
    if tie_ok and proof_ok and sec_ok and (lib.COQ / 'C03' / 'PropsPure.v').exists():
        pure_ok, log4 = ctx.build_props('C03/PropsPure.v', scan_dirs=[lib.COQ / 'C03'])
    model_ok = tie_ok
    if tie_ok and not proof_ok:
        ok, log, _ = lib.coq_make(['C03/Floats.vo'])
        model_ok = ok

    # ------------------------------------------------------------ cases
    n_case = {'quick': 90, 'thorough': 900}.get(tier, 90)
    n_group = {'quick': 40, 'thorough': 400}.get(tier, 40)
    if widened and tier == 'quick':
        n_case, n_group = 300, 150
    cases = []
    corpus = sorted((lib.VERIF / 'corpus' / 'C03').glob('*.json')) \
        if (lib.VERIF / 'corpus' / 'C03').exists() else []
    for p in corpus:
        cases.append(json.loads(p.read_text()))
    while len(cases) < n_case + len(corpus):
        cases.append(gen_case(ctx.rng))
    work = ctx.scratch / 'work'
    jobs = [{'op': 'write_read', 'id': i, 'dir': str(work / f'c{i}'), 'mesh': m, 'read_cnt': True}
            for i, m in enumerate(cases)]
    # every second case is written with overwrite=True over an earlier export of other conditions
    for i, j in enumerate(jobs):
        if i % 3 == 0:
            j['via_directory'] = True      # FEMData.read_directory instead of read_files
        cases[i]['meta']['over_existing'] = i % 2 == 1
        if i % 2 == 1:
            j['pre_mesh'] = cases[i - 1]
    t0 = time.time()
    res1 = cm.run_child(ctx, jobs, 'phase1')
    ctx.log(f'phase 1 (write msh+cnt, read back) on {len(cases)} cases: {time.time() - t0:.1f}s')

    # group cases reuse the msh of the first cases that were written
    gcases = []
    for i, m in enumerate(cases):
        if len(gcases) >= n_group:
            break
        if 'msh' in res1[i]:
            gcases.append(gen_group_case(ctx.rng, split_lines(res1[i]['msh']), m['node_ids'], len(gcases)))
    gjobs = []
    for g in gcases:
        for tag in ('cnt_group', 'cnt_expanded'):
            gjobs.append({'op': 'read', 'id': f'{g["id"]}:{tag}', 'dir': str(work / f'g{g["id"]}_{tag}'),
                          'files': {'mesh.msh': '\n'.join(g['msh']) + '\n',
                                    'mesh.cnt': '\n'.join(g[tag]) + '\n'},
                          'read': ['mesh.msh', 'mesh.cnt']})
    t0 = time.time()
    res2 = cm.run_child(ctx, gjobs, 'phase2')
    ctx.log(f'phase 2 (read {len(gjobs)} hand-made group / expanded files): {time.time() - t0:.1f}s')

    # pure_cflux (additive stream, round 5 extension): hand-made files with !CFLUX blocks with /
    # without TYPE= read by femio = Pure.read_cntx_with; conditions with 'pure_cflux' alone written
    # and read back = Pure.write_cntx_of <translated table>; 'cflux' AND 'pure_cflux' = known finding
    n_pure = {'quick': 16}.get(tier, 80)
    base_msh = next((res1[i]['msh'] for i in range(len(cases)) if 'msh' in res1[i]), None)
    base_ids = next((cases[i]['node_ids'] for i in range(len(cases)) if 'msh' in res1[i]), None)
    pcases, pjobs, wjobs = [], [], []
    if base_msh is not None:
        for k in range(n_pure):
            pc = gen_pure_cnt(ctx.rng, base_ids, k)
            pcases.append(pc)
            pjobs.append({'op': 'read', 'id': f'p{k}', 'dir': str(work / f'p{k}'),
                          'files': {'mesh.msh': base_msh, 'mesh.cnt': '\n'.join(pc['cnt']) + '\n'},
                          'read': ['mesh.msh', 'mesh.cnt']})
        for k in range(max(4, n_pure // 4)):
            m = gen_case(ctx.rng)
            m.pop('inplace', None)
            m.pop('constraints_eff', None)
            ids = ctx.rng.sample(m['node_ids'], ctx.rng.randint(1, min(4, len(m['node_ids']))))
            m['solution_type'] = 'HEAT'
            m['constraints'] = {'pure_cflux': [ids, [[float(rand_value(ctx.rng)).hex()] for _ in ids]]}
            if k == 0:      # both kinds: the known finding
                ids2 = ctx.rng.sample(m['node_ids'], ctx.rng.randint(1, min(3, len(m['node_ids']))))
                m['constraints']['cflux'] = [ids2, [[float(rand_value(ctx.rng)).hex()] for _ in ids2]]
            m['meta'].update({'solution': 'HEAT', 'kinds': sorted(m['constraints'])})
            wjobs.append({'op': 'write_read', 'id': f'w{k}', 'dir': str(work / f'w{k}'), 'mesh': m,
                          'read_cnt': True})
    res3 = cm.run_child(ctx, pjobs + wjobs, 'phase3') if pjobs else {}
    pure_items = []
    for pc in pcases:
        pure_items.append((pc['id'], f'lines_eqb (show_rcntx (read_cntx_with cflux_per_block Tables.ignore_pats '
                                     f'[("ALL", {lib.coq_list([lib.coq_Z(i) for i in base_ids])})] '
                                     f'{cm.coq_lines(pc["cnt"])})) {cm.coq_lines(show_impl_x(res3["p%d" % pc["id"]]))}'))
        ctx.count('pure_shape:' + pc['shape'])
    for j in wjobs:
        r, m = res3[j['id']], j['mesh']
        c = m['constraints']
        cf = f'(Some {coq_values_dec(*c["cflux"])})' if 'cflux' in c else 'None'
        x = (f'(mkcntx (mkcnt "HEAT" {"true" if m["meta"]["only_solid"] else "false"} None None None None {cf}) '
             f'(Some {coq_values_dec(*c["pure_cflux"])}))')
        idx = 1000 + int(j['id'][1:])
        if 'cnt' in r:
            pure_items.append((idx, f'lines_eqb (show_lines (write_cntx_of cnt_sections {x})) '
                                    f'{cm.coq_lines(split_lines(r["cnt"]))}'))
            pure_items.append((idx + 500, f'lines_eqb (match write_cntx_of cnt_sections {x} with Ok ls => '
                                          f'show_rcntx (read_cntx_with cflux_per_block Tables.ignore_pats [] ls) | Err _ => ["ERROR"] end) '
                                          f'{cm.coq_lines(show_impl_x(r))}'))
        else:
            pure_items.append((idx, 'false'))

    # ------------------------------------------------------------ correspondence
    text_items, read_items = [], []
    for i, m in enumerate(cases):
        r = res1[i]
        all_ngs = [['ALL', m['node_ids']]]
        if 'cnt' in r:
            r['cnt_lines'] = split_lines(r['cnt'])
            text_items.append((i, f'lines_eqb (show_lines (write_cnt {coq_cnt(m)})) '
                                  f'{cm.coq_lines(r["cnt_lines"])}'))
            read_items.append((i, f'lines_eqb (read_both {cm.coq_lines(split_lines(r["msh"]))} '
                                  f'{cm.coq_lines(r["cnt_lines"])}) {cm.coq_lines(show_impl(r))}'))
        else:
            text_items.append((i, f'lines_eqb (show_lines (write_cnt {coq_cnt(m)})) ["ERROR"]'))
    gidx = {}
    for g in gcases:
        for t, tag in enumerate(('cnt_group', 'cnt_expanded')):
            idx = 100000 + 2 * g['id'] + t
            gidx[idx] = (g, tag)
            r = res2[f'{g["id"]}:{tag}']
            read_items.append((idx, f'lines_eqb (read_both {cm.coq_lines(g["msh"])} '
                                    f'{cm.coq_lines(g[tag])}) {cm.coq_lines(show_impl(r))}'))
            if t == 0:
                ngl = ['ERROR'] if 'read' not in r else \
                    [x for k, v in r['read']['node_groups']
                     for x in ('GROUP ' + k, ','.join(str(i) for i in v))]
                read_items.append((200000 + g['id'], f'lines_eqb (show_ng {cm.coq_lines(g["msh"])}) '
                                                     f'{cm.coq_lines(ngl)}'))
    # number layer: Fmt.fmt_text (model of "%.<k>E" on the exact binary64) = C printf, on every value
    # of the cases for the digits of its section and on extra values for all three formats
    fmt_vals = {}
    for m in cases:
        for k, (ids_, rows_) in (m.get('constraints_eff') or m['constraints']).items():
            for row in rows_:
                for h in row:
                    v = fx(h)
                    if not math.isnan(v):
                        fmt_vals[(float(v).hex(), FRAC[k])] = v
    for _ in range({'quick': 300}.get(tier, 3000)):
        v = rand_value(ctx.rng) if ctx.rng.random() < 0.7 else \
            ctx.rng.choice([1, -1]) * ctx.rng.random() * 2.0 ** ctx.rng.randint(-1074, 1023)
        fmt_vals[(float(v).hex(), ctx.rng.choice([5, 6, 12]))] = v
    fmt_keys = sorted(fmt_vals)
    fmt_items = []
    for n_, (hx, frac) in enumerate(fmt_keys):
        v = fmt_vals[(hx, frac)]
        neg, mm, ee = float_parts(v)
        want = '%.*E' % (frac, v)
        assert want == cm.f2dec(v, frac), (want, cm.f2dec(v, frac))
        fmt_items.append((n_, f'String.eqb (Fmt.fmt_text {frac} {"true" if neg else "false"} '
                              f'{lib.coq_Z(mm)} {lib.coq_Z(ee)}) {lib.coq_str(want)}'))
    # translator validation: _generate_constraints of the tree under test on every NaN mask of
    # 1..3 rows x 3 dof = Model.gen_constraints (with the translated / baseline gen_empty_ok)
    mask_tables = gen_mask_tables()
    res_gen = run_gen_child(ctx, mask_tables)
    gen_items = [(t['id'], gen_item(t, res_gen[t['id']])) for t in mask_tables]
    bad_text = bad_read = bad_fmt = bad_gen = bad_pure = None
    if model_ok:
        t0 = time.time()
        bad_pure = coq_failing(ctx, 'CorrPure', pure_items, head_extra=COQ_HEAD_PURE) if pure_items else []
        ctx.log(f'pure_cflux / label decision in Coq ({len(pure_items)} items): disagreements {bad_pure}')
        bad_gen = coq_failing(ctx, 'CorrGen', gen_items)
        ctx.log(f'_generate_constraints on all {len(gen_items)} NaN masks in Coq: disagreements {bad_gen}')
        bad_fmt = coq_failing(ctx, 'CorrFmt', fmt_items)
        ctx.log(f'number layer in Coq ({len(fmt_items)} values): disagreements {bad_fmt}')
        bad_text = coq_failing(ctx, 'CorrText', text_items)
        bad_read = coq_failing(ctx, 'CorrRead', read_items)
        ctx.log(f'correspondence in Coq ({len(text_items)} texts, {len(read_items)} reads): '
                f'{time.time() - t0:.1f}s; disagreements: text {bad_text}, read {bad_read}')
    ctx.corr = {'cases': len(text_items) + len(read_items) + len(fmt_items) + len(gen_items),
                'text_cases': len(text_items), 'read_cases': len(read_items),
                'number_cases': len(fmt_items), 'generate_constraints_masks': len(gen_items),
                'disagreements': (len(bad_text) + len(bad_read) + len(bad_fmt) + len(bad_gen))
                if None not in (bad_text, bad_read, bad_fmt, bad_gen) else 'not evaluated'}

    if relevant:
        ctx.notes['tie'] = '; '.join(
            f'tie: H (translator could not read {k}: {v}; baseline model + widened correspondence, '
            f'{len(text_items) + len(read_items)} cases)' for k, v in sorted(relevant.items()))
        ctx.log(ctx.notes['tie'])
    else:
        ctx.notes['tie'] = 'T (all regions translated from the tree under test) + H (correspondence)'

    # node groups handed to the model = node groups femio read
    ng_bad = []
    for g in gcases:
        r = res2[f'{g["id"]}:cnt_group']
        if 'read' in r and dict((k, v) for k, v in r['read']['node_groups']) != dict((k, v) for k, v in g['ngs']):
            ng_bad.append(g['id'])

    # ------------------------------------------------------------ property oracle on the implementation
    impl_bad = 0
    n_eval = 0
    for i, m in enumerate(cases):
        r = res1[i]
        meta = m['meta']
        mcase = {'mesh': m}
        if jobs[i].get('pre_mesh') is not None:
            mcase['pre_mesh'] = jobs[i]['pre_mesh']
        ctx.count('solution:' + meta['solution'])
        ctx.count('only_solid:%s' % meta['only_solid'])
        ctx.count('inplace_edits:%d' % meta.get('inplace_edits', 0))
        ctx.count('read_via:' + ('read_directory' if jobs[i].get('via_directory') else 'read_files'))
        for k in meta['kinds']:
            ctx.count('kind:' + k)
            ctx.count('pattern:' + meta['patterns'][k])
        want = presc_of_input(m)
        ctx.case(['cnt', m.get('solution_type'), m['constraints']], nontrivial=sum(want.values()) > 0,
                 sample={'meta': meta, 'cnt_head': (r.get('cnt_lines') or [])[:4],
                         'read_back': show_impl(r)[:8]})
        n_eval += 1
        if 'read' not in r:
            impl_bad += 1
            empty = [k for k in ('boundary', 'cload') if k in meta['kinds']
                     and not any(kk == k for (kk, _, _, _) in want)]
            err = (r.get('write_error') or r.get('read_error') or '')
            ctx.violation('impl-violation', mcase, 'write then read succeeds',
                          {'write_error': r.get('write_error'), 'read_error': r.get('read_error')},
                          'C03_cnt_roundtrip / oracle on implementation', found_input=True,
                          signature={'oracle': 'roundtrip', 'stage': 'write' if 'write_error' in r else 'read',
                                     'all_nan_table': empty[0] if empty else '', 'error': err[:50]},
                          what='write/read of analysis conditions raised')
            continue
        if r.get('mutated') or r.get('write2_error') or r.get('cnt2') != r.get('cnt'):
            impl_bad += 1
            ctx.violation('impl-violation', mcase,
                          'write() leaves the conditions as they were; a second write gives the same file',
                          {'mutated': r.get('mutated'), 'write2_error': r.get('write2_error')},
                          'C03_cnt_roundtrip / oracle on implementation (object held by the caller)',
                          found_input=True,
                          signature={'oracle': 'rewrite', 'mutated': ','.join(r.get('mutated') or [])},
                          what='write() modified the in-memory conditions or the second write differs')
        got = presc_of_dump(r['read'])
        sol_want = m.get('solution_type') or 'STATIC'
        if got != want or r['read']['solution_type'] != sol_want:
            impl_bad += 1
            diff = sorted(set(k for (k, _, _, _) in (got - want) + (want - got)))
            ctx.violation('impl-violation', mcase,
                          {'solution': sol_want, 'prescriptions': sorted(want.elements())},
                          {'solution': r['read']['solution_type'], 'prescriptions': sorted(got.elements())},
                          'C03_cnt_roundtrip / oracle on implementation', found_input=True,
                          signature=({'oracle': 'roundtrip', 'over_existing_file': True}
                                     if meta.get('over_existing') else
                                     {'oracle': 'roundtrip', 'kinds': ','.join(diff),
                                      'solution_differs': r['read']['solution_type'] != sol_want}),
                          what=f'round trip changes the prescriptions of {diff}')
    for g in gcases:
        rg = res2[f'{g["id"]}:cnt_group']
        re_ = res2[f'{g["id"]}:cnt_expanded']
        ctx.count('group_case_kinds:%d' % len(g['kinds']))
        ctx.case(['group', g['msh'], g['cnt_group']], nontrivial=True)
        n_eval += 1
        ok = 'read' in rg and 'read' in re_ and presc_of_dump(rg['read']) == presc_of_dump(re_['read']) \
            and rg['read']['solution_type'] == g['solution']
        if not ok:
            impl_bad += 1
            ctx.violation('impl-violation',
                          {'msh': g['msh'], 'cnt_group': g['cnt_group'], 'cnt_expanded': g['cnt_expanded'],
                           'ngs': g['ngs']},
                          'a condition on a node-group name = the condition on each member',
                          {'group': show_impl(rg), 'expanded': show_impl(re_),
                           'errors': [rg.get('read_error'), re_.get('read_error')]},
                          'C03_group_expansion / oracle on implementation', found_input=True,
                          signature={'oracle': 'group'},
                          what='group rows and per-member rows are read differently')
    for j in wjobs:
        r, m = res3[j['id']], j['mesh']
        want = Counter((k, i, fx(row[0]).hex() if False else cm.f2dec(fx(row[0]), 12))
                       for k, (ids_, rows_) in m['constraints'].items() for i, row in zip(ids_, rows_))
        got = Counter()
        if 'read' in r:
            for k in ('cflux', 'pure_cflux'):
                if k in r['read']['constraints']:
                    ids_, rows_ = r['read']['constraints'][k]
                    got.update((k, i, cm.f2dec(fx(row[0]), 12)) for i, row in zip(ids_, rows_))
        ctx.case(['pure', m['constraints']], nontrivial=True)
        ctx.count('pure_write:' + '+'.join(sorted(m['constraints'])))
        n_eval += 1
        if got != want:
            both = sorted(m['constraints']) == ['cflux', 'pure_cflux']
            known = ctx.violation('impl-violation', {'mesh': m},
                                  {'prescriptions': sorted(want.elements())},
                                  {'prescriptions': sorted(got.elements()),
                                   'errors': [r.get('write_error'), r.get('read_error')]},
                                  'C03_cflux_with_pure_cflux_refuted / oracle on implementation',
                                  found_input=True,
                                  signature={'oracle': 'roundtrip-pure', 'kinds': '+'.join(sorted(m['constraints'])),
                                             'relabelled_as_pure': both and 'read' in r and all(
                                                 k == 'pure_cflux' for (k, _, _) in got)},
                                  what='round trip of cflux / pure_cflux changes the prescriptions')
            if not known:
                impl_bad += 1
    ctx.notes['search_evaluations'] = n_eval
    ctx.notes['impl_property_failures'] = impl_bad

    # ------------------------------------------------------------ broken tie / proofs
    if bad_text:
        for i in bad_text[:3]:
            model = coq_show(ctx, 'Explain', f'show_lines (write_cnt {coq_cnt(cases[i])})')
            ctx.violation('correspondence', {'mesh': cases[i]}, {'model_text': model},
                          {'femio_text': res1[i].get('cnt_lines'), 'write_error': res1[i].get('write_error')},
                          'correspondence C03 text: femio .cnt = Model.write_cnt (byte for byte)',
                          found_input=False, signature={'kind': 'correspondence', 'side': 'write'},
                          what='the written .cnt differs from the model')
    if bad_read:
        for idx in bad_read[:3]:
            if idx >= 200000:
                g = gcases[idx - 200000]
                case = {'msh': g['msh']}
                impl = res2[f'{g["id"]}:cnt_group'].get('read', {}).get('node_groups')
                model = coq_show(ctx, 'Explain', f'show_ng {cm.coq_lines(g["msh"])}')
                side = 'node_groups'
            elif idx >= 100000:
                g, tag = gidx[idx]
                case = {'msh': g['msh'], 'cnt': g[tag], 'ngs': g['ngs']}
                impl = show_impl(res2[f'{g["id"]}:{tag}'])
                model = coq_show(ctx, 'Explain', f'read_both {cm.coq_lines(g["msh"])} {cm.coq_lines(g[tag])}')
                side = 'read:' + tag
            else:
                case = {'mesh': cases[idx], 'cnt': res1[idx]['cnt_lines']}
                impl = show_impl(res1[idx])
                model = coq_show(ctx, 'Explain',
                                 f'read_both {cm.coq_lines(split_lines(res1[idx]["msh"]))} '
                                 f'{cm.coq_lines(res1[idx]["cnt_lines"])}')
                side = 'read:written'
            ctx.violation('correspondence', case, {'model_read': model}, {'femio_read': impl},
                          'correspondence C03 read: femio read_files = Model.read_cnt',
                          found_input=False, signature={'kind': 'correspondence', 'side': side},
                          what='femio reads something else than the model')
    if ng_bad:
        ctx.violation('correspondence', {'group_cases': ng_bad[:5]}, 'node groups = ALL + !NGROUP blocks',
                      'femio read other node groups', 'correspondence C03 node groups',
                      found_input=False, signature={'kind': 'correspondence', 'side': 'node_groups'})
    if bad_pure:
        ctx.violation('correspondence', {'items': bad_pure[:10],
                                         'cnt': [pc['cnt'] for pc in pcases if pc['id'] in bad_pure][:3]},
                      'Pure.read_cntx_with / write_cntx_of', 'femio differs',
                      'correspondence C03 pure_cflux: label decision of _read_cnt_cflux / !CFLUX, TYPE=PURE section',
                      found_input=False, signature={'kind': 'correspondence', 'side': 'pure'},
                      what='femio reads / writes !CFLUX sections differently from the model')
    if tie_ok and proof_ok and sec_ok and not pure_ok:
        ctx.violation('proof-broken', {}, 'PropsPure.v checks', 'does not check',
                      'C03_read_cntx_conservative / C03_cflux_with_pure_cflux_refuted', found_input=False,
                      signature={'kind': 'proof-broken', 'file': 'PropsPure'})
    if bad_gen:
        for n_ in bad_gen[:2]:
            t = mask_tables[n_]
            allnan = all(h is None for row in t['rows'] for h in row)
            ctx.violation('correspondence', {'gen_table': t}, 'Model.gen_constraints (column-major gather)',
                          {'_generate_constraints': res_gen[n_]},
                          'correspondence C03: _generate_constraints = Model.gen_constraints on every NaN mask',
                          found_input=True,
                          signature={'kind': 'correspondence', 'side': 'generate_constraints', 'all_nan': allnan},
                          what='_generate_constraints returns other (id, dof, dof, value) rows than the model')
    if bad_fmt:
        for n_ in bad_fmt[:3]:
            hx, frac = fmt_keys[n_]
            v = fmt_vals[(hx, frac)]
            neg, mm, ee = float_parts(v)
            model = coq_show(ctx, 'Explain', f'[Fmt.fmt_text {frac} {"true" if neg else "false"} '
                                             f'{lib.coq_Z(mm)} {lib.coq_Z(ee)}]')
            ctx.violation('correspondence', {'value_hex': hx, 'digits': frac}, {'model': model},
                          {'printf': '%.*E' % (frac, v)}, 'correspondence C03 number layer: Fmt.fmt_text = %.kE',
                          found_input=True, signature={'kind': 'correspondence', 'side': 'fmt'},
                          what='the model of %.kE differs from C printf on this binary64')
    if tie_ok and proof_ok and not sec_ok:
        ctx.violation('proof-broken', {'cnt_sections': tables.get('cnt_sections_canon')},
                      'write_cnt writes the sections the model was written for (key, header, arrays, '
                      'digits, order)', 'the translated section table differs',
                      'C03_cnt_sections_as_modelled', found_input=impl_bad > 0 or bool(bad_text),
                      signature={'kind': 'cfg-sections'},
                      what='per-run obligation on the translated section table of write_cnt fails')
    if model_ok and None in (bad_text, bad_read, bad_fmt, bad_gen, bad_pure):
        ctx.violation('correspondence', {}, 'correspondence files compile', 'coqc failed',
                      'correspondence C03', found_input=False,
                      signature={'kind': 'correspondence', 'side': 'coqc'})
    if not tie_ok:
        ctx.violation('tie-broken', {'translator_error': ctx.notes.get('translator_error')},
                      'translator accepts the regions', 'fail-closed', 'translator c01_tables',
                      found_input=False, signature={'kind': 'tie-broken'})
    if tie_ok and proof_ok and not cfg_ok:
        ctx.violation('proof-broken', {'cnt_truncated': tables.get('cnt_truncated')},
                      'the first write to <name>.cnt truncates the file on every path',
                      'the file is opened for appending: an existing .cnt is kept in front',
                      'C03_cnt_file_truncated', found_input=impl_bad > 0,
                      signature={'oracle': 'roundtrip', 'over_existing_file': True, 'kind': 'cfg'},
                      what='per-run obligation on the effect program of write(fistr) fails')
    if tie_ok and props.exists() and not proof_ok:
        bad = [o['name'] for o in ctx.obligations if not o['discharged']]
        ctx.violation('proof-broken', {'theorems': bad, 'log': ctx.notes.get('build_log_tail', '')[-600:]},
                      'Props.v checks', 'does not check', ', '.join(bad), found_input=impl_bad > 0,
                      signature={'kind': 'proof-broken'})
    if tier == 'thorough' and proof_ok and hasattr(ctx, 'coqchk'):
        ctx.coqchk('C03/Props.v')
    ctx.exhaustive = False
    return ctx.finish()


def replay(path):
    rp = json.loads(Path(path).read_text())
    c = rp['case']
    ctx = lib.Ctx(PID, 'quick')
    work = ctx.scratch / 'replay'
    if 'cnt_group' in c:
        jobs = [{'op': 'read', 'id': tag, 'dir': str(work / tag),
                 'files': {'mesh.msh': '\n'.join(c['msh']) + '\n', 'mesh.cnt': '\n'.join(c[tag]) + '\n'},
                 'read': ['mesh.msh', 'mesh.cnt']} for tag in ('cnt_group', 'cnt_expanded')]
        res = cm.run_child(ctx, jobs, 'replay')
        for tag in ('cnt_group', 'cnt_expanded'):
            print(f'implementation, {tag}:', json.dumps(show_impl(res[tag])))
            print(f'model, {tag}         :', json.dumps(coq_show(
                ctx, 'Replay', f'show_rcnt (read_cnt {coq_ngs(c["ngs"])} {cm.coq_lines(c[tag])})')))
        bad = not ('read' in res['cnt_group'] and 'read' in res['cnt_expanded'] and
                   presc_of_dump(res['cnt_group']['read']) == presc_of_dump(res['cnt_expanded']['read']))
        print('property', 'VIOLATED' if bad else 'holds', 'on this input')
        return 1 if bad else 0
    if 'mesh' in c:
        m = c['mesh']
        job = {'op': 'write_read', 'id': 0, 'dir': str(work / 'm'), 'mesh': m, 'read_cnt': True}
        if c.get('pre_mesh') is not None:
            job['pre_mesh'] = c['pre_mesh']
            print('(written with overwrite=True over an earlier export of other conditions)')
        r = cm.run_child(ctx, [job], 'replay')[0]
        print('implementation cnt :', json.dumps(r.get('cnt', r.get('write_error'))))
        print('implementation read:', json.dumps(show_impl(r)), r.get('read_error', ''))
        print('model cnt          :', json.dumps(coq_show(ctx, 'Replay', f'show_lines (write_cnt {coq_cnt(m)})')))
        bad = 'read' not in r or presc_of_dump(r['read']) != presc_of_input(m) or \
            r['read']['solution_type'] != (m.get('solution_type') or 'STATIC')
        print('property', 'VIOLATED' if bad else 'holds', 'on this input')
        return 1 if bad else 0
    if 'gen_table' in c:
        t = c['gen_table']
        r = run_gen_child(ctx, [t])[t['id']]
        print('implementation _generate_constraints:', json.dumps(r))
        bad_ = coq_failing(ctx, 'ReplayGen', [(0, gen_item(t, r))])
        print('model agrees' if bad_ == [] else 'model DISAGREES (or could not be evaluated)')
        return 1 if bad_ != [] else 0
    if 'value_hex' in c:
        v = fx(c['value_hex'])
        neg, mm, ee = float_parts(v)
        print('printf :', '%.*E' % (c['digits'], v))
        print('model  :', coq_show(ctx, 'Replay', f'[Fmt.fmt_text {c["digits"]} {"true" if neg else "false"} '
                                                    f'{lib.coq_Z(mm)} {lib.coq_Z(ee)}]'))
        return 1
    print('nothing to replay on the implementation:', json.dumps(rp, indent=1)[:2000])
    return 1


if __name__ == '__main__':
    if len(sys.argv) > 2 and sys.argv[1] == 'replay':
        sys.exit(replay(sys.argv[2]))
    tier = sys.argv[1] if len(sys.argv) > 1 else 'quick'
    sys.exit(main(lib.Ctx(PID, tier)))
