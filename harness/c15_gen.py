"""C15: mesh generator (independent of femio's generators) and an UNTRUSTED
exact-rational Python mirror of coq/C15/Model.v.  The mirror is used only to
(a) decide which generated vertex neighbourhoods span space (so that the
moment matrix is regular, the property's precondition) and (b) evaluate the
property's oracle; the correspondence itself is evaluated inside Coq."""
from fractions import Fraction as Fr
import itertools

# integer maps; the orientation of the elements is repaired after mapping
MAPS = {
    'id': ((1, 0, 0), (0, 1, 0), (0, 0, 1)),
    'rot3': ((1, 2, 2), (2, 1, -2), (2, -2, 1)),        # M^T M = 9 I, det -27
    'shear': ((1, 1, 0), (0, 1, 2), (0, 0, 1)),
    'refl': ((1, 0, 0), (0, 0, 1), (0, 1, 0)),
    'aniso': ((3, 0, 0), (0, 1, 0), (1, 0, 2)),
}

# Kuhn split of the unit cube (local node = (dx,dy,dz)) into 6 tets along the
# main diagonal 000-111: one tet per permutation of the axes
KUHN = []
for perm in itertools.permutations(range(3)):
    p = [0, 0, 0]
    tet = [tuple(p)]
    for ax in perm:
        p[ax] = 1
        tet.append(tuple(p))
    KUHN.append(tet)

HEX_LOCAL = [(0, 0, 0), (1, 0, 0), (1, 1, 0), (0, 1, 0),
             (0, 0, 1), (1, 0, 1), (1, 1, 1), (0, 1, 1)]


def det3(a, b, c):
    return (a[0] * (b[1] * c[2] - b[2] * c[1]) - a[1] * (b[0] * c[2] - b[2] * c[0])
            + a[2] * (b[0] * c[1] - b[1] * c[0]))


def sub(a, b):
    return (a[0] - b[0], a[1] - b[1], a[2] - b[2])


def arrange_ids(rng, n, id_mode, order):
    """n distinct ids and the order in which they are STORED.
    id_mode: sparse | large (>= 2^31) | huge (just below 2^53) | dense (1..n) | offset (a..a+n-1)
    order:   shuffled | sorted | reversed | ends_fixed (ends in place, interior shuffled)
             | swap2 (two neighbours swapped) | move1 (one id moved)"""
    if id_mode == 'dense':
        ids = list(range(1, n + 1))
    elif id_mode == 'offset':
        a = rng.randrange(2, 10 ** 6)
        ids = list(range(a, a + n))
    elif id_mode == 'large':
        ids = sorted(rng.sample(range(2 ** 31, 2 ** 31 + 10 ** 6), n))
    elif id_mode == 'huge':
        ids = sorted(rng.sample(range(2 ** 53 - 10 ** 6, 2 ** 53 - 1), n))
    else:
        ids = sorted(rng.sample(range(1, 50 * n + 100), n))
    if order == 'shuffled':
        rng.shuffle(ids)
    elif order == 'reversed':
        ids.reverse()
    elif order == 'ends_fixed' and n > 3:
        mid = ids[1:-1]
        rng.shuffle(mid)
        ids = [ids[0]] + mid + [ids[-1]]
    elif order == 'swap2' and n > 1:
        k = rng.randrange(n - 1)
        ids[k], ids[k + 1] = ids[k + 1], ids[k]
    elif order == 'move1' and n > 2:
        x = ids.pop(rng.randrange(n))
        ids.insert(rng.randrange(n), x)
    return ids


def gen_mesh(rng, etype, dims, spacing_max=3, jitter=True, map_name='id', id_mode='sparse',
             shuffle=True, order=None, elem_order=None, holes=0.0):
    """dims = number of lattice nodes per axis.  Returns a dict with integer
    coordinates, ids in storage order, connectivity in ids."""
    nx, ny, nz = dims
    scale = 4 if jitter else 1

    def axis(n):
        xs = [0]
        for _ in range(n - 1):
            xs.append(xs[-1] + rng.randint(1, spacing_max))
        return xs
    X, Y, Z = axis(nx), axis(ny), axis(nz)
    M = MAPS[map_name]

    def lattice(jit):
        lat = {}
        for i in range(nx):
            for j in range(ny):
                for k in range(nz):
                    p = [scale * X[i], scale * Y[j], scale * Z[k]]
                    if jit:
                        p = [c + rng.randint(-1, 1) for c in p]
                    q = tuple(sum(M[r][c] * p[c] for c in range(3)) for r in range(3))
                    lat[(i, j, k)] = q
        return lat

    def degenerate(lat):
        # a jittered Kuhn tet can be exactly flat (volume 0: e.g. edge vectors
        # (-1,2,0),(0,4,2),(2,2,3)); a zero-volume element is not a mesh the
        # property speaks about (its volume weight is 0, the 'positive element
        # volumes' premise of the theorems fails): redraw the jitter
        if etype != 'tet':
            return False
        for i in range(nx - 1):
            for j in range(ny - 1):
                for k in range(nz - 1):
                    for tet in KUHN:
                        p = [lat[(i + a, j + b, k + c)] for a, b, c in tet]
                        if det3(sub(p[1], p[0]), sub(p[2], p[0]), sub(p[3], p[0])) == 0:
                            return True
        return False
    lat = lattice(jitter)
    if jitter:
        for _ in range(50):
            if not degenerate(lat):
                break
            lat = lattice(True)
        else:
            lat = lattice(False)
    keys = list(lat)
    rng.shuffle(keys)          # which lattice point gets which storage slot
    n = len(keys)
    if order is None:
        order = 'shuffled' if shuffle else 'sorted'
    ids = arrange_ids(rng, n, id_mode, order)
    nid = dict(zip(keys, ids))
    conn = []
    cells = [(i, j, k) for i in range(nx - 1) for j in range(ny - 1) for k in range(nz - 1)]
    if holes and len(cells) > 2:
        # voids / non-convex bodies / several components: drop some cells
        keep = [c for c in cells if rng.random() >= holes]
        cells = keep if len(keep) >= 2 else cells[:2]
    for (i, j, k) in cells:
        if etype == 'hex':
            loc = [(i + a, j + b, k + c) for a, b, c in HEX_LOCAL]
            # orientation from the map (a jittered corner can have a
            # negative Jacobian although the cell is fine)
            if det3(M[0], M[1], M[2]) < 0:
                loc = loc[4:] + loc[:4]
            conn.append([nid[x] for x in loc])
        else:
            for tet in KUHN:
                loc = [(i + a, j + b, k + c) for a, b, c in tet]
                p = [lat[x] for x in loc]
                if det3(sub(p[1], p[0]), sub(p[2], p[0]), sub(p[3], p[0])) < 0:
                    loc[2], loc[3] = loc[3], loc[2]
                conn.append([nid[x] for x in loc])
    rng.shuffle(conn)
    ne = len(conn)
    if elem_order is None:
        elem_order = order
    eids = arrange_ids(rng, ne, id_mode, elem_order)
    # nodes of dropped cells stay as unreferenced nodes only if no other cell uses them
    used = {i for e in conn for i in e}
    mesh = {'etype': etype, 'node_ids': [nid[k] for k in keys], 'xyz': [list(lat[k]) for k in keys],
            'elem_ids': eids, 'conn': conn,
            'descr': {'etype': etype, 'dims': list(dims), 'map': map_name, 'jitter': jitter,
                      'ids': id_mode, 'order': order, 'elem_order': elem_order,
                      'holes': bool(holes), 'spacing_max': spacing_max}}
    if len(used) < n:
        if holes == 0.0 or rng.random() < 0.5:
            pass
        keepn = [k for k, i in enumerate(mesh['node_ids']) if i in used]
        if rng.random() < 0.6:       # usually remove the nodes of the voids
            mesh['node_ids'] = [mesh['node_ids'][k] for k in keepn]
            mesh['xyz'] = [mesh['xyz'][k] for k in keepn]
        else:
            mesh['descr']['unreferenced_nodes'] = n - len(used)
    return mesh


# --------------------------------------------------------------------- mirror
def incidence(mesh):
    pos = {i: k for k, i in enumerate(mesh['node_ids'])}
    return [[pos[i] for i in e] for e in mesh['conn']]


def adjacency(mode, n_nodes, inc):
    if mode == 'nodal':
        nb = [set() for _ in range(n_nodes)]
        for e in inc:
            for a in e:
                nb[a].update(e)
    else:
        by_node = {}
        for k, e in enumerate(inc):
            for a in e:
                by_node.setdefault(a, set()).add(k)
        nb = [set() for _ in inc]
        for k, e in enumerate(inc):
            for a in e:
                nb[k].update(by_node[a])
    return nb          # includes the vertex itself


def n_hop(nb, hops):
    n = len(nb)
    ret = [set(s) for s in nb]
    pw = [set(s) for s in nb]
    for _ in range(1, hops):
        pw2 = [set().union(*[nb[k] for k in pw[i]]) if pw[i] else set() for i in range(n)]
        ret2 = [ret[i] | pw2[i] for i in range(n)]
        if pw2 == pw and ret2 == ret:
            break                      # saturated (large hop counts)
        pw, ret = pw2, ret2
    return [sorted(ret[i] - {i}) for i in range(n)]


def positions(mode, mesh, inc):
    P = [tuple(Fr(c) for c in p) for p in mesh['xyz']]
    if mode == 'nodal':
        return P
    return [tuple(sum(P[k][a] for k in e) / len(e) for a in range(3)) for e in inc]


def vertex_volumes(opts, n_nodes, inc, evol):
    if not opts['consider_volume']:
        return None
    if opts['mode'] == 'elemental':
        return list(evol)
    out = []
    for i in range(n_nodes):
        es = [k for k, e in enumerate(inc) if i in e]
        if opts['use_effective_volume']:
            out.append(sum(evol[k] / len(inc[k]) for k in es))
        else:
            s = sum(evol[k] for k in es)
            out.append(sum(evol[k] / s * evol[k] for k in es))
    return out


def rank3(vs):
    """rank of a list of 3-vectors (exact)"""
    rows = [list(v) for v in vs]
    r = 0
    for c in range(3):
        piv = None
        for k in range(r, len(rows)):
            if rows[k][c] != 0:
                piv = k
                break
        if piv is None:
            continue
        rows[r], rows[piv] = rows[piv], rows[r]
        for k in range(len(rows)):
            if k != r and rows[k][c] != 0:
                f = rows[k][c] / rows[r][c]
                rows[k] = [a - f * b for a, b in zip(rows[k], rows[r])]
        r += 1
        if r == 3:
            break
    return r


def neighbourhoods(mesh, mode, hops):
    inc = incidence(mesh)
    n = len(mesh['node_ids']) if mode == 'nodal' else len(inc)
    nb = n_hop(adjacency(mode, len(mesh['node_ids']), inc), hops)
    P = positions(mode, mesh, inc)
    return inc, nb, P


def all_span(nb, P):
    return all(rank3([sub(P[j], P[i]) for j in nb[i]]) == 3 for i in range(len(nb)))


def inv3(M):
    (a, b, c), (d, e, f), (g, h, i) = M
    det = a * (e * i - f * h) - b * (d * i - f * g) + c * (d * h - e * g)
    k = 1 / det if det != 0 else Fr(0)
    return [[k * (e * i - f * h), k * (c * h - b * i), k * (b * f - c * e)],
            [k * (f * g - d * i), k * (a * i - c * g), k * (c * d - a * f)],
            [k * (d * h - e * g), k * (b * g - a * h), k * (a * e - b * d)]]


def model_rows(mesh, opts, evol):
    """mirror of Model.model_grad_rows for kernel=None: list of rows, each a
    list of (col, (gx,gy,gz)) with the diagonal last"""
    inc, nb, P = neighbourhoods(mesh, opts['mode'], opts['n_hop'])
    vol = vertex_volumes(opts, len(mesh['node_ids']), inc, evol)
    rows = []
    for i, ns in enumerate(nb):
        ent = []
        for j in ns:
            v = sub(P[j], P[i])
            w = vol[j] if vol is not None else Fr(1)
            ent.append((j, v, w))
        if opts['moment_matrix']:
            M = [[Fr(0)] * 3 for _ in range(3)]
            for j, v, w in ent:
                s = w / sum(c * c for c in v)
                for a in range(3):
                    for b in range(3):
                        M[a][b] += s * v[a] * v[b]
            Mi = inv3(M)
            cs = []
            for j, v, w in ent:
                s = w / sum(c * c for c in v)
                cs.append((j, tuple(sum(Mi[a][b] * s * v[b] for b in range(3)) for a in range(3))))
        else:
            sw = sum(w for _, _, w in ent)
            cs = [(j, tuple(3 * v[a] * w / sum(c * c for c in v) / sw for a in range(3)))
                  for j, v, w in ent]
        diag = tuple(-sum(c[1][a] for c in cs) for a in range(3))
        rows.append(cs + [(i, diag)])
    return rows


# ------------------------------------------------ second order / mixed meshes
TET_EDGES = [(1, 2), (0, 2), (0, 1), (0, 3), (1, 3), (2, 3)]     # mid nodes 5..10 of a tet2


def to_tet2(rng, mesh):
    """tet -> tet2: coordinates doubled (mid-edge nodes stay integer), one new
    node per edge with a fresh sparse id; storage order of the nodes reshuffled"""
    assert mesh['etype'] == 'tet'
    xyz = {i: tuple(2 * c for c in p) for i, p in zip(mesh['node_ids'], mesh['xyz'])}
    used = set(mesh['node_ids'])
    mid = {}
    conn = []
    for e in mesh['conn']:
        row = list(e)
        for a, b in TET_EDGES:
            k = tuple(sorted((e[a], e[b])))
            if k not in mid:
                new = rng.randrange(1, 60 * len(used) + 1000)
                while new in used:
                    new += 1
                used.add(new)
                mid[k] = new
                xyz[new] = tuple((x + y) // 2 for x, y in zip(xyz[k[0]], xyz[k[1]]))
            row.append(mid[k])
        conn.append(row)
    ids = list(xyz)
    rng.shuffle(ids)
    return {'etype': 'tet2', 'k1': 4, 'node_ids': ids, 'xyz': [list(xyz[i]) for i in ids],
            'elem_ids': list(mesh['elem_ids']), 'conn': conn,
            'descr': dict(mesh['descr'], etype='tet2')}


def gen_mixed(rng, dims, map_name='id', id_mode='sparse'):
    """lattice whose cells are hexes or Kuhn-split tets (node-sharing graph;
    no jitter so that hex volumes are exact); flat element list = hex block
    then tet block"""
    base = gen_mesh(rng, 'hex', dims, spacing_max=2, jitter=False, map_name=map_name,
                    id_mode=id_mode, shuffle=True)
    pos = {i: tuple(p) for i, p in zip(base['node_ids'], base['xyz'])}
    hexes, tets = [], []
    for k, e in enumerate(base['conn']):
        if (k == 0) or (k != 1 and rng.random() < 0.5):
            hexes.append(list(e))
        else:
            # local hex node (dx,dy,dz) -> id
            loc = {HEX_LOCAL[j]: e[j] for j in range(8)}
            for tet in KUHN:
                t = [loc[c] for c in tet]
                p = [pos[i] for i in t]
                if det3(sub(p[1], p[0]), sub(p[2], p[0]), sub(p[3], p[0])) < 0:
                    t[2], t[3] = t[3], t[2]
                tets.append(t)
    ne = len(hexes) + len(tets)
    eids = rng.sample(range(1, 50 * ne + 100), ne)
    blocks = [['hex', 0, len(hexes)], ['tet', len(hexes), ne]]
    return {'etype': 'mix', 'node_ids': base['node_ids'], 'xyz': base['xyz'], 'elem_ids': eids,
            'conn': hexes + tets, 'blocks': blocks,
            'descr': dict(base['descr'], etype='mix', n_hex=len(hexes), n_tet=len(tets))}


def reduce_order1(mesh):
    """the mesh femio works on in nodal mode with order1_only=True"""
    k1 = mesh['k1']
    conn = [e[:k1] for e in mesh['conn']]
    used = {i for e in conn for i in e}
    keep = [k for k, i in enumerate(mesh['node_ids']) if i in used]
    out = dict(mesh)
    out['node_ids'] = [mesh['node_ids'][k] for k in keep]
    out['xyz'] = [mesh['xyz'][k] for k in keep]
    out['conn'] = conn
    out['order1_keep'] = keep
    return out


def scale_mesh(mesh, k):
    """multiply every coordinate by 2**k (exact in binary floating point): the
    same mesh described in another unit of length"""
    f = 2.0 ** k
    mesh['xyz'] = [[float(c) * f for c in p] for p in mesh['xyz']]
    mesh['scale_exp'] = k
    mesh['descr'] = dict(mesh.get('descr', {}), scale='2^%d' % k)
    return mesh
