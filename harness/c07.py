"""C07 — write() never changes an existing file unless overwrite=True."""
import itertools
import json
import os
import subprocess
import sys
from pathlib import Path

sys.path.insert(0, str(Path(__file__).resolve().parent))
sys.path.insert(0, str(Path(__file__).resolve().parent.parent / 'translate'))
import lib  # noqa
import c07_effects  # noqa
import c07_addext  # noqa

OTHER = c07_effects.OTHER
FORMATS_RUNNABLE = ['fistr', 'ucd', 'obj', 'vtk', 'stl', 'vtu', 'polyvtk', 'vtp', OTHER]
EXT = {'fistr': '', 'ucd': 'inp', 'obj': 'obj', 'vtk': 'vtk', 'stl': 'stl', 'vtu': 'vtu',
       'polyvtk': 'vtu', 'vtp': 'vtp', OTHER: 'xyz'}
BASELINE_DIR = lib.COQ / 'C07' / 'gen_baseline'


# ---------------------------------------------------------------- model in py
# (untrusted mirror of Model.v used only to *search* for an oracle; the run it
#  finds is then verified by evaluating Model.run inside Coq)
def ends_with(s, e):
    return s.endswith(e)


def dir_prefix(s):
    i = s.rfind('/')
    return s[:i + 1] if i >= 0 else ''


def with_suffix(s, suf):
    d, nm = dir_prefix(s), s[len(dir_prefix(s)):]
    i = nm.rfind('.')
    stem = nm[:i] if 0 < i < len(nm) - 1 else nm
    return d + stem + suf


def peval(name, p):
    k = p[0]
    if k == 'PName':
        return name
    if k == 'PIfEnds':
        return peval(name, p[3]) if peval(name, p[2]).endswith(p[1]) else peval(name, p[4])
    q = peval(name, p[2])
    if k == 'PSuffix':
        return q + p[1]
    if k == 'PSibling':
        return dir_prefix(q) + p[1]
    if k == 'PWithSuffix':
        return with_suffix(q, p[1])
    raise AssertionError(k)


def match(prog, name, pre, events, raised, fuel=None):
    """find an oracle (list of nat) such that running prog reproduces the
    event list and the outcome; returns the oracle or None.  Set-based matcher:
    m(p, i, world) -> {(outcome, i', world'): oracle}; world = (paths that
    exist, remaining fuel).  fuel=k: an exception unrelated to the guards strikes
    when the (k+1)-th file event is about to happen (Model: fuel = Some k)."""
    n = len(events)
    sys.setrecursionlimit(10000)

    def m(p, i, w):
        k = p[0]
        fs, fu = w
        if k in ('Guard', 'Create', 'Append', 'Delete', 'Rename', 'Probe'):
            if fu == 0:
                return {('X', i, (fs, None)): []}
            if fu is not None:
                fu -= 1
        if k == 'Skip':
            return {('N', i, w): []}
        if k == 'Return':
            return {('R', i, w): []}
        if k == 'Raise':
            return {('X', i, w): []}
        if k == 'Guard':
            q = peval(name, p[1])
            if i < n and events[i] == 'G ' + q:
                return {(('X' if q in fs else 'N'), i + 1, (fs, fu)): []}
            return {}
        if k == 'Probe':
            q = peval(name, p[1])
            if i < n and events[i] == 'G ' + q:
                return {('N', i + 1, (fs, fu)): []}
            return {}
        if k in ('Create', 'Append'):
            q = peval(name, p[1])
            tag = 'C ' if k == 'Create' else 'A '
            if i < n and events[i] == tag + q:
                return {('N', i + 1, (fs | frozenset([q]), fu)): []}
            return {}
        if k == 'Delete':
            q = peval(name, p[1])
            if i < n and events[i] == 'D ' + q:
                return {('N', i + 1, (fs - frozenset([q]), fu)): []}
            return {}
        if k == 'Rename':
            a, b = peval(name, p[1]), peval(name, p[2])
            if i < n and events[i] == f'M {a} -> {b}':
                f2 = (fs - frozenset([a])) | frozenset([b]) if a in fs else fs - frozenset([b])
                return {('N', i + 1, (f2, fu)): []}
            return {}
        if k == 'Seq':
            out = {}
            for (o, j, c), orc in m(p[1], i, w).items():
                if o != 'N':
                    out.setdefault((o, j, c), orc)
                else:
                    for key, orc2 in m(p[2], j, c).items():
                        out.setdefault(key, orc + orc2)
            return out
        if k == 'Try':
            out = {}
            for (o, j, c), orc in m(p[1], i, w).items():
                if o == 'R':
                    out.setdefault((o, j, c), orc)
                elif o == 'N':
                    # left normally (oracle 0) or hit by a late exception (oracle 1)
                    out.setdefault((o, j, c), orc + [0])
                    for key, orc2 in m(p[2], j, c).items():
                        out.setdefault(key, orc + [1] + orc2)
                else:
                    for key, orc2 in m(p[2], j, c).items():
                        out.setdefault(key, orc + orc2)
            return out
        if k == 'Finally':
            out = {}
            for (o, j, c), orc in m(p[1], i, w).items():
                for (o2, j2, c2), orc2 in m(p[2], j, c).items():
                    out.setdefault(((o if o2 == 'N' else o2), j2, c2), orc + orc2)
            return out
        if k == 'If':
            out = {}
            for key, orc in m(p[1], i, w).items():
                out.setdefault(key, [1] + orc)
            for key, orc in m(p[2], i, w).items():
                out.setdefault(key, [0] + orc)
            return out
        if k == 'Call':
            out = {}
            for (o, j, c), orc in m(p[1], i, w).items():
                out.setdefault((('N' if o == 'R' else o), j, c), orc)
            return out
        if k == 'Loop':
            # states after exactly t iterations, all Normal
            out = {('N', i, w): [0]}
            frontier = {(i, w): []}
            seen = {(i, w)}
            t = 0
            while frontier and t < 400:
                t += 1
                nxt = {}
                for (j, c), orc in frontier.items():
                    for (o, j2, c2), orc2 in m(p[1], j, c).items():
                        full = orc + orc2
                        if o == 'N':
                            out.setdefault(('N', j2, c2), [t] + full)
                            if (j2, c2) not in seen:
                                seen.add((j2, c2))
                                nxt[(j2, c2)] = full
                        else:
                            out.setdefault((o, j2, c2), [t] + full)
                frontier = nxt
            return out
        raise AssertionError(k)

    res = m(prog, 0, (frozenset(pre), fuel))
    for (o, j, c), orc in res.items():
        if j == n and ((o == 'X') == bool(raised)):
            return orc
    return None


def match_struck(prog, name, pre, events, raised):
    """an exception that is not a refusal ended (or diverted) the run: find the
    file event before which it struck; returns (oracle, fuel) or (None, None)"""
    for k in range(len(events), -1, -1):
        orc = match(prog, name, pre, events, raised, fuel=k)
        if orc is not None:
            return orc, k
    return None, None


PEXP_OPS = ('PName', 'PIfEnds', 'PSuffix', 'PSibling', 'PWithSuffix')


def all_pexps(p):
    k = p[0]
    if k in ('Guard', 'Create', 'Append', 'Delete', 'Probe'):
        return [p[1]]
    if k == 'Rename':
        return [p[1], p[2]]
    out = []
    for c in c07_effects.subprogs(p):
        out += all_pexps(c)
    return out


def to_tuple(x):
    return tuple(to_tuple(y) for y in x) if isinstance(x, list) else x


# ---------------------------------------------------------------- impl runner
def run_impl(ctx, cases, pathfun=None, tag=''):
    spec = {'work': str(ctx.scratch / 'work'), 'out': str(ctx.scratch / f'impl_out{tag}.json'),
            'cases': cases, 'pathfun': pathfun or []}
    (ctx.scratch / 'work').mkdir(exist_ok=True)
    r = subprocess.run([lib.PY, str(lib.VERIF / 'harness' / 'c07_impl.py')],
                       input=json.dumps(spec), text=True, capture_output=True,
                       env=lib.impl_env(), timeout=1500)
    if r.returncode != 0:
        raise RuntimeError('impl runner failed: ' + r.stderr[-2000:])
    res = json.loads(Path(spec['out']).read_text())
    return {x['id']: x for x in res['results']}, res['pathfun']


def spellings(ft):
    ext = EXT[ft]
    if ft == 'fistr':
        return ['d/res', 'res', 'new/sub/res', 'd/res.msh']
    return ['d/res', 'd/res.' + ext, 'd/res' + ext, 'res', 'new/sub/res', 'd/res.' + ext + '.' + ext]


STEMS = ['res', 'a.b', 'x.v2', '.hid', 'r.', 'm_' , 'p.q.r', 'n']


def random_names(ctx, ft, k):
    """normalised relative names: with / without the extension, the bare letters
    of the extension glued on, several dots, hidden files, a trailing dot,
    dotted directories"""
    ext = EXT[ft] or 'msh'
    out = []
    for _ in range(k):
        stem = ctx.rng.choice(STEMS)
        tail = ctx.rng.choice(['', '.' + ext, ext, '.' + ext + '.bak', '.' + ext.upper(),
                               '.tmp', '.' + ext + '.' + ext])
        d = ctx.rng.choice(['', 'd/', 'd.x/', 'new/sub/', 'd/e.' + ext + '/'])
        nm = d + stem + tail
        if nm not in out:
            out.append(nm)
    return out


def meshes_for(ft):
    """element-type mixtures: the first is the default of the bulk of the cases"""
    if ft == 'vtp':
        return ['shell', 'mixed_shell']
    return ['solid', 'hexprism', 'mixed_shell']


def static_targets(ft, name):
    """paths a writer of this format can be expected to use, independent of
    the translation (so that the search still works when the tie is broken)"""
    if ft == 'fistr':
        return {name, name + '.msh', name + '.cnt', dir_prefix(name) + 'hecmw_ctrl.dat'}
    ext = EXT[ft]
    return {name, name + '.' + ext}


def mk_case(cases, ft, name, pre, kw=None, mesh=None, content='marker', second=False, stream='grid'):
    c = {'id': len(cases), 'format': ft, 'name': name, 'pre': sorted(pre), 'kwargs': kw or {},
         'mesh': mesh or meshes_for(ft)[0], 'content': content, 'second_call': second,
         'stream': stream}
    cases.append(c)
    return c


def probe_cases(ctx, cfg, wide):
    """phase 1: every (format, spelling, keyword variant, mesh kind) into an empty
    directory; the paths these runs touch join the candidate pre-existing set"""
    cases = []
    nrand = 12 if wide else 3
    for ft, _ in cfg:
        names = spellings(ft)
        for nm in random_names(ctx, ft, nrand):
            if nm not in names:
                names.append(nm)
        for name in names:
            kws = [{}]
            if ft == 'fistr':
                kws = [{}, {'write_msh_only': True}]
            for kw in kws:
                mk_case(cases, ft, name, [], kw, second=not kw, stream='probe')
        for mesh in meshes_for(ft)[1:]:
            mk_case(cases, ft, spellings(ft)[0], [], mesh=mesh, stream='probe')
    return cases


def touched_paths(r):
    out = set(r['new'])
    for e in r['events']:
        if e[:2] in ('G ', 'C ', 'A ', 'D '):
            out.add(e[2:])
        elif e.startswith('M ') and ' -> ' in e:
            a, b = e[2:].split(' -> ', 1)
            out |= {a, b}
    out.discard('None')
    return out


def gen_cases(ctx, cfg, wide, probes, pres):
    """phase 2: subsets of the candidate paths pre-populated"""
    cases = []
    for ft, prog in cfg:
        names = sorted({c['name'] for c in probes if c['format'] == ft},
                       key=lambda n: (n not in spellings(ft), n))
        for name in names:
            grid = name in spellings(ft)
            seen = set()
            for c in probes:
                if c['format'] == ft and c['name'] == name:
                    seen |= touched_paths(pres[c['id']])
            # never pre-populate a path that has to be a directory
            seen = {q for q in seen if not name.startswith(q + '/')}
            tg = sorted(set(peval(name, e) for e in all_pexps(prog)) | static_targets(ft, name) | seen)
            tg = [q for q in tg if not name.startswith(q + '/')]
            subsets = []
            for r in range(1, min(len(tg), 3 if grid else 1) + 1):
                subsets += list(itertools.combinations(tg, r))
            if not wide and len(subsets) > 8:
                keep = subsets[:len(tg)]
                rest = subsets[len(tg):]
                ctx.rng.shuffle(rest)
                subsets = keep + rest[:3]
            if not grid and not wide:
                ctx.rng.shuffle(subsets)
                subsets = subsets[:2]
            for pre in subsets:
                kws = [{}]
                if ft == 'fistr':
                    kws = [{}, {'write_msh_only': True}]
                # falsy spellings of "no overwrite" behave like the default
                if len(pre) <= 1 and name == spellings(ft)[0]:
                    kws = kws + [dict(k, overwrite=v) for k in kws[:1] for v in (None, 0, False)]
                for kw in kws:
                    mk_case(cases, ft, name, pre, kw, stream='grid' if grid else 'random-name')
            if name == spellings(ft)[0] or (wide and grid):
                for q in tg:
                    # what is in the way: an empty file, the very bytes this call would
                    # write, the same text with CRLF line ends
                    for content in ('empty', 'same', 'same-crlf'):
                        mk_case(cases, ft, name, [q], content=content, stream='content')
                    # other element-type mixtures
                    for mesh in meshes_for(ft)[1:]:
                        mk_case(cases, ft, name, [q], mesh=mesh, stream='mesh')
    return cases


def clean_events(ev, name):
    """drop existence tests on parent directories of the typed name"""
    out = []
    for e in ev:
        if e.startswith('G '):
            q = e[2:]
            if name.startswith(q + '/'):
                continue
        out.append(e)
    return out


def signature_of(case, changed=()):
    ft, name = case['format'], case['name']
    ext = EXT[ft]
    if ft != 'fistr' and not name.endswith(ext):
        sp = 'name-without-extension'
    else:
        sp = 'other'
    sig = {'format': ft, 'spelling': sp}
    if changed:
        # which file was hit, relative to the file the call is about
        tgt = name if (ft == 'fistr' or name.endswith(ext)) else name + '.' + ext
        q = sorted(changed)[0]
        if q == tgt:
            sig['victim'] = '<target>'
        elif q.startswith(tgt):
            sig['victim'] = '<target>' + q[len(tgt):]
        elif q == name:
            sig['victim'] = '<name as typed>'
        else:
            sig['victim'] = q[len(dir_prefix(q)):]
    return sig


def case_descr(c):
    d = {'format': c['format'], 'name': c['name'], 'pre_existing': c['pre'],
         'kwargs': c['kwargs'], 'mesh': c['mesh'], 'pre_content': c['content'],
         'overwrite': c['kwargs'].get('overwrite', False)}
    return d


def check_property_on_impl(ctx, cases, res, n_known):
    """the property itself on the implementation's observed behaviour; ids of
    the cases that are a listed open finding are appended to n_known"""
    n_bad = 0
    for c in cases:
        r = res[c['id']]
        ok = not r['changed']
        sec = r.get('second')
        if ok and sec and sec['changed']:
            n_bad += 1
            sig = dict(signature_of(c, sec['changed']), history='second-write-same-object')
            ctx.violation(
                'impl-violation', dict(case_descr(c), history='write twice to the same name'),
                'the second write (no overwrite) leaves the files of the first unchanged',
                {'second_raised': sec['raised'], 'changed': sec['changed']},
                'C07_existing_files_unchanged / oracle on implementation (second call)',
                found_input=True, signature=sig,
                what=f"second write('{c['format']}', '{c['name']}') changed {sec['changed']}")
        if not ok:
            n_bad += 1
            known = ctx.violation(
                'impl-violation', case_descr(c),
                'every pre-existing file unchanged',
                {'raised': r['raised'], 'changed': r['changed'], 'new': r['new'],
                 'events': r['events']},
                'C07_existing_files_unchanged / oracle on implementation',
                found_input=True, signature=signature_of(c, r['changed']),
                what=f"write('{c['format']}', '{c['name']}') replaced {r['changed']}")
            if known:
                n_known.append(c['id'])
    return n_bad


REFUTED_HEADER = """(* GENERATED by /verif/harness/c07.py - do not edit.  For each format with an OPEN
   finding in known_findings.d/C07.json: the property fails in the model on the run the
   implementation made in this check (empty when there is no open finding). *)
From Coq Require Import String List.
Import ListNotations.
From FV.C07 Require Import Model.
From FV.C07.gen Require Import WriteCfg.
Open Scope string_scope.

"""


# ---------------------------------------------------------------- baseline
def cfg_to_json(cfg):
    return json.dumps([[ft, prog] for ft, prog in cfg], indent=0)


def load_baseline():
    """the last translation of the registered tree, committed: the hand model
    used when the translator cannot read the tree under test"""
    raw = json.loads((BASELINE_DIR / 'WriteCfg.json').read_text())
    cfg = [(ft, to_tuple(prog)) for ft, prog in raw]
    text = (BASELINE_DIR / 'WriteCfg.v').read_text()
    if c07_effects.emit(cfg) != text:
        raise RuntimeError('gen_baseline/WriteCfg.v and WriteCfg.json disagree')
    return cfg, text


def rebaseline():
    cfg, _ = c07_effects.translate('/repo')
    BASELINE_DIR.mkdir(exist_ok=True)
    (BASELINE_DIR / 'WriteCfg.json').write_text(cfg_to_json(cfg))
    (BASELINE_DIR / 'WriteCfg.v').write_text(c07_effects.emit(cfg))
    (BASELINE_DIR / 'AddExt.v').write_text(c07_addext.emit(c07_addext.rows('/repo')))
    print('baseline written from /repo:', [ft for ft, _ in cfg])
    return 0


# ---------------------------------------------------------------- path functions
def pathfun_validation(ctx, cfg, wide):
    """translator validation: the path expressions the translator produces for
    add_extension_if_needed / str(p)+suffix / p.parent/x / p.with_suffix, evaluated
    by Model.peval inside Coq, against the Python functions of the tree under test"""
    rows = []
    exts = sorted({e for e in EXT.values() if e})
    n = 400 if wide else 120
    for _ in range(n):
        ft = ctx.rng.choice([f for f in EXT if f != 'fistr'])
        nm = random_names(ctx, ft, 1)[0]
        rows.append([nm, ctx.rng.choice(exts), ctx.rng.choice(['.tmp', '.bak', '.inp', '']),
                     ctx.rng.choice(['hecmw_ctrl.dat', 'x'])])
    return rows


def addext_pexp(ext):
    """what the translator makes of self.add_extension_if_needed(file_name, ext) today"""
    import ast
    it = c07_effects.Interp(str(lib.REPO))
    fd = it.get_class('femio/fem_data.py', 'FEMData')
    call = ast.parse(f'self.add_extension_if_needed(file_name, {ext!r})', mode='eval').body
    v = it.ev(call, {'file_name': ('P', ('PName',))}, fd)
    return v[1] if v[0] == 'P' else None


def check_pathfun(ctx, rows, got):
    items = []
    skipped = 0
    for i, ((nm, ext, suf, sib), g) in enumerate(zip(rows, got)):
        pe = addext_pexp(ext)
        exp = []
        if pe is not None and g['addext'] is not None:
            exp.append((c07_effects.pexp_coq(pe), g['addext']))
        else:
            skipped += 1
        if g['with_suffix'] is not None and suf:
            exp.append((f'(PWithSuffix {lib.coq_str(suf)} PName)', g['with_suffix']))
        exp.append((f'(PSibling {lib.coq_str(sib)} PName)', g['sibling']))
        exp.append((f'(PSuffix {lib.coq_str(suf)} PName)', g['suffix']))
        conj = ' && '.join(f'String.eqb (peval {lib.coq_str(nm)} {pe_}) {lib.coq_str(v)}'
                           for pe_, v in exp)
        items.append(f'({i}, {conj})')
    txt = ['From Coq Require Import String List Bool. Import ListNotations.',
           'From FV.C07 Require Import Model.', 'Open Scope string_scope.',
           'Set Printing Width 100000.',
           'Definition cases : list (nat * bool) := [', ';\n'.join(items) + '].',
           'Goal True. idtac "@@ failing". Abort.',
           'Eval vm_compute in map fst (filter (fun c => negb (snd c)) cases).']
    rc, out, err = ctx.coq_eval('PathFun', '\n'.join(txt) + '\n', timeout=600)
    import re
    if rc != 0:
        return list(range(len(rows))), skipped
    t = lib.parse_marked(out).get('failing', '').split(':')[0]
    return [int(x) for x in re.findall(r'\d+', t)], skipped


# ---------------------------------------------------------------- main
def main(ctx):
    ctx.rule = ('every output format (and an unknown one) x spelling of the target name (fixed '
                'grid + random dotted / hidden / extension-letter names) x subset (<=3 files) of '
                'the paths the translated program, a static list, or a traced run into an empty '
                'directory touches, pre-populated (marker bytes / empty / the very output / its '
                'CRLF form) x element-type mixture x falsy overwrite spellings x second write; a '
                'case is non-trivial when at least one file pre-exists or the call creates a '
                'file; distinct = distinct (format, name, pre-existing set, kwargs, mesh, content)')
    ctx.trusted += [
        'translator /verif/translate/c07_effects.py (fail-closed Python-ast abstract interpreter)',
        'stubs for the absent stl/tvtk packages in harness/c07_impl.py (their writers create the '
        'file they are handed); open(), os.open, Path.exists, os.path.exists, os.unlink/remove/'
        'rename/replace traced by monkey-patching',
        'untrusted Python search for the oracle of each run; the run is verified by evaluating '
        'Model.run in Coq (vm_compute)',
    ]
    ctx.assumptions += ['files are only written through open()/the third-party writer handed the '
                        'path; directories are not files', 'overwrite falsy throughout',
                        'target names are normalised relative paths (no //, ./, trailing /)']
    # 1. translate; if the translator cannot read the tree: baseline model (tie H)
    tie = 'T'
    cfg = None
    open_formats = sorted({f['match']['format'] for f in ctx.findings
                           if f.get('property') == 'C07' and f.get('status') == 'open'
                           and 'format' in f.get('match', {})})
    try:
        if os.environ.get('C07_FORCE_BASELINE'):
            # test hook: exercise the T -> H fallback on a tree the translator can read
            raise c07_effects.TranslateError('forced by C07_FORCE_BASELINE')
        cfg, consumed = c07_effects.translate(str(lib.REPO))
        ctx.sources = consumed
    except (c07_effects.TranslateError, SyntaxError, RecursionError) as e:
        tie = 'H'
        ctx.log('translator cannot read the tree:', e)
        ctx.notes['translator_error'] = f'{type(e).__name__}: {e}'
        cfg, _ = load_baseline()
    text = c07_effects.emit(cfg, open_formats)
    lib.write_if_changed(lib.COQ / 'C07' / 'gen' / 'WriteCfg.v', text)
    refuted_v = lib.COQ / 'C07' / 'gen' / 'Refuted.v'
    lib.write_if_changed(refuted_v, REFUTED_HEADER + '(* nothing to refute in this run *)\n')
    wide = ctx.tier == 'thorough' or tie == 'H'
    ctx.notes['open_finding_formats'] = open_formats
    try:
        bcfg, btext = load_baseline()
        ctx.notes['baseline_matches_translation'] = (bcfg == cfg)
    except Exception as e:  # noqa
        ctx.notes['baseline_matches_translation'] = f'baseline unreadable: {e}'
    ctx.notes['addext_translation_is_Model_PAddExt'] = all(
        addext_pexp(e) == ('PIfEnds', e, ('PName',), ('PName',), ('PSuffix', '.' + e, ('PName',)))
        for e in sorted({x for x in EXT.values() if x}))

    # 1b. the translated extension-adding helper (rows format, extension, term)
    addext_v = lib.COQ / 'C07' / 'gen' / 'AddExt.v'
    try:
        if tie == 'H':
            raise c07_effects.TranslateError('baseline')
        rows_ae = c07_addext.rows(str(lib.REPO))
        lib.write_if_changed(addext_v, c07_addext.emit(rows_ae))
        ctx.notes['addext_rows'] = [[ft, ext, c07_effects.pexp_coq(e)] for ft, ext, e in rows_ae]
        ctx.notes['addext_rows_are_the_validated_terms'] = all(
            addext_pexp(ext) == e for _, ext, e in rows_ae)
    except (c07_effects.TranslateError, SyntaxError, RecursionError) as e:
        lib.write_if_changed(addext_v, (BASELINE_DIR / 'AddExt.v').read_text())
        ctx.notes['addext_rows'] = f'baseline gen_baseline/AddExt.v ({e})'

    # 2. proofs (against the translated program, or the baseline program)
    proof_ok, log = ctx.build_props('C07/Props.v')
    if not proof_ok:
        ctx.notes['build_log_tail'] = log[-1500:]
    elif ctx.tier == 'thorough':
        ctx.coqchk('C07/Props.v')
    if proof_ok:
        proof_ok, log = ctx.build_props('C07/PropsSpelling.v')
        if not proof_ok:
            ctx.notes['build_log_tail'] = log[-1500:]
        elif ctx.tier == 'thorough':
            first = ctx.notes.get('coqchk')
            ctx.coqchk('C07/PropsSpelling.v')
            ctx.notes['coqchk'] = {'Props': first, 'PropsSpelling': ctx.notes.get('coqchk')}

    # 3. model witness when the per-run obligation fails
    model_witnesses = []
    if not proof_ok:
        ok, log, _ = lib.coq_make(['C07/gen/WriteCfg.vo'])
        if ok:
            names = ['d/res', 'res', 'd/res.msh', 'd/res.inp']
            txt = ['From Coq Require Import String List. Import ListNotations.',
                   'From FV.C07 Require Import Model.', 'From FV.C07.gen Require Import WriteCfg.',
                   'Open Scope string_scope.', 'Set Printing Width 2000.',
                   'Definition oracles : list (list nat) := [[]; repeat 1 400].']
            for ft, _ in cfg:
                txt.append(f'Goal True. idtac "@@ {ft}". Abort.')
                txt.append(f'Eval vm_compute in (prog_ok {c07_effects.prog_name(ft)}, find_witness '
                           f'{c07_effects.prog_name(ft)} '
                           f'{lib.coq_list([lib.coq_str(n) for n in names])} oracles).')
            rc, out, err = ctx.coq_eval('Witness', '\n'.join(txt) + '\n')
            parts = lib.parse_marked(out)
            import re
            for ft, _ in cfg:
                t = parts.get(ft, '')
                mm = re.search(r'Some\s*\(\s*"([^"]*)"\s*,\s*"([^"]*)"', t)
                if '(false' in t.replace(' ', '').replace('=', '') or 'false,' in t:
                    model_witnesses.append((ft, mm.group(1) if mm else None,
                                            mm.group(2) if mm else None))
            ctx.notes['model_witnesses'] = model_witnesses

    # 4. implementation: probes, then correspondence + property oracle
    probes = probe_cases(ctx, cfg, wide)
    rows = pathfun_validation(ctx, cfg, wide)
    pres, pf_got = run_impl(ctx, probes, pathfun=rows, tag='_probe')
    cases2 = gen_cases(ctx, cfg, wide, probes, pres)
    # model witnesses are replayed first
    for ft, nm, q in model_witnesses:
        if nm is not None:
            mk_case(cases2, ft, nm, [q], stream='model-witness')
    res2, _ = run_impl(ctx, cases2)
    # one list of cases
    cases = list(probes)
    res = dict(pres)
    for c in cases2:
        r = res2[c['id']]
        c['id'] = len(cases)
        r['id'] = c['id']
        cases.append(c)
        res[c['id']] = r
    for c in cases:
        r = res[c['id']]
        ctx.count('format:' + c['format'])
        ctx.count('n_pre:%d' % len(c['pre']))
        ctx.count('stream:' + c['stream'])
        ctx.count('mesh:' + c['mesh'])
        ctx.count('content:' + c['content'])
        ctx.count('raised' if r['raised'] else 'succeeded')
        ctx.case([c['format'], c['name'], c['pre'], c['kwargs'], c['mesh'], c['content']],
                 nontrivial=bool(c['pre']) or bool(r['new']),
                 sample={'format': c['format'], 'name': c['name'], 'pre_existing': c['pre'],
                         'kwargs': c['kwargs'], 'impl': {k: r[k] for k in ('raised', 'events', 'changed', 'new')}})
    known_ids = []
    n_bad = check_property_on_impl(ctx, cases, res, known_ids)
    ctx.notes['search_evaluations'] = len(cases)
    ctx.notes['impl_property_failures'] = n_bad

    # 4b. translator validation of the path functions
    pf_bad, pf_skipped = check_pathfun(ctx, rows, pf_got)
    ctx.notes['path_function_validation'] = {'cases': len(rows), 'disagreements': len(pf_bad),
                                             'add_extension_not_translated': pf_skipped}
    for i in pf_bad[:3]:
        ctx.violation('correspondence', {'name': rows[i][0], 'ext': rows[i][1], 'suffix': rows[i][2],
                                         'sibling': rows[i][3]},
                      'Model.peval of the translated path expression = the Python path function',
                      pf_got[i], 'path-function validation (Model.peval)', found_input=False,
                      signature={'kind': 'path-function', 'name': rows[i][0]},
                      what='the model computes another file name than the implementation')

    # 5. correspondence: every observed run is a run of the model program
    progs = dict(cfg)
    corr_lines = []
    unmatched = []
    for c in cases:
        r = res[c['id']]
        ev = clean_events(r['events'], c['name'])
        prog = progs[c['format']]
        orc = match(prog, c['name'], set(c['pre']), ev, r['raised'])
        fu = 'None'
        if orc is None and r['raised'] and 'already exists' not in r['exc']:
            # an exception that is not a refusal (a mesh the writer cannot handle ...)
            orc, k = match_struck(prog, c['name'], set(c['pre']), ev, r['raised'])
            fu = f'(Some {k})'
            ctx.count('run cut by an unrelated exception')
        if orc is None:
            unmatched.append(c['id'])
            continue
        corr_lines.append((c['id'], c['format'], c['name'], c['pre'], orc, r['raised'], ev, fu))
        c['oracle'], c['fuel'] = orc, fu
    ok, log, _ = lib.coq_make(['C07/gen/WriteCfg.vo'])
    bad_ids = list(unmatched)
    chunk = 400
    for k in range(0, len(corr_lines), chunk):
        part = corr_lines[k:k + chunk]
        if not ok:
            bad_ids += [x[0] for x in part]
            continue
        txt = ['From Coq Require Import String List. Import ListNotations.',
               'From FV.C07 Require Import Model.', 'From FV.C07.gen Require Import WriteCfg.',
               'Open Scope string_scope.', 'Set Printing Width 100000.',
               'Definition cases : list (nat * bool) := [']
        items = []
        for (i, ft, nm, pre, orc, raised, ev, fu) in part:
            items.append(
                f'({i}, reproduces {lib.coq_str(nm)} {c07_effects.prog_name(ft)} '
                f'{lib.coq_list([lib.coq_str(q) for q in pre])} '
                f'{lib.coq_list([str(x) for x in orc])} {fu} {raised} '
                f'{lib.coq_list([lib.coq_str(e) for e in ev])})')
        txt.append(';\n'.join(items) + '].')
        txt.append('Goal True. idtac "@@ failing". Abort.')
        txt.append('Eval vm_compute in map fst (filter (fun c => negb (snd c)) cases).')
        rc, out, err = ctx.coq_eval(f'Corr{k // chunk}', '\n'.join(txt) + '\n', timeout=900)
        if rc != 0:
            ctx.log('correspondence file failed to compile', err[-500:])
            bad_ids += [x[0] for x in part]
        else:
            import re
            t = lib.parse_marked(out).get('failing', '')
            t = t.split(':')[0]
            bad_ids += [int(x) for x in re.findall(r'\d+', t)]
    ctx.corr = {'cases': len(cases), 'verified_in_coq': len(corr_lines) - (len(bad_ids) - len(unmatched)),
                'disagreements': len(bad_ids) + len(pf_bad), 'path_function_cases': len(rows)}
    if tie == 'T':
        ctx.notes['tie'] = 'T (effect programs re-translated from the tree under test) + trace correspondence'
    else:
        ctx.notes['tie'] = (f"H (translator could not read the tree: {ctx.notes['translator_error']}; "
                            f"baseline model + widened correspondence, {len(cases)} cases)")
    for i in bad_ids[:5]:
        c = cases[i]
        r = res[i]
        # a disagreement by itself is not a violation of the property; it
        # breaks the tie.  Report with the failing input if the property
        # fails on it (already reported above), else as tie-broken.
        if not r['changed']:
            ctx.violation('correspondence', case_descr(c),
                          'the observed event sequence is a run of the ' +
                          ('translated' if tie == 'T' else 'baseline') + ' program',
                          {'raised': r['raised'], 'events': r['events'], 'exc': r['exc'],
                           'tie': ctx.notes['tie']},
                          'correspondence C07 (Model.reproduces)', found_input=False,
                          signature={'format': c['format'], 'kind': 'correspondence'},
                          what='implementation run not reproduced by the model')
    # 5b. open known findings: the model exhibits them too (machine-checked refutation of
    #     the property for that format, on the run the implementation just made)
    ref = []
    done = set()
    for i in known_ids:
        c = cases[i]
        if c['format'] in done or 'oracle' not in c or i in bad_ids:
            continue
        done.add(c['format'])
        q = res[i]['changed'][0]
        nm = 'C07_refuted_' + c07_effects.prog_name(c['format'])[5:]
        ref.append(
            f'(* write({c["format"]!r}, {c["name"]!r}) with {c["pre"]} present: the implementation '
            f'changed {res[i]["changed"]};\n   this is the same run in the model *)\n'
            f'Theorem {nm} :\n  exists (name : string) (f0 : fsys) (o : list nat) (q : string) c,\n'
            f'    f0 q = Some c /\\ fs (snd (run name {c07_effects.prog_name(c["format"])} '
            f'(init_st f0 o))) q <> Some c.\nProof.\n'
            f'  exists {lib.coq_str(c["name"])}, (fs_of_list '
            f'{lib.coq_list([lib.coq_str(x) for x in c["pre"]])}), '
            f'{lib.coq_list([str(x) for x in c["oracle"]])}, {lib.coq_str(q)}, 0.\n'
            f'  split; vm_compute; [reflexivity|discriminate].\nQed.\n')
    if ref:
        lib.write_if_changed(refuted_v, REFUTED_HEADER + '\n'.join(ref))
        rok, rlog = ctx.build_props('C07/gen/Refuted.v', scan_dirs=[lib.COQ / 'C07'])
        ctx.notes['refuted'] = {'theorems': lib.theorem_names(refuted_v), 'checked': rok}
        if not rok:
            ctx.notes['refuted']['log'] = rlog[-800:]

    # 6. proof broken without a failing input
    if not proof_ok and n_bad == 0:
        bad = [o['name'] for o in ctx.obligations if not o['discharged']]
        ctx.violation('proof-broken', {'model_witnesses': model_witnesses, 'tie': ctx.notes['tie']},
                      'C07_cfg_ok by vm_compute', 'does not check',
                      ', '.join(bad), found_input=False, signature={'kind': 'proof-broken'})
    ctx.exhaustive = ctx.tier == 'thorough'
    return ctx.finish()


def replay(path):
    rp = json.loads(Path(path).read_text())
    c = rp['case']
    ctx = lib.Ctx('C07', 'quick', clear_replays=False)
    if 'format' not in c:
        print('nothing to replay on the implementation: ', json.dumps(rp, indent=1))
        return 1
    cases = []
    kw = dict(c.get('kwargs', {}))
    case = mk_case(cases, c['format'], c['name'], c['pre_existing'], kw, mesh=c.get('mesh'),
                   content=c.get('pre_content', 'marker'),
                   second=c.get('history') == 'write twice to the same name')
    r = run_impl(ctx, [case])[0][0]
    print('implementation:', json.dumps(r))
    try:
        cfg, _ = c07_effects.translate(str(lib.REPO))
    except c07_effects.TranslateError as e:
        print('translator cannot read the tree:', e, '- using the baseline model')
        cfg, _ = load_baseline()
    prog = dict(cfg)[c['format']]
    orc = match(prog, c['name'], set(c['pre_existing']), clean_events(r['events'], c['name']),
                r['raised'])
    print('model oracle reproducing this run:', orc)
    bad = bool(r['changed']) or bool(r.get('second') and r['second']['changed'])
    print('property', 'VIOLATED' if bad else 'holds', 'on this input')
    return 1 if bad else 0


if __name__ == '__main__':
    if len(sys.argv) > 2 and sys.argv[1] == 'replay':
        sys.exit(replay(sys.argv[2]))
    if len(sys.argv) > 1 and sys.argv[1] == 'rebaseline':
        sys.exit(rebaseline())
    tier = sys.argv[1] if len(sys.argv) > 1 else 'quick'
    sys.exit(main(lib.Ctx('C07', tier)))
