"""C07 — write() never changes an existing file unless overwrite=True."""
import itertools
import json
import subprocess
import sys
from pathlib import Path

sys.path.insert(0, str(Path(__file__).resolve().parent))
sys.path.insert(0, str(Path(__file__).resolve().parent.parent / 'translate'))
import lib  # noqa
import c07_effects  # noqa

FORMATS_RUNNABLE = ['fistr', 'ucd', 'obj', 'vtk', 'stl', 'vtu', 'polyvtk', 'vtp']
EXT = {'fistr': '', 'ucd': 'inp', 'obj': 'obj', 'vtk': 'vtk', 'stl': 'stl', 'vtu': 'vtu',
       'polyvtk': 'vtu', 'vtp': 'vtp'}


# ---------------------------------------------------------------- model in py
# (untrusted mirror of Model.v used only to *search* for an oracle; the run it
#  finds is then verified by evaluating Model.run inside Coq)
def ends_with(s, e):
    return s.endswith(e)


def dir_prefix(s):
    i = s.rfind('/')
    return s[:i + 1] if i >= 0 else ''


def peval(name, p):
    k = p[0]
    if k == 'PName':
        return name
    q = peval(name, p[2])
    if k == 'PAddExt':
        return q if q.endswith(p[1]) else q + '.' + p[1]
    if k == 'PSuffix':
        return q + p[1]
    if k == 'PSibling':
        return dir_prefix(q) + p[1]
    raise AssertionError(k)


def match(prog, name, pre, events, raised):
    """find an oracle (list of nat) such that running prog reproduces the
    event list and the outcome; returns the oracle or None.  Set-based matcher:
    m(p, i, created) -> {(outcome, i'): oracle}."""
    n = len(events)
    sys.setrecursionlimit(10000)

    def m(p, i, created):
        k = p[0]
        if k == 'Skip':
            return {('N', i, created): []}
        if k == 'Return':
            return {('R', i, created): []}
        if k == 'Raise':
            return {('X', i, created): []}
        if k == 'Guard':
            q = peval(name, p[1])
            if i < n and events[i] == 'G ' + q:
                ex = q in pre or q in created
                return {(('X' if ex else 'N'), i + 1, created): []}
            return {}
        if k in ('Create', 'Append'):
            q = peval(name, p[1])
            tag = 'C ' if k == 'Create' else 'A '
            if i < n and events[i] == tag + q:
                return {('N', i + 1, created | frozenset([q])): []}
            return {}
        if k == 'Seq':
            out = {}
            for (o, j, c), orc in m(p[1], i, created).items():
                if o != 'N':
                    out.setdefault((o, j, c), orc)
                else:
                    for key, orc2 in m(p[2], j, c).items():
                        out.setdefault(key, orc + orc2)
            return out
        if k == 'If':
            out = {}
            for key, orc in m(p[1], i, created).items():
                out.setdefault(key, [1] + orc)
            for key, orc in m(p[2], i, created).items():
                out.setdefault(key, [0] + orc)
            return out
        if k == 'Call':
            out = {}
            for (o, j, c), orc in m(p[1], i, created).items():
                out.setdefault((('N' if o == 'R' else o), j, c), orc)
            return out
        if k == 'Loop':
            # states after exactly t iterations, all Normal
            out = {('N', i, created): [0]}
            frontier = {(i, created): []}
            seen = {(i, created)}
            t = 0
            while frontier and t < 400:
                t += 1
                nxt = {}
                for (j, c), orc in frontier.items():
                    for (o, j2, c2), orc2 in m(p[1], j, c).items():
                        full = orc + orc2
                        if o == 'N':
                            out.setdefault(('N', j2, c2), [t] + full)
                            if (j2, c2) not in seen:
                                seen.add((j2, c2))
                                nxt[(j2, c2)] = full
                        else:
                            out.setdefault((o, j2, c2), [t] + full)
                frontier = nxt
            return out
        raise AssertionError(k)

    res = m(prog, 0, frozenset())
    for (o, j, c), orc in res.items():
        if j == n and ((o == 'X') == bool(raised)):
            return orc
    return None


def all_pexps(p):
    k = p[0]
    if k in ('Guard', 'Create', 'Append'):
        return [p[1]]
    out = []
    for c in p[1:]:
        if isinstance(c, tuple):
            out += all_pexps(c)
    return out


def written_pexps(p):
    k = p[0]
    if k in ('Create', 'Append'):
        return [p[1]]
    if k == 'Guard':
        return []
    out = []
    for c in p[1:]:
        if isinstance(c, tuple):
            out += written_pexps(c)
    return out


# ---------------------------------------------------------------- impl runner
def run_impl(ctx, cases):
    spec = {'work': str(ctx.scratch / 'work'), 'out': str(ctx.scratch / 'impl_out.json'),
            'cases': cases}
    (ctx.scratch / 'work').mkdir(exist_ok=True)
    r = subprocess.run([lib.PY, str(lib.VERIF / 'harness' / 'c07_impl.py')],
                       input=json.dumps(spec), text=True, capture_output=True,
                       env=lib.impl_env(), timeout=900)
    if r.returncode != 0:
        raise RuntimeError('impl runner failed: ' + r.stderr[-2000:])
    res = json.loads(Path(spec['out']).read_text())
    return {x['id']: x for x in res}


def spellings(ft):
    ext = EXT[ft]
    if ft == 'fistr':
        return ['d/res', 'res', 'new/sub/res', 'd/res.msh']
    return ['d/res', 'd/res.' + ext, 'd/res' + ext, 'res', 'new/sub/res', 'd/res.' + ext + '.' + ext]


def mesh_for(ft):
    return 'shell' if ft == 'vtp' else 'solid'


def static_targets(ft, name):
    """paths a writer of this format can be expected to use, independent of
    the translation (so that the search still works when the tie is broken)"""
    if ft == 'fistr':
        return {name, name + '.msh', name + '.cnt', dir_prefix(name) + 'hecmw_ctrl.dat'}
    ext = EXT[ft]
    return {name, name + '.' + ext}


def gen_cases(ctx, cfg):
    cases = []
    for ft, prog in cfg:
        for name in spellings(ft):
            tg = sorted(set(peval(name, e) for e in all_pexps(prog)) | static_targets(ft, name))
            subsets = []
            for r in range(0, min(len(tg), 3) + 1):
                subsets += list(itertools.combinations(tg, r))
            if ctx.tier == 'quick' and len(subsets) > 8:
                keep = subsets[:1 + len(tg)]
                rest = subsets[1 + len(tg):]
                ctx.rng.shuffle(rest)
                subsets = keep + rest[:3]
            for pre in subsets:
                kws = [{}]
                if ft == 'fistr':
                    kws = [{}, {'write_msh_only': True}]
                # falsy spellings of "no overwrite" behave like the default
                if len(pre) <= 1 and name == spellings(ft)[0]:
                    kws = kws + [dict(k, overwrite=v) for k in kws[:1] for v in (None, 0, False)]
                for kw in kws:
                    cases.append({'id': len(cases), 'format': ft, 'name': name,
                                  'pre': list(pre), 'kwargs': kw, 'mesh': mesh_for(ft),
                                  # history: a second write of the same object to the same name
                                  'second_call': not pre and not kw})
    return cases


def clean_events(ev, name):
    """drop existence tests on parent directories of the typed name"""
    out = []
    for e in ev:
        if e.startswith('G '):
            q = e[2:]
            if name.startswith(q + '/'):
                continue
        out.append(e)
    return out


def signature_of(case):
    ft, name = case['format'], case['name']
    ext = EXT[ft]
    if ft != 'fistr' and not name.endswith(ext):
        sp = 'name-without-extension'
    else:
        sp = 'other'
    return {'format': ft, 'spelling': sp}


def check_property_on_impl(ctx, cases, res):
    """the property itself on the implementation's observed behaviour"""
    n_bad = 0
    for c in cases:
        r = res[c['id']]
        ok = not r['changed']
        sec = r.get('second')
        if ok and sec and sec['changed']:
            n_bad += 1
            sig = dict(signature_of(c), history='second-write-same-object')
            ctx.violation(
                'impl-violation',
                {'format': c['format'], 'name': c['name'], 'pre_existing': c['pre'],
                 'kwargs': c['kwargs'], 'overwrite': False, 'history': 'write twice to the same name'},
                'the second write (no overwrite) leaves the files of the first unchanged',
                {'second_raised': sec['raised'], 'changed': sec['changed']},
                'C07_existing_files_unchanged / oracle on implementation (second call)',
                found_input=True, signature=sig,
                what=f"second write('{c['format']}', '{c['name']}') changed {sec['changed']}")
        if not ok:
            n_bad += 1
            known = ctx.violation(
                'impl-violation',
                {'format': c['format'], 'name': c['name'], 'pre_existing': c['pre'],
                 'kwargs': c['kwargs'], 'overwrite': False},
                'every pre-existing file unchanged',
                {'raised': r['raised'], 'changed': r['changed'], 'new': r['new'],
                 'events': r['events']},
                'C07_existing_files_unchanged / oracle on implementation',
                found_input=True, signature=signature_of(c),
                what=f"write('{c['format']}', '{c['name']}') replaced {r['changed']}")
    return n_bad


def main(ctx):
    ctx.rule = ('every output format x spelling of the target name x subset (<=3 files) of the '
                'paths the translated program may touch pre-populated; a case is non-trivial when '
                'at least one file pre-exists or the call creates a file; distinct = distinct '
                '(format, name, pre-existing set, kwargs)')
    ctx.trusted += [
        'translator /verif/translate/c07_effects.py (fail-closed Python-ast abstract interpreter)',
        'stubs for the absent stl/tvtk packages in harness/c07_impl.py (their writers create the '
        'file they are handed); meshio.write, open(), Path.exists traced by monkey-patching',
        'untrusted Python search for the oracle of each run; the run is verified by evaluating '
        'Model.run in Coq (vm_compute)',
    ]
    ctx.assumptions += ['files are only written through open()/the third-party writer handed the '
                        'path; directories are not files', 'overwrite=False throughout']
    # 1. translate
    tie_ok = True
    cfg = None
    try:
        cfg, consumed = c07_effects.translate(str(lib.REPO))
        ctx.sources = consumed
        lib.write_if_changed(lib.COQ / 'C07' / 'gen' / 'WriteCfg.v', c07_effects.emit(cfg))
    except c07_effects.TranslateError as e:
        tie_ok = False
        ctx.log('translator failed closed:', e)
        ctx.notes['translator_error'] = str(e)
    except SyntaxError as e:
        tie_ok = False
        ctx.notes['translator_error'] = 'syntax error: ' + str(e)

    # 2. proofs
    proof_ok = False
    if tie_ok:
        proof_ok, log = ctx.build_props('C07/Props.v')
        if not proof_ok:
            ctx.notes['build_log_tail'] = log[-1500:]
        elif ctx.tier == 'thorough':
            ctx.coqchk('C07/Props.v')
    else:
        for n in lib.theorem_names(lib.COQ / 'C07' / 'Props.v'):
            ctx.obligations.append({'name': n, 'discharged': False, 'assumptions': [],
                                    'note': 'translator failed closed'})

    # 3. model witness when the per-run obligation fails
    model_witnesses = []
    if tie_ok and not proof_ok:
        ok, log, _ = lib.coq_make(['C07/gen/WriteCfg.vo'])
        if ok:
            names = ['d/res', 'res', 'd/res.msh']
            txt = ['From Coq Require Import String List. Import ListNotations.',
                   'From FV.C07 Require Import Model.', 'From FV.C07.gen Require Import WriteCfg.',
                   'Open Scope string_scope.', 'Set Printing Width 2000.',
                   'Definition oracles : list (list nat) := [[]; repeat 1 400].']
            for ft, _ in cfg:
                txt.append(f'Goal True. idtac "@@ {ft}". Abort.')
                txt.append(f'Eval vm_compute in (prog_ok prog_{ft}, find_witness prog_{ft} '
                           f'{lib.coq_list([lib.coq_str(n) for n in names])} oracles).')
            rc, out, err = ctx.coq_eval('Witness', '\n'.join(txt) + '\n')
            parts = lib.parse_marked(out)
            import re
            for ft, _ in cfg:
                t = parts.get(ft, '')
                mm = re.search(r'Some\s*\(\s*"([^"]*)"\s*,\s*"([^"]*)"', t)
                if '(false' in t.replace(' ', '').replace('=', '') or 'false,' in t:
                    model_witnesses.append((ft, mm.group(1) if mm else None,
                                            mm.group(2) if mm else None))
            ctx.notes['model_witnesses'] = model_witnesses

    # 4. implementation: correspondence + property oracle
    if cfg is None:
        # tie broken: case generation falls back to the static target list
        cfg = [(ft, ('Skip',)) for ft in FORMATS_RUNNABLE]
    cases = gen_cases(ctx, cfg)
    # model witnesses are replayed first
    for ft, nm, q in model_witnesses:
        if nm is not None:
            cases.append({'id': len(cases), 'format': ft, 'name': nm, 'pre': [q], 'kwargs': {},
                          'mesh': mesh_for(ft), 'from_model': True})
    res = run_impl(ctx, cases)
    for c in cases:
        r = res[c['id']]
        ctx.count('format:' + c['format'])
        ctx.count('n_pre:%d' % len(c['pre']))
        ctx.count('raised' if r['raised'] else 'succeeded')
        ctx.case([c['format'], c['name'], c['pre'], c['kwargs']],
                 nontrivial=bool(c['pre']) or bool(r['new']),
                 sample={'format': c['format'], 'name': c['name'], 'pre_existing': c['pre'],
                         'kwargs': c['kwargs'], 'impl': {k: r[k] for k in ('raised', 'events', 'changed', 'new')}})
    n_bad = check_property_on_impl(ctx, cases, res)
    ctx.notes['search_evaluations'] = len(cases)
    ctx.notes['impl_property_failures'] = n_bad

    # 5. correspondence: every observed run is a run of the translated program
    progs = dict(cfg)
    corr_lines = []
    unmatched = []
    if tie_ok:
        for c in cases:
            r = res[c['id']]
            ev = clean_events(r['events'], c['name'])
            prog = progs[c['format']]
            orc = match(prog, c['name'], set(c['pre']), ev, r['raised'])
            if orc is None:
                unmatched.append(c['id'])
                continue
            corr_lines.append((c['id'], c['format'], c['name'], c['pre'], orc, r['raised'], ev))
        ok, log, _ = lib.coq_make(['C07/gen/WriteCfg.vo'])
        bad_ids = list(unmatched)
        if ok and corr_lines:
            txt = ['From Coq Require Import String List. Import ListNotations.',
                   'From FV.C07 Require Import Model.', 'From FV.C07.gen Require Import WriteCfg.',
                   'Open Scope string_scope.', 'Set Printing Width 100000.',
                   'Definition cases : list (nat * bool) := [']
            items = []
            for (i, ft, nm, pre, orc, raised, ev) in corr_lines:
                items.append(
                    f'({i}, reproduces {lib.coq_str(nm)} prog_{ft} '
                    f'{lib.coq_list([lib.coq_str(q) for q in pre])} '
                    f'{lib.coq_list([str(x) for x in orc])} {raised} '
                    f'{lib.coq_list([lib.coq_str(e) for e in ev])})')
            txt.append(';\n'.join(items) + '].')
            txt.append('Goal True. idtac "@@ failing". Abort.')
            txt.append('Eval vm_compute in map fst (filter (fun c => negb (snd c)) cases).')
            rc, out, err = ctx.coq_eval('Corr', '\n'.join(txt) + '\n', timeout=900)
            if rc != 0:
                ctx.log('correspondence file failed to compile', err[-500:])
                bad_ids += [x[0] for x in corr_lines]
            else:
                import re
                t = lib.parse_marked(out).get('failing', '')
                t = t.split(':')[0]
                bad_ids += [int(x) for x in re.findall(r'\d+', t)]
        ctx.corr = {'cases': len(cases), 'verified_in_coq': len(corr_lines) - (len(bad_ids) - len(unmatched)),
                    'disagreements': len(bad_ids)}
        for i in bad_ids[:5]:
            c = cases[i]
            r = res[i]
            # a disagreement by itself is not a violation of the property; it
            # breaks the tie.  Report with the failing input if the property
            # fails on it (already reported above), else as tie-broken.
            if not r['changed']:
                ctx.violation('correspondence',
                              {'format': c['format'], 'name': c['name'], 'pre_existing': c['pre'],
                               'kwargs': c['kwargs']},
                              'the observed event sequence is a run of the translated program',
                              {'raised': r['raised'], 'events': r['events'], 'exc': r['exc']},
                              'correspondence C07 (Model.reproduces)', found_input=False,
                              signature={'format': c['format'], 'kind': 'correspondence'},
                              what='implementation run not reproduced by the model')
    # 6. proof / tie broken without a failing input
    if not tie_ok and n_bad == 0:
        ctx.violation('tie-broken', {'translator_error': ctx.notes.get('translator_error')},
                      'translator accepts FEMData.write and the writers', 'fail-closed',
                      'translator c07_effects (C07_cfg_ok cannot be regenerated)',
                      found_input=False, signature={'kind': 'tie-broken'})
    if tie_ok and not proof_ok and n_bad == 0:
        bad = [o['name'] for o in ctx.obligations if not o['discharged']]
        ctx.violation('proof-broken', {'model_witnesses': model_witnesses},
                      'C07_cfg_ok by vm_compute', 'does not check',
                      ', '.join(bad), found_input=False, signature={'kind': 'proof-broken'})
    ctx.exhaustive = ctx.tier == 'thorough'
    return ctx.finish()


def replay(path):
    rp = json.loads(Path(path).read_text())
    c = rp['case']
    ctx = lib.Ctx('C07', 'quick', clear_replays=False)
    if 'format' not in c:
        print('nothing to replay on the implementation: ', json.dumps(rp, indent=1))
        return 1
    case = {'id': 0, 'format': c['format'], 'name': c['name'], 'pre': c['pre_existing'],
            'kwargs': c.get('kwargs', {}), 'mesh': mesh_for(c['format'])}
    r = run_impl(ctx, [case])[0]
    print('implementation:', json.dumps(r))
    try:
        cfg, _ = c07_effects.translate(str(lib.REPO))
        prog = dict(cfg)[c['format']]
        orc = match(prog, c['name'], set(c['pre_existing']), clean_events(r['events'], c['name']),
                    r['raised'])
        print('model oracle reproducing this run:', orc)
    except c07_effects.TranslateError as e:
        print('translator failed closed:', e)
    bad = bool(r['changed'])
    print('property', 'VIOLATED' if bad else 'holds', 'on this input')
    return 1 if bad else 0


if __name__ == '__main__':
    if len(sys.argv) > 2 and sys.argv[1] == 'replay':
        sys.exit(replay(sys.argv[2]))
    tier = sys.argv[1] if len(sys.argv) > 1 else 'quick'
    sys.exit(main(lib.Ctx('C07', tier)))
