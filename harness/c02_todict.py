"""C02 -- correspondence stream for ToDict.v: femio's StringSeries.to_dict_fem_attributes called
directly vs ToDict.to_dict_padded (the padded str.split(expand=True) table, numpy's clipping
column slice, float() of every cell) evaluated in Coq.  Own random stream (does not touch ctx.rng)."""
import json
import random
import subprocess
from pathlib import Path

import lib


def gen(rng, cid, tok, gen_value):
    k = rng.choice([1, 2, 2, 3])
    names = rng.sample(['A', 'DISP', 'NodalSTRESS', 'x', 'E1', '*Aux', 'Q9'], k)
    cn = [rng.choice([1, 1, 2, 3, 4]) for _ in names]
    total = sum(cn)
    n = rng.choice([1, 2, 3, 5])
    kind = rng.choice(['full', 'full', 'extra', 'short_all', 'short_all', 'ragged'])
    ids = rng.sample(range(1, 10 ** 6), n)
    widths = [total] * n
    if kind == 'extra':
        widths = [total + rng.choice([1, 2])] * n
    elif kind == 'short_all':
        widths = [max(0, total - rng.choice([1, 1, 2, 3]))] * n
    elif kind == 'ragged':
        if n == 1:
            kind = 'full'
        else:
            j = rng.randrange(n)
            widths[j] = max(0, total - rng.choice([1, 2]))
    rows = [[str(i)] + [tok(gen_value(rng)) for _ in range(w)] for i, w in zip(ids, widths)]
    return {'id': cid, 'kind': kind, 'names': names, 'cn': cn, 'rows': rows, 'lines': [' '.join(r) for r in rows]}


def run(ctx, c02, n_cases):
    rng = random.Random(f'C02-todict:{ctx.seed}')
    cases = [gen(rng, i, c02.tok, c02.gen_value) for i in range(n_cases)]
    spec = {'out': str(ctx.scratch / 'todict_out.json'), 'cases': cases}
    r = subprocess.run([lib.PY, str(lib.VERIF / 'harness' / 'c02_todict_impl.py')], input=json.dumps(spec),
                       text=True, capture_output=True, env=lib.impl_env(), timeout=600)
    if r.returncode != 0:
        ctx.log('to_dict child failed:', r.stderr[-500:])
        ctx.violation('correspondence', {'stream': 'to_dict'}, 'child process runs', r.stderr[-300:],
                      'correspondence C02 (ToDict.to_dict_padded)', found_input=False,
                      signature={'kind': 'to_dict-child-failed'})
        return
    res = {x['id']: x for x in json.loads(Path(spec['out']).read_text())}
    cS = c02.cS
    txt = list(c02.HEADER) + ['From FV.C02 Require Import ToDict.']
    items = []
    for c in cases:
        o = res[c['id']]
        ctx.count('to_dict:' + c['kind'] + (':raised' if 'error' in o else ':ok'))
        rows = lib.coq_list([lib.coq_list([cS(t) for t in r]) for r in c['rows']])
        names = lib.coq_list([cS(x) for x in c['names']])
        cn = lib.coq_list([str(x) for x in c['cn']])
        if 'error' in o:
            obs = 'None'
        else:
            obs = '(Some ' + lib.coq_list([f"({cS(k)}, {c02.coq_table(tb)})" for k, tb in o['vars']]) + ')'
        nan = cS('NAN')
        items.append(f"({c['id']}, res_agree (named_eqb str_eqb) (to_dict_padded str tparse {nan} {rows} {names} {cn}) {obs})")
    txt.append(f'Definition casesT : list (nat * bool) := {lib.coq_list(items)}.')
    txt.append('Goal True. idtac "@@ T". Abort.')
    txt.append('Eval vm_compute in map fst (filter (fun c => negb (snd c)) casesT).')
    rc, out, err = ctx.coq_eval('ToDictCorr', '\n'.join(txt) + '\n')
    if rc != 0:
        ctx.log('to_dict correspondence file failed to compile:', err[-500:])
        bad = [c['id'] for c in cases]
    else:
        bad = c02.failing(out, 'T')
    ctx.corr['to_dict_cases'] = len(cases)
    ctx.corr['to_dict_disagreements'] = len(bad)
    by_id = {c['id']: c for c in cases}
    for cid in bad:
        c = by_id[cid]
        ctx.violation('correspondence', {'stream': 'to_dict', 'names': c['names'], 'component_nums': c['cn'],
                                         'lines': c['lines']},
                      'ToDict.to_dict_padded = StringSeries.to_dict_fem_attributes', res[cid],
                      'correspondence C02 (ToDict.to_dict_padded)', found_input=False,
                      signature={'kind': 'to_dict-correspondence', 'rows': c['kind']})
    ctx.log(f'to_dict stream: {len(cases)} tables, {len(bad)} disagreements')
