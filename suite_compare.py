#!/usr/bin/env python3
"""compare a junit xml with /root/.vp/BASELINE.json stable_pass"""
import json, sys, xml.etree.ElementTree as ET
base = set(json.load(open('/root/.vp/BASELINE.json'))['stable_pass'])
t = ET.parse(sys.argv[1])
passed = set()
for tc in t.iter('testcase'):
    if not any(c.tag in ('failure', 'error', 'skipped') for c in tc):
        passed.add(f"{tc.get('classname')}::{tc.get('name')}")
print('passed', len(passed), 'baseline', len(base), 'missing', sorted(base - passed), 'extra', len(passed - base))
