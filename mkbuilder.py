#!/usr/bin/env python3
import sys, subprocess
P = sys.argv[1]; spec = sys.argv[2] if len(sys.argv) > 2 else ''
missed = subprocess.run("python3 /verif/seed_status.py | grep '| %s ' | grep missed | awk -F'|' '{print $3}'" % P, shell=True, capture_output=True, text=True).stdout.split()
s = ''
if missed:
    s += '* Seeds your check currently MISSES (seeded/%s/<slug>/): %s. Priority 2 of the addendum.\n' % (P, ', '.join(missed))
else:
    s += '* No stored seed is currently missed by your check; new r5-* seeds or benign/ patches may still arrive. Spend most of your time on priority 3 (extension: more anchored code in the Coq model, stronger theorems, translated ties with translator validation).\n'
if spec: s += '* ' + spec + '\n'
print(open('/verif/builder_prompt.txt').read().format(P=P, pl=P.lower(), SPEC=s))
