#!/bin/bash
# ./seed_import_r2.sh Cxx — import all round-2 seeds of a property (slugs prefixed r2-)
cd "$(dirname "$0")"
P="$1"; p=$(echo $P | tr A-Z a-z)
for s in /tmp/seed2/$p/seeded/*/; do
  [ -f "$s/patch.diff" ] || continue
  SLUG_PREFIX=r2- ./seed_import.sh "$P" "$s"
done 2>&1 | grep -E "^C[0-9]+ |PATCH"
