#!/bin/bash
# ./runall.sh [tier] [jobs]  — run every claimed check on /repo, N at a time; summary at the end
cd "$(dirname "$0")"
tier="${1:-quick}"; jobs="${2:-4}"
mkdir -p build/runall
ids=$(python3 -c "import json; print(' '.join(c['property_id'] for c in json.load(open('MANIFEST.json'))['checks']))")
run1() { p=$1; s=$(date +%s); flock build/.seed_$p.lock ./check $p --tier $2 > build/runall/$p.log 2>&1; rc=$?; e=$(date +%s);
  echo "$p exit=$rc wall=$((e-s))s viol=$(grep -c '^VIOLATION' build/runall/$p.log) known=$(grep -c '^KNOWN-FINDING' build/runall/$p.log) | $(tail -1 build/runall/$p.log | cut -c1-100)"; }
export -f run1
echo $ids | tr ' ' '\n' | xargs -P "$jobs" -I{} bash -c "run1 {} $tier" | sort
