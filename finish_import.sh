#!/bin/bash
# ./finish_import.sh Cxx slug — complete an interrupted seed import (directory has meta.orig.json but no meta.json)
cd "$(dirname "$0")"
P="$1"; slug="$2"; d="seeded/$P/$slug"
[ -f "$d/meta.json" ] && { echo "$P $slug already complete"; exit 0; }
tmp=/tmp/reimp_$$/$slug; mkdir -p "$tmp"
cp "$d/patch.diff" "$d/demo.py" "$tmp/"; cp "$d/meta.orig.json" "$tmp/meta.json"
rm -rf "$d"
SLUG_PREFIX= ./seed_import.sh "$P" "$tmp" 2>&1 | grep -E "^C[0-9]+ |PATCH"
rm -rf /tmp/reimp_$$
