#!/bin/bash
# ./import_prop.sh benign|seed Cxx — import every finished artefact of a property from its scratch worktree, then drop the worktree
cd "$(dirname "$0")"
kind="$1"; P="$2"
if [ "$kind" = benign ]; then
  wt=/tmp/bn/wt_$P
  for s in $wt/benign/*/; do [ -f "$s/patch.diff" ] && [ -f "$s/equiv.py" ] || continue; ./benign_import.sh "$P" "$s" nosuite; done
else
  wt=/tmp/${SEED_DIR:-seed5}/wt_$P
  for s in $wt/seeded/*/; do [ -f "$s/patch.diff" ] && [ -f "$s/demo.py" ] || continue; SLUG_PREFIX=${SEED_PREFIX:-r5-} ./seed_import.sh "$P" "$s"; done
fi 2>&1 | grep -E "^C[0-9]+ |PATCH"
git -C /repo worktree remove --force "$wt" 2>/dev/null
[ -d "${wt}_clean" ] && git -C /repo worktree remove --force "${wt}_clean" 2>/dev/null
true
