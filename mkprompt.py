#!/usr/bin/env python3
"""mkprompt.py seed|benign Cxx N WT [with-anchors] -> prompt text on stdout (property text only; nothing from /verif)"""
import json, sys
kind, pid, n, wt = sys.argv[1:5]
props = {json.loads(l)['id']: json.loads(l) for l in open('/verif/properties.jsonl')}
p = props[pid]
if kind == 'seed':
    txt = f"{p['title']}\n\n{p['statement']}\n\nQuantifier: {p['quantifier']['text']}"
    if len(sys.argv) > 5:
        txt += "\n\nAnchors: " + json.dumps(p['anchors'], indent=1)
    tpl = open('/verif/seed_prompt.txt').read()
else:
    txt = f"{p['title']}\n\n{p['statement']}\n\nQuantifier: {p['quantifier']['text']}\n\nAnchors: " + json.dumps(p['anchors'], indent=1)
    tpl = open('/verif/benign_prompt.txt').read()
print(tpl.format(WT=wt, PROP=txt, N=n, PID=pid))
