#!/bin/bash
# offline setup: build the whole Coq development from the files on disk.
# A proof that no longer checks does not fail the setup: the per-property
# check reports it.
cd "$(dirname "$0")"
mkdir -p build evidence/replay
export PYTHONHASHSEED=0 PYTHONPATH=/repo
/venv/bin/python - <<'PY'
import sys
sys.path.insert(0, 'harness')
import lib
lib.regen_project()
PY
cd coq && timeout 3000 make -k -j16 > ../build/setup_make.log 2>&1
echo "setup: make exit $? (log: build/setup_make.log)"
exit 0
