#!/bin/bash
# ./seed_import_round.sh <round n> Cxx — import all seeds of that round for a property (slugs prefixed rN-)
cd "$(dirname "$0")"
n="$1"; P="$2"; p=$(echo $P | tr A-Z a-z)
for s in /tmp/seed$n/$p/seeded/*/; do
  [ -f "$s/patch.diff" ] || continue
  SLUG_PREFIX=r$n- ./seed_import.sh "$P" "$s"
done 2>&1 | grep -E "^C[0-9]+ |PATCH"
