#!/bin/bash
# ./benign_import.sh Cxx <dir with patch.diff equiv.py meta.json> [nosuite]
# A behaviour-preserving change made by an independent sub-agent (given only the
# property text and its anchors).  Confirms it (equiv.py: clean tree vs patched
# tree identical; full test suite still matches the baseline), runs the check of
# Cxx against the patched tree and records whether the check stays QUIET (wanted)
# or raises an ALARM.  Stored under /verif/benign/Cxx/<slug>/.
set -u
cd "$(dirname "$0")"
pid="$1"; src="$(readlink -f "$2")"; nosuite="${3:-}"
slug="${SLUG_PREFIX:-}$(basename "$src")"
dst="/verif/benign/$pid/$slug"; mkdir -p "$dst"
cp "$src/patch.diff" "$src/equiv.py" "$dst/"; cp "$src/meta.json" "$dst/meta.orig.json" 2>/dev/null
wt="/tmp/bi_${pid}_${slug}_$$"; wc="/tmp/bic_${pid}_${slug}_$$"
git -C /repo worktree add --detach "$wt" HEAD -q || exit 2
git -C /repo worktree add --detach "$wc" HEAD -q || exit 2
if ! git -C "$wt" apply "$dst/patch.diff" && ! git -C "$wt" apply -3 "$dst/patch.diff"; then echo "PATCH-DOES-NOT-APPLY"; git -C /repo worktree remove --force "$wt"; git -C /repo worktree remove --force "$wc"; exit 2; fi
git -C "$wt" add -N . 2>/dev/null; git -C "$wt" diff HEAD > "$dst/patch.diff"
( cd /tmp && timeout 900 /venv/bin/python "$dst/equiv.py" "$wc" "$wt" > "$dst/equiv.log" 2>&1 ); rc_equiv=$?
git -C /repo worktree remove --force "$wc"
suite="skipped"
if [ -z "$nosuite" ]; then
  ( cd "$wt" && timeout 3000 /venv/bin/python -m pytest -q -p no:cacheprovider --timeout=900 --continue-on-collection-errors --junitxml="/verif/build/bi_${pid}_${slug}.xml" > /dev/null 2>&1 )
  suite="$(python3 suite_compare.py "/verif/build/bi_${pid}_${slug}.xml")"
fi
FEMIO_REPO="$wt" flock "build/.seed_${pid}.lock" ./check "$pid" --tier quick > "build/bi_${pid}_${slug}.log" 2>&1; rc_check=$?
grep -E "^(VIOLATION|KNOWN-FINDING)" "build/bi_${pid}_${slug}.log" | head -5 > "$dst/check_output.txt"
git -C /repo worktree remove --force "$wt"
python3 - "$dst" "$pid" "$slug" "$rc_equiv" "$suite" "$rc_check" <<'PY'
import json, sys, os
dst, pid, slug, rc_equiv, suite, rc_check = sys.argv[1:]
meta = {}
try: meta = json.load(open(os.path.join(dst, 'meta.orig.json')))
except Exception: pass
meta.update({'property': pid, 'slug': slug,
  'confirmed': {'equiv_exit': int(rc_equiv), 'full_suite_on_patched_tree': suite,
                'how': 'benign_import.sh: scratch worktrees of /repo HEAD; equiv.py <clean> <patched> must exit 0; full pytest suite on the patched tree compared with BASELINE.json stable_pass; ./check run with FEMIO_REPO=<patched worktree>'},
  'check': {'cmd': f'./check {pid} --tier quick', 'exit': int(rc_check), 'quiet': int(rc_check) == 0,
            'output': open(os.path.join(dst, 'check_output.txt')).read().splitlines()}})
json.dump(meta, open(os.path.join(dst, 'meta.json'), 'w'), indent=1)
print(pid, slug, 'equiv', rc_equiv, '| suite', suite, '| check exit', rc_check, 'QUIET' if int(rc_check) == 0 else 'ALARM')
PY
rm -f "$dst/meta.orig.json"
