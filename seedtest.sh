#!/bin/bash
# ./seedtest.sh Cxx <patch.diff> [tier]  — run the check of Cxx against a scratch
# worktree of /repo with the patch applied (never touches /repo's working tree).
# Prints DETECTED / MISSED and the VIOLATION lines.  Takes no lock itself (callers may hold
# build/.seed_Cxx.lock already): call it as `flock build/.seed_Cxx.lock ./seedtest.sh Cxx ...`.
set -u
cd "$(dirname "$0")"
pid="$1"; patch="$(readlink -f "$2")"; tier="${3:-quick}"
wt="/tmp/st_${pid}_$$"
git -C /repo worktree add --detach "$wt" HEAD -q || exit 2
if ! git -C "$wt" apply "$patch"; then echo "PATCH-DOES-NOT-APPLY"; git -C /repo worktree remove --force "$wt"; exit 2; fi
FEMIO_REPO="$wt" ./check "$pid" --tier "$tier" > "build/seedtest_${pid}.log" 2>&1
rc=$?
grep -E "^(VIOLATION|KNOWN-FINDING)" "build/seedtest_${pid}.log"
tail -1 "build/seedtest_${pid}.log"
git -C /repo worktree remove --force "$wt"
# restore generated files for the real tree
if [ $rc -ne 0 ]; then echo "DETECTED (exit $rc)"; else echo "MISSED (exit 0)"; fi
exit 0
