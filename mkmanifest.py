#!/usr/bin/env python3
"""MANIFEST.json = header + manifest.d/Cxx.json fragments (one per claimed
property) + not_applicable entries for every property without a fragment."""
import json
from pathlib import Path
here = Path(__file__).resolve().parent
props = [json.loads(l)['id'] for l in (here / 'properties.jsonl').read_text().splitlines() if l.strip()]
checks = []
for pid in props:
    f = here / 'manifest.d' / f'{pid}.json'
    if f.exists():
        checks.append(json.loads(f.read_text()))
na_file = here / 'manifest.d' / 'not_applicable.json'
na_reasons = json.loads(na_file.read_text()) if na_file.exists() else {}
claimed = {c['property_id'] for c in checks}
na = [{'property_id': p, 'reason': na_reasons.get(p, 'check not built yet in this round (planned in DESIGN.md section 4); not claimed')}
      for p in props if p not in claimed]
man = {
 'version': 1,
 'setup_cmd': './setup.sh',
 'hooks': {
  'guard': 'FEMIO_VERIF',
  'enable': 'FEMIO_VERIF=1 in the environment of the harness processes (set by ./check); no source hook exists so far - crash points, file events and pre-existing files are produced by monkey-patching inside the harness child processes',
  'baseline_off_cmd': 'cd /repo && /venv/bin/python -m pytest -ra -q -p no:cacheprovider --timeout=900 --continue-on-collection-errors',
  'source_commits': [],
  'add_only': True
 },
 'engines': [{'name': 'coq', 'path': '/verif/coq', 'serves_properties': sorted(claimed),
              'kind_free_text': 'Coq 8.16.1 development (models, proofs, property statements) + fail-closed Python-ast translators (/verif/translate) + correspondence harness (/verif/harness) evaluating the models with vm_compute'}],
 'checks': checks,
 'notes': 'See DESIGN.md. known_findings.json lists fixed/open findings.',
 'not_applicable': na,
}
(here / 'MANIFEST.json').write_text(json.dumps(man, indent=1) + '\n')
print('claimed', sorted(claimed), 'not claimed', len(na))
