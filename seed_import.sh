#!/bin/bash
# ./seed_import.sh Cxx <seed dir with patch.diff demo.py meta.json> [nosuite]
# Confirms the seeded change in a scratch worktree (demo passes clean / fails
# patched; full test suite still matches the baseline), runs the check of Cxx
# against it, and stores everything under /verif/seeded/Cxx/<slug>/.
set -u
cd "$(dirname "$0")"
pid="$1"; src="$(readlink -f "$2")"; nosuite="${3:-}"
slug="${SLUG_PREFIX:-}$(basename "$src")"
dst="/verif/seeded/$pid/$slug"; mkdir -p "$dst"
cp "$src/patch.diff" "$src/demo.py" "$dst/"; cp "$src/meta.json" "$dst/meta.orig.json" 2>/dev/null
wt="/tmp/si_${pid}_${slug}_$$"
git -C /repo worktree add --detach "$wt" HEAD -q || exit 2
( cd "$wt" && PYTHONPATH="$wt" timeout 600 /venv/bin/python "$dst/demo.py" > "$dst/demo_clean.log" 2>&1 ); rc_clean=$?
if ! git -C "$wt" apply "$dst/patch.diff" && ! git -C "$wt" apply -3 "$dst/patch.diff"; then echo "PATCH-DOES-NOT-APPLY"; git -C /repo worktree remove --force "$wt"; exit 2; fi
git -C "$wt" diff HEAD > "$dst/patch.diff"   # as applied to the current HEAD (after a 3-way merge if needed)
( cd "$wt" && PYTHONPATH="$wt" timeout 600 /venv/bin/python "$dst/demo.py" > "$dst/demo_patched.log" 2>&1 ); rc_patched=$?
suite="skipped"
if [ -z "$nosuite" ]; then
  ( cd "$wt" && timeout 3000 /venv/bin/python -m pytest -q -p no:cacheprovider --timeout=900 --continue-on-collection-errors --junitxml="/verif/build/si_${pid}_${slug}.xml" > /dev/null 2>&1 )
  suite="$(python3 suite_compare.py "/verif/build/si_${pid}_${slug}.xml")"
  git -C "$wt" status --short | grep -v '^ M femio' | head -3
fi
FEMIO_REPO="$wt" flock "build/.seed_${pid}.lock" ./check "$pid" --tier quick > "build/si_${pid}_${slug}.log" 2>&1; rc_check=$?
grep -E "^(VIOLATION|KNOWN-FINDING)" "build/si_${pid}_${slug}.log" | head -5 > "$dst/check_output.txt"
git -C /repo worktree remove --force "$wt"
python3 - "$dst" "$pid" "$slug" "$rc_clean" "$rc_patched" "$suite" "$rc_check" <<'PY'
import json, sys, os
dst, pid, slug, rc_clean, rc_patched, suite, rc_check = sys.argv[1:]
meta = {}
try: meta = json.load(open(os.path.join(dst, 'meta.orig.json')))
except Exception: pass
meta.update({'property': pid, 'slug': slug,
  'confirmed': {'demo_exit_clean_tree': int(rc_clean), 'demo_exit_patched_tree': int(rc_patched),
                'full_suite_on_patched_tree': suite,
                'how': 'seed_import.sh: scratch worktree of /repo HEAD; demo.py clean then patched; full pytest suite on the patched tree compared with BASELINE.json stable_pass; ./check run with FEMIO_REPO=<patched worktree>'},
  'check': {'cmd': f'./check {pid} --tier quick', 'exit': int(rc_check),
            'detected': int(rc_check) != 0,
            'output': open(os.path.join(dst, 'check_output.txt')).read().splitlines()}})
json.dump(meta, open(os.path.join(dst, 'meta.json'), 'w'), indent=1)
print(pid, slug, 'demo clean/patched', rc_clean, rc_patched, '| suite', suite, '| check exit', rc_check)
PY
rm -f "$dst/meta.orig.json"
