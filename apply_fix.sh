#!/bin/bash
# ./apply_fix.sh <diff> "<commit message starting with fix:>" — verify in a scratch worktree (applies, full suite == baseline), then commit to /repo
set -u
cd /verif
d="$(readlink -f "$1")"; msg="$2"
wt=/tmp/fix_$$
git -C /repo worktree add --detach $wt HEAD -q || exit 2
if ! git -C $wt apply "$d"; then echo "DOES NOT APPLY"; git -C /repo worktree remove --force $wt; exit 2; fi
( cd $wt && timeout 3000 /venv/bin/python -m pytest -q -p no:cacheprovider --timeout=900 --continue-on-collection-errors --junitxml=/verif/build/fix_$$.xml > /dev/null 2>&1 )
res="$(python3 suite_compare.py /verif/build/fix_$$.xml)"
echo "suite: $res"
git -C /repo worktree remove --force $wt
case "$res" in *"missing []"*) ;; *) echo "SUITE DIFFERS - not applied"; exit 1;; esac
git -C /repo apply "$d" && git -C /repo commit -q -am "$msg" && git -C /repo log --oneline -1
