#!/bin/bash
# ./benign_recheck.sh Cxx slug — re-run the check against a stored behaviour-preserving patch (wanted: quiet)
set -u
cd "$(dirname "$0")"
pid="$1"; slug="$2"; dst="/verif/benign/$pid/$slug"
wt="/tmp/br_${pid}_${slug}_$$"
git -C /repo worktree add --detach "$wt" HEAD -q || exit 2
if ! git -C "$wt" apply "$dst/patch.diff" && ! git -C "$wt" apply -3 "$dst/patch.diff"; then echo "$pid $slug PATCH-DOES-NOT-APPLY"; git -C /repo worktree remove --force "$wt"; exit 2; fi
FEMIO_REPO="$wt" flock "build/.seed_${pid}.lock" ./check "$pid" --tier quick > "build/br_${pid}_${slug}.log" 2>&1; rc=$?
git -C /repo worktree remove --force "$wt"
python3 - "$dst" "$rc" "build/br_${pid}_${slug}.log" <<'PY'
import json, sys, subprocess
dst, rc, log = sys.argv[1:]
m = json.load(open(dst + '/meta.json'))
lines = [l.strip() for l in open(log) if l.startswith(('VIOLATION', 'KNOWN-FINDING'))][:5]
head = subprocess.run(['git', '-C', '/repo', 'rev-parse', '--short', 'HEAD'], capture_output=True, text=True).stdout.strip()
m['recheck'] = {'repo_head': head, 'exit': int(rc), 'quiet': int(rc) == 0, 'output': lines}
json.dump(m, open(dst + '/meta.json', 'w'), indent=1)
print(m['property'], m['slug'], 'recheck exit', rc, 'QUIET' if int(rc) == 0 else 'ALARM')
PY
