"""C02 translator.  Reads from the tree under test, by MEANING (a small symbolic
evaluator over the `ast`, class / module constants resolved, private helpers
inlined one or two levels), four regions:

  element_types    FEMElementalAttribute.ELEMENT_TYPES (any literal list / tuple,
                   evaluated with ast.literal_eval)
  split_consts     how many lines FrontISTRData._split_series skips before the
                   body, as a function of "is there a TOTALTIME line": the
                   function is *executed symbolically* up to the first slice
                   `<series>[E:]` under the hypotheses 0 / 1 / 2 matches; the
                   spelling (if/else, ternary, early default, class constant,
                   helper method) does not matter
  series_single_ok whether the time-series branch of FrontISTRData.read_files
                   accepts a directory with exactly one result file (the bare
                   StringSeries handed back by `_read_files(separate=True)` is
                   wrapped in a list before it is iterated)
  file_layer       StringSeries.read_file / read_files read the file on every
                   call (translate/c04_cfg.py, exact bodies)

and emits coq/C02/gen/ResCfg.v.

Policy (BUILDERS_R5): a region the translator cannot read is NOT an alarm.  It
is reported in `degraded` with the reason; the value of the registered tree
(BASELINE below = what the translator produced on /repo 38049d8) is used as the
hand model of that region and the harness widens the correspondence on the
inputs that region decides.  Only a file that cannot be parsed at all raises."""
import ast
import hashlib
import sys
from pathlib import Path

sys.path.insert(0, str(Path(__file__).resolve().parent))
import c04_cfg  # noqa
from c04_cfg import TranslateError  # noqa

BASELINE = {
    'element_types': ['line', 'line2', 'spring', 'tri', 'tri2', 'quad', 'quad2', 'polygon', 'tet', 'tet2',
                      'pyr', 'pyr2', 'prism', 'prism2', 'hex', 'hex2', 'hexprism', 'polyhedron', 'unknown'],
    'series_single_ok': True,
    'skip_old': 3,
    'skip_new': 11,
    'reads_file_every_call': True,
}
KEY = 'TOTALTIME'


def _sha(s):
    return hashlib.sha256(s.encode()).hexdigest()


def _cls(tree, name):
    for c in tree.body:
        if isinstance(c, ast.ClassDef) and c.name == name:
            return c
    raise TranslateError(f'class {name} not found')


def _fn(tree, cls, name):
    for f in _cls(tree, cls).body:
        if isinstance(f, ast.FunctionDef) and f.name == name:
            return f
    raise TranslateError(f'{cls}.{name} not found')


# ------------------------------------------------------------ element types
def element_types(repo):
    p = Path(repo) / 'femio' / 'fem_elemental_attribute.py'
    text = p.read_text()
    tree = ast.parse(text)
    for st in _cls(tree, 'FEMElementalAttribute').body:
        tgt = None
        if isinstance(st, ast.Assign) and len(st.targets) == 1:
            tgt, val = st.targets[0], st.value
        elif isinstance(st, ast.AnnAssign) and st.value is not None:
            tgt, val = st.target, st.value
        if isinstance(tgt, ast.Name) and tgt.id == 'ELEMENT_TYPES':
            try:
                v = ast.literal_eval(val)
            except (ValueError, SyntaxError):
                raise TranslateError('ELEMENT_TYPES is not a literal')
            if not isinstance(v, (list, tuple)) or not all(isinstance(e, str) for e in v) or not v:
                raise TranslateError('ELEMENT_TYPES is not a sequence of strings')
            return list(v), _sha(ast.get_source_segment(text, st))
    raise TranslateError('FEMElementalAttribute.ELEMENT_TYPES not found')


# ------------------------------------------- symbolic evaluator (split consts)
class _Unknown(Exception):
    pass


class _Matches:
    """the value of <series>.find_match('TOTALTIME') under the hypothesis of h matches"""
    def __init__(self, h):
        self.h = h


class _Series:
    """the parameter holding the lines of the file"""


class _Opaque:
    """a value the evaluator does not follow (only an error when it decides something)"""


class _Found(Exception):
    """the first slice <series>[E:] was reached"""
    def __init__(self, value):
        self.value = value


class _Return(Exception):
    def __init__(self, value):
        self.value = value


class _Eval:
    def __init__(self, tree, clsname, h):
        self.tree, self.h, self.clsname = tree, h, clsname
        self.cls = _cls(tree, clsname)
        self.consts = {}
        for scope in (tree.body, self.cls.body):
            for st in scope:
                if isinstance(st, ast.Assign) and len(st.targets) == 1 and isinstance(st.targets[0], ast.Name):
                    self.consts[st.targets[0].id] = st.value
                elif isinstance(st, ast.AnnAssign) and isinstance(st.target, ast.Name) and st.value is not None:
                    self.consts[st.target.id] = st.value
        self.methods = {f.name: f for f in self.cls.body if isinstance(f, ast.FunctionDef)}
        self.depth = 0

    def const(self, name):
        if name not in self.consts:
            raise _Unknown(f'name {name} is not bound')
        try:
            return ast.literal_eval(self.consts[name])
        except (ValueError, SyntaxError):
            return self.ev(self.consts[name], {})

    def ev(self, n, env):
        if isinstance(n, ast.Constant):
            return n.value
        if isinstance(n, ast.Name):
            if n.id in env:
                return env[n.id]
            return self.const(n.id)
        if isinstance(n, ast.Attribute):
            if isinstance(n.value, ast.Name) and n.value.id in ('self', 'cls', self.clsname, 'type(self)') \
                    and n.attr in self.consts and n.attr not in self.methods:
                return self.const(n.attr)
            if isinstance(n.value, ast.Call) and ast.unparse(n.value.func) == 'type' and n.attr in self.consts:
                return self.const(n.attr)
            return _Opaque()
        if isinstance(n, ast.Subscript):
            base = self.ev(n.value, env)
            if isinstance(base, _Series) and isinstance(n.slice, ast.Slice) and n.slice.upper is None \
                    and n.slice.step is None and n.slice.lower is not None:
                v = self.ev(n.slice.lower, env)
                if isinstance(v, bool) or not isinstance(v, int):
                    raise _Unknown('the slice start of the series is not an integer the evaluator can compute')
                raise _Found(v)
            if isinstance(base, (dict, list, tuple)) and not isinstance(n.slice, ast.Slice):
                k = self.ev(n.slice, env)
                if isinstance(k, (_Opaque, _Matches, _Series)):
                    raise _Unknown('subscript with a value that is not followed')
                try:
                    return base[k]
                except (KeyError, IndexError, TypeError):
                    raise _Unknown('subscript fails')
            return _Opaque()
        if isinstance(n, ast.Call):
            f = n.func
            # <series>.find_match(KEY)
            if isinstance(f, ast.Attribute) and f.attr == 'find_match' and isinstance(self.ev(f.value, env), _Series):
                args = [self.ev(a, env) for a in n.args]
                if len(args) == 1 and args[0] == KEY and not n.keywords:
                    return _Matches(self.h)
                for a in list(n.args) + [k.value for k in n.keywords]:
                    self.ev(a, env)
                return _Opaque()
            if isinstance(f, ast.Name) and f.id == 'len' and len(n.args) == 1 and not n.keywords:
                v = self.ev(n.args[0], env)
                if isinstance(v, _Matches):
                    return v.h
                if isinstance(v, (list, tuple, dict, str)):
                    return len(v)
                return _Opaque()
            if isinstance(f, ast.Name) and f.id in ('int', 'bool') and len(n.args) == 1 and not n.keywords:
                v = self.ev(n.args[0], env)
                if isinstance(v, (int, bool)):
                    return int(v) if f.id == 'int' else bool(v)
                raise _Unknown(f'{f.id}() of a value that is not followed')
            # private helper of the same class: inline (two levels)
            if isinstance(f, ast.Attribute) and isinstance(f.value, ast.Name) \
                    and f.value.id in ('self', 'cls', self.clsname) and f.attr in self.methods:
                return self.call(self.methods[f.attr], n, env)
            # anything else: evaluate the arguments (a slice of the series may sit there)
            for a in list(n.args) + [k.value for k in n.keywords]:
                self.ev(a, env)
            if isinstance(f, ast.Attribute):
                self.ev(f.value, env)
            return _Opaque()
        if isinstance(n, ast.UnaryOp):
            v = self.ev(n.operand, env)
            if isinstance(n.op, ast.Not):
                return not self.truth(v)
            if isinstance(n.op, ast.USub) and isinstance(v, int):
                return -v
            return _Opaque()
        if isinstance(n, ast.BoolOp):
            vals = [self.truth(self.ev(v, env)) for v in n.values]
            return all(vals) if isinstance(n.op, ast.And) else any(vals)
        if isinstance(n, ast.Compare):
            left = self.ev(n.left, env)
            res = True
            for op, r in zip(n.ops, n.comparators):
                right = self.ev(r, env)
                if isinstance(left, (_Opaque, _Matches, _Series)) or isinstance(right, (_Opaque, _Matches, _Series)):
                    raise _Unknown('comparison of a value that is not followed')
                try:
                    ok = {ast.Eq: lambda a, b: a == b, ast.NotEq: lambda a, b: a != b,
                          ast.Lt: lambda a, b: a < b, ast.LtE: lambda a, b: a <= b,
                          ast.Gt: lambda a, b: a > b, ast.GtE: lambda a, b: a >= b,
                          ast.Is: lambda a, b: a is b, ast.IsNot: lambda a, b: a is not b,
                          ast.In: lambda a, b: a in b, ast.NotIn: lambda a, b: a not in b}[type(op)](left, right)
                except (KeyError, TypeError):
                    raise _Unknown('unsupported comparison')
                res = res and ok
                left = right
            return res
        if isinstance(n, ast.BinOp):
            a, b = self.ev(n.left, env), self.ev(n.right, env)
            if isinstance(a, int) and isinstance(b, int):
                if isinstance(n.op, ast.Add):
                    return a + b
                if isinstance(n.op, ast.Sub):
                    return a - b
                if isinstance(n.op, ast.Mult):
                    return a * b
            return _Opaque()
        if isinstance(n, ast.IfExp):
            return self.ev(n.body if self.truth(self.ev(n.test, env)) else n.orelse, env)
        if isinstance(n, (ast.Tuple, ast.List)):
            return [self.ev(e, env) for e in n.elts] if isinstance(n, ast.List) else tuple(self.ev(e, env) for e in n.elts)
        if isinstance(n, ast.Dict):
            try:
                return {self.ev(k, env): self.ev(v, env) for k, v in zip(n.keys, n.values)}
            except TypeError:
                return _Opaque()
        if isinstance(n, ast.NamedExpr) and isinstance(n.target, ast.Name):
            env[n.target.id] = self.ev(n.value, env)
            return env[n.target.id]
        # comprehensions, lambdas, f-strings ...: not followed, but must not hide the slice
        for sub in ast.walk(n):
            if sub is not n and isinstance(sub, ast.Subscript) and isinstance(sub.slice, ast.Slice):
                raise _Unknown(f'slice inside an expression that is not followed ({type(n).__name__})')
        return _Opaque()

    def truth(self, v):
        if isinstance(v, (bool, int, str, list, tuple, dict)) or v is None:
            return bool(v)
        raise _Unknown('a decision depends on a value that is not followed')

    def call(self, fn, call, env):
        if self.depth >= 2:
            raise _Unknown('helper nesting deeper than two levels')
        params = [a.arg for a in fn.args.args]
        if params and params[0] in ('self', 'cls'):
            params = params[1:]
        local = {}
        vals = [self.ev(a, env) for a in call.args]
        if len(vals) > len(params) or fn.args.vararg or fn.args.kwarg:
            raise _Unknown(f'call of {fn.name} not understood')
        for p, v in zip(params, vals):
            local[p] = v
        kwonly = [a.arg for a in fn.args.kwonlyargs]
        for k in call.keywords:
            if k.arg is None or (k.arg not in params and k.arg not in kwonly):
                raise _Unknown(f'call of {fn.name} not understood')
            local[k.arg] = self.ev(k.value, env)
        defaults = dict(zip(params[len(params) - len(fn.args.defaults):], fn.args.defaults))
        defaults.update({a: d for a, d in zip(kwonly, fn.args.kw_defaults) if d is not None})
        for p in params + kwonly:
            if p not in local:
                if p not in defaults:
                    raise _Unknown(f'call of {fn.name}: parameter {p} not bound')
                local[p] = self.ev(defaults[p], {})
        self.depth += 1
        try:
            self.block(fn.body, local)
        except _Return as r:
            return r.value
        finally:
            self.depth -= 1
        return None

    def block(self, body, env):
        for st in body:
            if isinstance(st, ast.Expr):
                self.ev(st.value, env)
            elif isinstance(st, ast.Assign):
                v = self.ev(st.value, env)
                for t in st.targets:
                    self.bind(t, v, env)
            elif isinstance(st, ast.AnnAssign):
                if st.value is not None:
                    self.bind(st.target, self.ev(st.value, env), env)
            elif isinstance(st, ast.AugAssign):
                cur = self.ev(st.target, env)
                v = self.ev(st.value, env)
                if isinstance(cur, int) and isinstance(v, int) and isinstance(st.op, (ast.Add, ast.Sub)):
                    self.bind(st.target, cur + v if isinstance(st.op, ast.Add) else cur - v, env)
                else:
                    self.bind(st.target, _Opaque(), env)
            elif isinstance(st, ast.If):
                self.block(st.body if self.truth(self.ev(st.test, env)) else st.orelse, env)
            elif isinstance(st, ast.Return):
                raise _Return(self.ev(st.value, env) if st.value is not None else None)
            elif isinstance(st, ast.Pass):
                pass
            elif isinstance(st, ast.Assert):
                self.ev(st.test, env)
            else:
                raise _Unknown(f'statement {type(st).__name__} before the series is sliced')

    def bind(self, target, v, env):
        if isinstance(target, ast.Name):
            env[target.id] = v
        elif isinstance(target, (ast.Tuple, ast.List)) and isinstance(v, (tuple, list)) \
                and len(v) == len(target.elts):
            for t, x in zip(target.elts, v):
                self.bind(t, x, env)
        elif isinstance(target, (ast.Tuple, ast.List)):
            for t in target.elts:
                self.bind(t, _Opaque(), env)
        else:
            pass        # attribute / subscript stores do not decide the slice start


def split_consts(tree):
    """(skip without TOTALTIME line, skip with one): _split_series executed symbolically"""
    fn = _fn(tree, 'FrontISTRData', '_split_series')
    params = [a.arg for a in fn.args.args]
    if len(params) < 2:
        raise TranslateError('_split_series: no series parameter')
    out = []
    for h in (0, 1, 2):
        e = _Eval(tree, 'FrontISTRData', h)
        try:
            e.block(fn.body, {params[1]: _Series(), params[0]: _Opaque()})
        except _Found as f:
            out.append(f.value)
            continue
        except _Return:
            raise TranslateError(f'_split_series returns before the series is sliced ({h} {KEY} lines)')
        except _Unknown as u:
            raise TranslateError(f'_split_series ({h} {KEY} lines): {u}')
        except RecursionError:
            raise TranslateError('_split_series: recursion')
        raise TranslateError(f'_split_series: no slice <series>[E:] reached ({h} {KEY} lines)')
    if out[1] != out[2]:
        raise TranslateError(f'_split_series: skip depends on the number of {KEY} lines: {out}')
    if not all(isinstance(v, int) and 0 <= v < 1000 for v in out):
        raise TranslateError(f'_split_series: skip constants out of range: {out}')
    return out[0], out[1]


# ------------------------------------------------- single-file time series
def _is_series_class(n):
    return ast.unparse(n) in ('st.StringSeries', 'StringSeries')


def series_single_ok(fn):
    """True  -- the iterable of the `_read_res` loop / comprehension is a name X with
                X = str_data['res'] and a recognised wrapper of a bare StringSeries
                (if isinstance(X, StringSeries): X = [X]   /   if not isinstance(X, (list, ...)): X = [X]
                 /   X = [Y] if isinstance(Y, StringSeries) else Y);
       False -- the iterable is str_data['res'] itself, or a name bound to it without any wrapper."""
    its = []
    for n in ast.walk(fn):
        gens = []
        if isinstance(n, (ast.ListComp, ast.GeneratorExp)):
            if any(isinstance(c, ast.Call) and isinstance(c.func, ast.Attribute) and c.func.attr == '_read_res'
                   for c in ast.walk(n.elt)):
                gens = n.generators
        elif isinstance(n, ast.For):
            if any(isinstance(c, ast.Call) and isinstance(c.func, ast.Attribute) and c.func.attr == '_read_res'
                   for b in n.body for c in ast.walk(b)):
                gens = [n]
        for g in gens:
            tgt = ast.unparse(g.target)
            calls = [c for c in ast.walk(n) if isinstance(c, ast.Call) and isinstance(c.func, ast.Attribute)
                     and c.func.attr == '_read_res']
            if len(gens) != 1 or getattr(g, 'ifs', None) or \
                    not all(len(c.args) == 1 and not c.keywords and ast.unparse(c.args[0]) == tgt for c in calls):
                raise TranslateError('_read_res is not applied to the loop variable itself')
            its.append(g.iter)
    if len(its) != 1:
        raise TranslateError(f'expected one loop of _read_res over the result files, found {len(its)}')
    it = its[0]

    def is_res(n):
        return isinstance(n, ast.Subscript) and ast.unparse(n) in ("str_data['res']", 'str_data["res"]')
    if is_res(it):
        return False
    if not isinstance(it, ast.Name):
        raise TranslateError(f'unrecognised iterable of the _read_res loop: {ast.unparse(it)}')
    x = it.id
    binds = [s for s in ast.walk(fn) if isinstance(s, ast.Assign) and len(s.targets) == 1
             and isinstance(s.targets[0], ast.Name) and s.targets[0].id == x]
    src_names = {x}
    wrapped = False
    from_res = False
    for s in binds:
        v = s.value
        if is_res(v):
            from_res = True
        elif isinstance(v, ast.IfExp) and isinstance(v.test, ast.Call) and ast.unparse(v.test.func) == 'isinstance' \
                and len(v.test.args) == 2 and _is_series_class(v.test.args[1]) \
                and isinstance(v.body, ast.List) and len(v.body.elts) == 1 \
                and ast.unparse(v.body.elts[0]) == ast.unparse(v.test.args[0]) == ast.unparse(v.orelse) \
                and (is_res(v.orelse) or ast.unparse(v.orelse) in src_names):
            from_res = from_res or is_res(v.orelse)
            wrapped = True
        elif isinstance(v, ast.List) and len(v.elts) == 1 and isinstance(v.elts[0], ast.Name) and v.elts[0].id == x:
            pass        # the wrapping assignment itself; its guard is looked at below
        else:
            raise TranslateError(f'{x} is bound by an expression that is not recognised: {ast.unparse(v)[:60]}')
    for s in ast.walk(fn):
        if isinstance(s, ast.If) and not s.orelse and len(s.body) == 1 and isinstance(s.body[0], ast.Assign) \
                and ast.unparse(s.body[0]) == f'{x} = [{x}]':
            t = s.test
            if isinstance(t, ast.Call) and ast.unparse(t.func) == 'isinstance' and len(t.args) == 2 \
                    and ast.unparse(t.args[0]) == x and _is_series_class(t.args[1]):
                wrapped = True
            elif isinstance(t, ast.UnaryOp) and isinstance(t.op, ast.Not) and isinstance(t.operand, ast.Call) \
                    and ast.unparse(t.operand.func) == 'isinstance' and len(t.operand.args) == 2 \
                    and ast.unparse(t.operand.args[0]) == x \
                    and ast.unparse(t.operand.args[1]) in ('list', '(list, tuple)', 'st.ListStringSeries',
                                                           'ListStringSeries', '(list, st.ListStringSeries)'):
                wrapped = True
            else:
                raise TranslateError(f'guard of `{x} = [{x}]` not recognised: {ast.unparse(t)[:60]}')
    if not from_res:
        raise TranslateError(f"{x} is not bound to str_data['res']")
    return wrapped


# ------------------------------------------------------------------ patterns
NAME_RE = {'anchored': True, 'items': [([(42, 42), (65, 90), (97, 122)], 'QOne')]}
EXP_RE = {'anchored': False, 'items': [([(69, 69)], 'QOne'), ([(43, 43)], 'QOpt'), ([(45, 45)], 'QOpt'),
                                       ([(48, 57)], 'QPlus')]}
BASELINE_PATTERNS = {'name_re_split': (r'^[\*a-zA-Z]', NAME_RE), 'name_re_parse': (r'^[\*a-zA-Z]', NAME_RE),
                     'exp_re': (r'E\+?-?\d+', EXP_RE)}
_ESC = {'d': [(48, 57)], 's': [(9, 13), (32, 32)]}
_META = set('.^$*+?{}[]\\|()')


def _norm_class(ranges):
    out = []
    for a, b in sorted(ranges):
        if out and a <= out[-1][1] + 1:
            out[-1] = (out[-1][0], max(out[-1][1], b))
        else:
            out.append((a, b))
    return out


def parse_regex(pat, anchored=False):
    """the fragment femio's result reader uses: optional ^, then character classes / literals /
    \\d, each with an optional ? + * ; classes are normalised to sorted, merged code ranges"""
    if not isinstance(pat, str) or not all(32 <= ord(c) < 127 for c in pat):
        raise TranslateError(f'pattern {pat!r} is not printable ASCII text')
    i, items = 0, []
    if pat.startswith('^'):
        anchored, i = True, 1

    def esc(j):
        if j >= len(pat):
            raise TranslateError(f'pattern {pat!r}: dangling backslash')
        ch = pat[j]
        if ch in _ESC:
            return list(_ESC[ch])
        if ch.isalnum():
            raise TranslateError(f'pattern {pat!r}: escape \\{ch} not in the translated fragment')
        return [(ord(ch), ord(ch))]
    while i < len(pat):
        ch = pat[i]
        if ch == '[':
            i += 1
            if i < len(pat) and pat[i] == '^':
                raise TranslateError(f'pattern {pat!r}: negated class not in the translated fragment')
            ranges, first = [], True
            while True:
                if i >= len(pat):
                    raise TranslateError(f'pattern {pat!r}: unterminated class')
                if pat[i] == ']' and not first:
                    i += 1
                    break
                first = False
                if pat[i] == '\\':
                    lo = esc(i + 1)
                    i += 2
                    if len(lo) != 1 or lo[0][0] != lo[0][1] or pat[i - 1] in _ESC:
                        ranges += lo
                        continue
                    lo = lo[0][0]
                else:
                    lo = ord(pat[i])
                    i += 1
                if i + 1 < len(pat) and pat[i] == '-' and pat[i + 1] != ']':
                    if pat[i + 1] == '\\':
                        hi = esc(i + 2)
                        if len(hi) != 1 or hi[0][0] != hi[0][1]:
                            raise TranslateError(f'pattern {pat!r}: bad range')
                        hi, i = hi[0][0], i + 3
                    else:
                        hi, i = ord(pat[i + 1]), i + 2
                    if hi < lo:
                        raise TranslateError(f'pattern {pat!r}: bad range')
                    ranges.append((lo, hi))
                else:
                    ranges.append((lo, lo))
            cl = _norm_class(ranges)
        elif ch == '\\':
            cl = _norm_class(esc(i + 1))
            i += 2
        elif ch in _META:
            raise TranslateError(f'pattern {pat!r}: {ch!r} at {i} is not in the translated fragment')
        else:
            cl = [(ord(ch), ord(ch))]
            i += 1
        q = 'QOne'
        if i < len(pat) and pat[i] in '?+*':
            q = {'?': 'QOpt', '+': 'QPlus', '*': 'QStar'}[pat[i]]
            i += 1
            if i < len(pat) and pat[i] in '?+*{':
                raise TranslateError(f'pattern {pat!r}: lazy / possessive / counted quantifier')
        items.append((cl, q))
    return {'anchored': anchored, 'items': items}


def _reach(tree, fn):
    """the function and the private helpers of its class it calls (two levels)"""
    methods = {f.name: f for f in _cls(tree, 'FrontISTRData').body if isinstance(f, ast.FunctionDef)}
    seen, todo = [fn], [(fn, 0)]
    while todo:
        f, d = todo.pop()
        for n in ast.walk(f):
            if isinstance(n, ast.Call) and isinstance(n.func, ast.Attribute) and isinstance(n.func.value, ast.Name) \
                    and n.func.value.id in ('self', 'cls', 'FrontISTRData') and n.func.attr in methods \
                    and n.func.attr.startswith('_') and methods[n.func.attr] not in seen and d < 2 \
                    and n.func.attr not in ('_split_series', '_parse_res', '_read_res'):
                seen.append(methods[n.func.attr])
                todo.append((methods[n.func.attr], d + 1))
    return seen


def patterns(tree):
    """{name_re_split, name_re_parse, exp_re: (pattern text, parsed)}: the argument of
    indices_match_clusters and of re.search in _split_series, of re.search / re.match in _parse_res"""
    ev = _Eval(tree, 'FrontISTRData', 0)

    def text(node, where):
        try:
            v = ev.ev(node, {})
        except _Unknown as u:
            raise TranslateError(f'{where}: pattern not a constant ({u})')
        if not isinstance(v, str):
            raise TranslateError(f'{where}: pattern is not a string constant')
        return v

    def calls(fn):
        cl, rs = [], []
        for f in _reach(tree, fn):
            for n in ast.walk(f):
                if isinstance(n, ast.Call) and isinstance(n.func, ast.Attribute):
                    if n.func.attr == 'indices_match_clusters' and len(n.args) == 1 and not n.keywords:
                        cl.append(n.args[0])
                    elif n.func.attr in ('search', 'match') and isinstance(n.func.value, ast.Name) \
                            and n.func.value.id == 're' and len(n.args) == 2 and not n.keywords:
                        rs.append((n.func.attr, n.args[0]))
                    elif isinstance(n.func.value, ast.Name) and n.func.value.id == 're' \
                            and n.func.attr in ('fullmatch', 'findall', 'finditer', 'compile'):
                        raise TranslateError(f'{fn.name}: re.{n.func.attr} is not in the translated fragment')
        return cl, rs
    cl, rs = calls(_fn(tree, 'FrontISTRData', '_split_series'))
    if len(cl) != 1 or len(rs) != 1:
        raise TranslateError(f'_split_series: expected one indices_match_clusters(P) and one re.search(P, line), '
                             f'found {len(cl)} / {len(rs)}')
    out = {}
    t = text(cl[0], '_split_series indices_match_clusters')
    out['name_re_split'] = (t, parse_regex(t))
    t = text(rs[0][1], '_split_series re.search')
    out['exp_re'] = (t, parse_regex(t, anchored=rs[0][0] == 'match'))
    cl, rs = calls(_fn(tree, 'FrontISTRData', '_parse_res'))
    rs = [r for r in rs if text(r[1], '_parse_res') != r'\s+']
    if cl or len(rs) != 1:
        raise TranslateError(f'_parse_res: expected one re.search(P, line) for the name lines, found {len(rs)}')
    t = text(rs[0][1], '_parse_res re.search')
    out['name_re_parse'] = (t, parse_regex(t, anchored=rs[0][0] == 'match'))
    return out


def emit_patterns(pats):
    def cl(c):
        return '[' + '; '.join(f'({a}, {b})' for a, b in c) + ']%N'

    def rx(r):
        return ('{| re_anchored := ' + ('true' if r['anchored'] else 'false') + '; re_items := ['
                + '; '.join(f'({cl(c)}, {q})' for c, q in r['items']) + '] |}')
    return ('(* generated by translate/c02_cfg.py from the tree under test; do not edit *)\n'
            'From Coq Require Import NArith List.\nImport ListNotations.\n'
            'From FV.C02 Require Import Regex.\n'
            + ''.join(f'(* {pats[k][0]} *)\nDefinition {k} : regex := {rx(pats[k][1])}.\n'
                      for k in ('name_re_split', 'name_re_parse', 'exp_re')))


# ------------------------------------------------------------------- driver
def translate(repo):
    """-> (cfg, consumed source hashes, degraded {region: reason})"""
    degraded = {}
    cfg = dict(BASELINE)
    consumed = {}
    p = Path(repo) / 'femio' / 'formats' / 'fistr' / 'fistr.py'
    text = p.read_text()
    tree = ast.parse(text)          # SyntaxError / OSError: the tree cannot run at all

    def region(name, f):
        try:
            return f()
        except TranslateError as e:
            degraded[name] = str(e)
        except (RecursionError, AttributeError, IndexError, KeyError, TypeError, ValueError) as e:
            degraded[name] = f'translator error {type(e).__name__}: {e}'
        return None

    r = region('element_types', lambda: element_types(repo))
    if r:
        cfg['element_types'], consumed['femio/fem_elemental_attribute.py:ELEMENT_TYPES'] = r
    r = region('split_consts', lambda: split_consts(tree))
    if r:
        cfg['skip_old'], cfg['skip_new'] = r
    r = region('series_single_ok', lambda: series_single_ok(_fn(tree, 'FrontISTRData', 'read_files')))
    if r is not None:
        cfg['series_single_ok'] = r
    r = region('patterns', lambda: patterns(tree))
    cfg['patterns'] = r if r else dict(BASELINE_PATTERNS)
    r = region('file_layer', lambda: c04_cfg.file_layer(repo))
    if r:
        consumed['femio/util/string_parser.py:StringSeries.read_file+read_files'] = r
    for nm in ('read_files', '_split_series', '_parse_res'):
        try:
            consumed[f'femio/formats/fistr/fistr.py:{nm}'] = \
                _sha(ast.get_source_segment(text, _fn(tree, 'FrontISTRData', nm)))
        except TranslateError as e:
            degraded.setdefault('split_consts' if nm != 'read_files' else 'series_single_ok', str(e))
    return cfg, consumed, degraded


def emit(cfg):
    def cs(s):
        assert all(32 <= ord(c) < 127 and c != '"' for c in s), s
        return f'S "{s}"'
    return (
        '(* generated by translate/c02_cfg.py from the tree under test; do not edit *)\n'
        'From Coq Require Import String List.\nImport ListNotations.\n'
        'From FV.C04 Require Import Text.\nOpen Scope string_scope.\n'
        'Definition element_types : list str :=\n  [' + '; '.join(cs(t) for t in cfg['element_types']) + '].\n'
        f"Definition series_single_ok : bool := {'true' if cfg['series_single_ok'] else 'false'}.\n"
        f"Definition skip_old : nat := {cfg['skip_old']}.\nDefinition skip_new : nat := {cfg['skip_new']}.\n"
        f"Definition reads_file_every_call : bool := {'true' if cfg.get('reads_file_every_call') else 'false'}.\n")


if __name__ == '__main__':
    c, s, d = translate(sys.argv[1] if len(sys.argv) > 1 else '/repo')
    print(c)
    print(emit_patterns(c['patterns']))
    print('degraded:', d)
