"""Fail-closed translator: straight-line geometry kernels of
femio/geometry_processor.py  ->  Ops-polymorphic Gallina (coq/C11/gen/Kernels.v).

A kernel is interpreted symbolically (partial evaluation): loops over literal
tuples / range(const) are unrolled, nested `def`s are closures, calls to other
methods of the mixin are inlined, every assignment of a symbolic value becomes
a Gallina `let`.  Values are scalars ('S') or 3-vectors ('V') per element (the
leading numpy axis "one row per element" is implicit).  Any statement,
expression or call outside the small grammar below raises TranslateError: the
tie is then reported broken, never guessed.

Conventions (stated in notes/C11.md, "modelled as exact"):
 * a float literal denotes its decimal value (0.5773502692 = 5773502692/10^10,
   1. / 6. = 1/6); rounding, float32 accumulators (np.zeros(n, np.float32))
   and LAPACK's det are exact in the model;
 * np.linalg.det(np.stack([a, b, c], axis=1)) is the determinant of the matrix
   with rows a, b, c;  np.linalg.norm(v, axis=1[, keepdims]) is sqrt(v.v).
"""
import ast
import hashlib
import re
from fractions import Fraction
from pathlib import Path


class TranslateError(Exception):
    pass


class Sym:
    __slots__ = ('ty', 'e')

    def __init__(self, ty, e):
        self.ty, self.e = ty, e


class Elems:           # the `elements` argument (or its .data)
    pass


class Col:             # elements.data[:, k]
    def __init__(self, k):
        self.k = k


class Count:           # len(elements.data) / len(p0): number of elements
    pass


class Closure:
    def __init__(self, fn, env):
        self.fn, self.env = fn, env


ELEMS, COUNT = Elems(), Count()

# loops over data-dependent lengths: modelled by hand in coq/C11/Model.v (tie H)
HAND = {
    '_calculate_element_areas_polygon': ('S', 'polygon_area_fan'),
    '_calculate_element_areas_polygon_centroid': ('S', 'polygon_area_centroid'),
    '_calculate_polygon_normals': ('V', 'polygon_normal_fan'),
    '_calculate_polygon_normals_centroid': ('V', 'polygon_normal_centroid'),
    '_calculate_element_volumes_polyhedron': ('S', 'polyhedron_vol_fan'),
    '_calculate_element_volumes_polyhedron_centroid': ('S', 'polyhedron_vol_centroid'),
}
HAND_REGION = [
    '_calculate_element_areas_polygon', '_calculate_element_area_polygon',
    '_calculate_element_areas_polygon_centroid', '_calculate_element_area_polygon_centroid',
    '_calculate_polygon_normals', '_calculate_polygon_normals_centroid',
    '_calculate_polygon_cross', '_calculate_polygon_cross_centroid', '_trianglate_polygon',
    '_calculate_element_volumes_polyhedron_core', '_calculate_element_volumes_polyhedron',
    '_calculate_element_volumes_polyhedron_centroid_core',
    '_calculate_element_volumes_polyhedron_centroid', '_validate_metric',
]
# point-level helpers that are also emitted as kernels of their own
POINT_KERNELS = ['_calculate_element_volumes_tet_like_core',
                 '_calculate_element_volumes_hex_with_nodes',
                 '_calculate_volumes_quad_centroid']
MODES = ['linear', 'gaussian', 'centroid']


def lit(fr):
    fr = Fraction(fr)
    return f'(lit O ({fr.numerator}) {fr.denominator})'


def coq_name(pyname):
    return 'k_' + re.sub(r'^_calculate_', '', pyname)


class Interp:
    """symbolic interpreter of one kernel"""

    def __init__(self, methods, src):
        self.methods = methods
        self.src = src
        self.bindings = []      # (name, ty, expr)
        self.used = set()
        self.cols = set()
        self.notes = set()
        self.depth = 0

    # -------------------------------------------------------------- helpers
    def err(self, node, msg):
        seg = ast.get_source_segment(self.src, node) if node is not None else ''
        raise TranslateError(f'{msg} at line {getattr(node, "lineno", "?")}: {seg!r}')

    def fresh(self, base):
        base = 'l_' + re.sub(r'\W', '_', base)
        name, i = base, 0
        while name in self.used:
            i += 1
            name = f'{base}_{i}'
        self.used.add(name)
        return name

    def bind(self, pyname, val):
        """let-bind symbolic values assigned to a Python variable"""
        if isinstance(val, Sym):
            if re.fullmatch(r'[A-Za-z_][A-Za-z_0-9]*', val.e):
                return val            # alias of an existing name
            n = self.fresh(pyname)
            self.bindings.append((n, val.ty, val.e))
            return Sym(val.ty, n)
        return val

    def as_sym(self, v, node):
        if isinstance(v, Sym):
            return v
        if isinstance(v, (int, Fraction)) and not isinstance(v, bool):
            return Sym('S', lit(v))
        self.err(node, f'not a numeric value: {type(v).__name__}')

    # ---------------------------------------------------------- expressions
    def binop(self, op, a, b, node):
        num = (int, Fraction)
        if isinstance(a, num) and isinstance(b, num):
            if isinstance(op, ast.Add):
                return a + b
            if isinstance(op, ast.Sub):
                return a - b
            if isinstance(op, ast.Mult):
                return a * b
            if isinstance(op, ast.Div):
                if b == 0:
                    self.err(node, 'static division by zero')
                return Fraction(a) / Fraction(b)
            if isinstance(op, ast.BitAnd) and isinstance(a, int) and isinstance(b, int):
                return a & b
            self.err(node, 'unsupported static operator')
        if isinstance(op, ast.Pow):
            a = self.as_sym(a, node)
            if a.ty == 'S' and b == Fraction(1, 2):
                return Sym('S', f'(sqrt_ O {a.e})')
            self.err(node, 'only scalar ** .5 is supported')
        a, b = self.as_sym(a, node), self.as_sym(b, node)
        t = (a.ty, b.ty)
        if isinstance(op, ast.Add):
            if t == ('S', 'S'):
                return Sym('S', f'(add O {a.e} {b.e})')
            if t == ('V', 'V'):
                return Sym('V', f'(vadd O {a.e} {b.e})')
        elif isinstance(op, ast.Sub):
            if t == ('S', 'S'):
                return Sym('S', f'(sub O {a.e} {b.e})')
            if t == ('V', 'V'):
                return Sym('V', f'(vsub O {a.e} {b.e})')
        elif isinstance(op, ast.Mult):
            if t == ('S', 'S'):
                return Sym('S', f'(mul O {a.e} {b.e})')
            if t == ('S', 'V'):
                return Sym('V', f'(vscale O {a.e} {b.e})')
            if t == ('V', 'S'):
                return Sym('V', f'(vscaler O {a.e} {b.e})')
        elif isinstance(op, ast.Div):
            if t == ('S', 'S'):
                return Sym('S', f'(div O {a.e} {b.e})')
            if t == ('V', 'S'):
                return Sym('V', f'(vdivs O {a.e} {b.e})')
        self.err(node, f'unsupported operator for types {t}')

    def is_attr_chain(self, node, chain):
        """node is the dotted name chain, e.g. ['np', 'linalg', 'det']"""
        parts = []
        while isinstance(node, ast.Attribute):
            parts.append(node.attr)
            node = node.value
        if isinstance(node, ast.Name):
            parts.append(node.id)
            return list(reversed(parts)) == chain
        return False

    def kw(self, call, allowed):
        out = {}
        for k in call.keywords:
            if k.arg not in allowed:
                self.err(call, f'unexpected keyword {k.arg}')
            out[k.arg] = k.value
        return out

    def const(self, node):
        if isinstance(node, ast.Constant):
            return node.value
        if isinstance(node, ast.UnaryOp) and isinstance(node.op, ast.USub) and \
                isinstance(node.operand, ast.Constant):
            return -node.operand.value
        self.err(node, 'constant expected')

    def ev(self, node, env):
        if isinstance(node, ast.Constant):
            v = node.value
            if isinstance(v, bool) or v is None or isinstance(v, str):
                self.err(node, 'unsupported constant')
            if isinstance(v, int):
                return v
            if isinstance(v, float):
                return Fraction(repr(v))
            self.err(node, 'unsupported constant')
        if isinstance(node, ast.Name):
            if node.id not in env:
                self.err(node, f'unbound name {node.id}')
            return env[node.id]
        if isinstance(node, ast.Tuple):
            return tuple(self.ev(e, env) for e in node.elts)
        if isinstance(node, ast.List):
            return [self.ev(e, env) for e in node.elts]
        if isinstance(node, ast.UnaryOp):
            v = self.ev(node.operand, env)
            if isinstance(node.op, ast.UAdd):
                if isinstance(v, (Sym, int, Fraction)):
                    return v
            if isinstance(node.op, ast.USub):
                if isinstance(v, (int, Fraction)):
                    return -v
                if isinstance(v, Sym):
                    return Sym(v.ty, f'(opp O {v.e})' if v.ty == 'S' else f'(vopp O {v.e})')
            self.err(node, 'unsupported unary operator')
        if isinstance(node, ast.BinOp):
            return self.binop(node.op, self.ev(node.left, env), self.ev(node.right, env), node)
        if isinstance(node, ast.IfExp):
            t = self.ev(node.test, env)
            if isinstance(t, int):
                return self.ev(node.body if t else node.orelse, env)
            self.err(node, 'conditional expression on a non-static test')
        if isinstance(node, ast.Attribute):
            base = self.ev(node.value, env)
            if isinstance(base, Elems) and node.attr == 'data':
                return ELEMS
            if isinstance(base, Sym) and base.ty == 'V' and node.attr == 'T':
                return (Sym('S', f'(vx {base.e})'), Sym('S', f'(vy {base.e})'),
                        Sym('S', f'(vz {base.e})'))
            self.err(node, 'unsupported attribute')
        if isinstance(node, ast.Subscript):
            base = self.ev(node.value, env)
            sl = node.slice
            if isinstance(sl, ast.Tuple) and len(sl.elts) == 2 and \
                    isinstance(sl.elts[0], ast.Slice) and sl.elts[0].lower is None and \
                    sl.elts[0].upper is None and sl.elts[0].step is None:
                second = sl.elts[1]
                if isinstance(base, Elems):
                    k = self.ev(second, env)      # a literal or a statically known loop index
                    if isinstance(k, int) and not isinstance(k, bool) and k >= 0:
                        return Col(k)
                if isinstance(base, Sym) and base.ty == 'S' and \
                        isinstance(second, ast.Constant) and second.value is None:
                    return base        # x[:, None]: shape only
            if isinstance(base, (list, tuple)):
                # element / constant slice of a statically known sequence of values
                if isinstance(sl, ast.Slice):
                    lo, hi, st = (None if x is None else self.ev(x, env)
                                  for x in (sl.lower, sl.upper, sl.step))
                    if all(x is None or (isinstance(x, int) and not isinstance(x, bool))
                           for x in (lo, hi, st)) and st != 0:
                        return type(base)(base[slice(lo, hi, st)])
                else:
                    k = self.ev(sl, env)
                    if isinstance(k, int) and not isinstance(k, bool) and -len(base) <= k < len(base):
                        return base[k]
            self.err(node, 'unsupported subscript')
        if isinstance(node, (ast.ListComp, ast.GeneratorExp)):
            # [expr for x in <static sequence> (if <static test>)*]: unrolled
            if len(node.generators) != 1 or node.generators[0].is_async:
                self.err(node, 'unsupported comprehension')
            g = node.generators[0]
            it = self.ev(g.iter, env)
            if not isinstance(it, (tuple, list)):
                self.err(node, 'comprehension over a non-static sequence')
            out = []
            for item in it:
                e2 = ChainEnv(env)
                self.assign(g.target, item, e2, node, bind=False)
                keep = True
                for c in g.ifs:
                    t = self.ev(c, e2)
                    if not isinstance(t, int):
                        self.err(node, 'comprehension filter on a non-static test')
                    keep = keep and bool(t)
                if keep:
                    out.append(self.ev(node.elt, e2))
            return out
        if isinstance(node, ast.Compare) and len(node.ops) == 1:
            # comparison of statically known integers (loop indices)
            a, b = self.ev(node.left, env), self.ev(node.comparators[0], env)
            if all(isinstance(x, (int, Fraction)) and not isinstance(x, bool) for x in (a, b)):
                op = node.ops[0]
                for ty, fn in ((ast.Eq, lambda: a == b), (ast.NotEq, lambda: a != b),
                               (ast.Lt, lambda: a < b), (ast.LtE, lambda: a <= b),
                               (ast.Gt, lambda: a > b), (ast.GtE, lambda: a >= b)):
                    if isinstance(op, ty):
                        return int(fn())
            self.err(node, 'comparison of non-static values')
        if isinstance(node, ast.Call):
            return self.call(node, env)
        self.err(node, f'unsupported expression {type(node).__name__}')

    def args_of(self, node, env):
        """positional arguments, `*seq` of a statically known sequence expanded"""
        args = []
        for a in node.args:
            if isinstance(a, ast.Starred):
                v = self.ev(a.value, env)
                if not isinstance(v, (list, tuple)):
                    self.err(node, 'starred argument that is not a static sequence')
                args.extend(v)
            else:
                args.append(self.ev(a, env))
        return args

    def call(self, node, env):
        f = node.func
        # --- self.method(...)
        if isinstance(f, ast.Attribute) and isinstance(f.value, ast.Name) and f.value.id == 'self':
            if f.attr == 'collect_node_positions_by_ids':
                if node.keywords or len(node.args) != 1:
                    self.err(node, 'unexpected call shape')
                a = self.ev(node.args[0], env)
                if not isinstance(a, Col):
                    self.err(node, 'collect_node_positions_by_ids of something that is not a column')
                self.cols.add(a.k)
                return Sym('V', f'p{a.k}')
            if f.attr in self.methods:
                if node.keywords:
                    self.err(node, 'keyword arguments in an inlined call')
                args = self.args_of(node, env)
                return self.inline(self.methods[f.attr], args, node)
            self.err(node, f'call of unknown method {f.attr}')
        # --- numpy
        if self.is_attr_chain(f, ['np', 'cross']):
            if node.keywords or len(node.args) != 2:
                self.err(node, 'unexpected call shape')
            a, b = (self.ev(x, env) for x in node.args)
            if isinstance(a, Sym) and isinstance(b, Sym) and a.ty == b.ty == 'V':
                return Sym('V', f'(cross O {a.e} {b.e})')
            self.err(node, 'np.cross of non-vectors')
        if self.is_attr_chain(f, ['np', 'linalg', 'det']):
            if node.keywords or len(node.args) != 1:
                self.err(node, 'unexpected call shape')
            st = node.args[0]
            if isinstance(st, ast.Call) and self.is_attr_chain(st.func, ['np', 'stack']) and \
                    len(st.args) == 1 and isinstance(st.args[0], ast.List) and \
                    len(st.args[0].elts) == 3:
                kws = self.kw(st, {'axis'})
                if 'axis' in kws and self.const(kws['axis']) == 1:
                    vs = [self.ev(x, env) for x in st.args[0].elts]
                    if all(isinstance(v, Sym) and v.ty == 'V' for v in vs):
                        return Sym('S', f'(det3 O {vs[0].e} {vs[1].e} {vs[2].e})')
            self.err(node, 'np.linalg.det of something other than np.stack([a, b, c], axis=1)')
        if self.is_attr_chain(f, ['np', 'linalg', 'norm']):
            kws = self.kw(node, {'axis', 'keepdims'})
            if len(node.args) == 1 and 'axis' in kws and self.const(kws['axis']) == 1:
                v = self.ev(node.args[0], env)
                if isinstance(v, Sym) and v.ty == 'V':
                    return Sym('S', f'(norm O {v.e})')
            self.err(node, 'unsupported np.linalg.norm call')
        if self.is_attr_chain(f, ['np', 'zeros']):
            if len(node.args) in (1, 2) and not node.keywords and \
                    isinstance(self.ev(node.args[0], env), Count):
                if len(node.args) == 1 or self.is_attr_chain(node.args[1], ['np', 'float64']):
                    return Sym('S', '(zero O)')          # float64 accumulator
                if self.is_attr_chain(node.args[1], ['np', 'float32']):
                    self.notes.add('float32 accumulator (np.zeros(n, np.float32)) modelled as exact')
                    return Sym('S', '(zero O)')
            self.err(node, 'unsupported np.zeros call')
        if self.is_attr_chain(f, ['functions', 'normalize']):
            if len(node.args) == 1 and not node.keywords:
                v = self.ev(node.args[0], env)
                if isinstance(v, Sym) and v.ty == 'V':
                    return Sym('V', f'(normalize O {v.e})')
            self.err(node, 'unsupported functions.normalize call')
        # --- builtins
        if isinstance(f, ast.Name) and f.id == 'sum' and f.id not in env:
            if len(node.args) == 1 and not node.keywords:
                items = self.ev(node.args[0], env)
                if isinstance(items, list) and items:
                    acc = items[0]
                    for it in items[1:]:
                        acc = self.binop(ast.Add(), acc, it, node)
                    return acc
            self.err(node, 'unsupported sum call')
        if isinstance(f, ast.Name) and f.id == 'len' and f.id not in env:
            if len(node.args) == 1 and not node.keywords:
                v = self.ev(node.args[0], env)
                if isinstance(v, Elems) or (isinstance(v, Sym) and v.ty == 'V'):
                    return COUNT
            self.err(node, 'unsupported len call')
        if isinstance(f, ast.Name) and f.id == 'range' and f.id not in env:
            if len(node.args) == 1 and not node.keywords:
                n = self.ev(node.args[0], env)
                if isinstance(n, int) and 0 <= n <= 64:
                    return tuple(range(n))
            self.err(node, 'unsupported range call')
        # --- x.reshape(...)
        if isinstance(f, ast.Attribute) and f.attr == 'reshape':
            v = self.ev(f.value, env)
            if isinstance(v, Sym) and v.ty == 'S' and not node.keywords:
                return v
            self.err(node, 'unsupported reshape')
        # --- closure
        if isinstance(f, ast.Name) and isinstance(env.get(f.id), Closure):
            if node.keywords:
                self.err(node, 'keyword arguments in a closure call')
            c = env[f.id]
            args = self.args_of(node, env)
            return self.run_function(c.fn, args, c.env, node, has_self=False)
        self.err(node, 'unsupported call')

    # ------------------------------------------------------------ statements
    def inline(self, fn, args, node):
        self.depth += 1
        if self.depth > 8:
            self.err(node, 'call depth')
        r = self.run_function(fn, args, None, node, has_self=True)
        self.depth -= 1
        return r

    def run_function(self, fn, args, closure_env, node, has_self):
        a = fn.args
        if a.vararg or a.kwarg or a.kwonlyargs or a.defaults or a.posonlyargs:
            self.err(fn, 'unsupported parameter list')
        params = [x.arg for x in a.args]
        if has_self:
            if not params or params[0] != 'self':
                self.err(fn, 'method without self')
            params = params[1:]
        if len(params) != len(args):
            self.err(node, 'arity mismatch')
        if closure_env is not None:
            env = ChainEnv(closure_env)
        else:
            env = ChainEnv(None)
        for p, v in zip(params, args):
            env[p] = v
        res = self.block(fn.body, env)
        if res is None:
            self.err(fn, 'function does not return')
        return res[0]

    def assign(self, target, val, env, node, bind=True):
        if isinstance(target, ast.Name):
            env[target.id] = self.bind(target.id, val) if bind else val
        elif isinstance(target, (ast.Tuple, ast.List)):
            if not isinstance(val, (tuple, list)) or len(val) != len(target.elts):
                self.err(node, 'tuple assignment shape')
            for t, v in zip(target.elts, val):
                self.assign(t, v, env, node, bind=bind)
        else:
            self.err(node, 'unsupported assignment target')

    def block(self, stmts, env):
        """returns None (fell through) or (value,) on return"""
        for s in stmts:
            if isinstance(s, ast.Expr) and isinstance(s.value, ast.Constant) and \
                    isinstance(s.value.value, str):
                continue
            if isinstance(s, ast.Assign):
                if len(s.targets) != 1:
                    self.err(s, 'chained assignment')
                self.assign(s.targets[0], self.ev(s.value, env), env, s)
            elif isinstance(s, ast.AugAssign):
                if not isinstance(s.target, ast.Name):
                    self.err(s, 'unsupported augmented assignment')
                cur = self.ev(s.target, env)
                val = self.binop(s.op, cur, self.ev(s.value, env), s)
                env[s.target.id] = self.bind(s.target.id, val)
            elif isinstance(s, ast.FunctionDef):
                if s.decorator_list:
                    self.err(s, 'decorated nested function')
                env[s.name] = Closure(s, env)
            elif isinstance(s, ast.Return):
                if s.value is None:
                    self.err(s, 'bare return')
                return (self.ev(s.value, env),)
            elif isinstance(s, ast.For):
                if s.orelse:
                    self.err(s, 'for-else')
                it = self.ev(s.iter, env)
                if not isinstance(it, (tuple, list)):
                    self.err(s, 'loop over a non-static sequence')
                for item in it:
                    self.assign(s.target, item, env, s)
                    r = self.block(s.body, env)
                    if r is not None:
                        self.err(s, 'return inside a loop')
            elif isinstance(s, ast.If):
                # only:  if isinstance(elements, np.ndarray): X = elements else: X = elements.data
                t = s.test
                if isinstance(t, ast.Call) and isinstance(t.func, ast.Name) and \
                        t.func.id == 'isinstance' and len(t.args) == 2 and \
                        self.is_attr_chain(t.args[1], ['np', 'ndarray']) and \
                        isinstance(self.ev(t.args[0], env), Elems):
                    e1, e2 = ChainEnv(env), ChainEnv(env)
                    r1, r2 = self.block(s.body, e1), self.block(s.orelse, e2)
                    if r1 is not None or r2 is not None or set(e1.local) != set(e2.local) or \
                            any(e1.local[k] is not e2.local[k] for k in e1.local):
                        self.err(s, 'branches of isinstance(elements, np.ndarray) differ')
                    for k, v in e1.local.items():
                        env[k] = v
                else:
                    self.err(s, 'unsupported if statement')
            else:
                self.err(s, f'unsupported statement {type(s).__name__}')
        return None


class ChainEnv:
    """local scope with read access to an enclosing scope (closures)"""

    def __init__(self, parent):
        self.parent, self.local = parent, {}

    def __contains__(self, k):
        return k in self.local or (self.parent is not None and k in self.parent)

    def __getitem__(self, k):
        if k in self.local:
            return self.local[k]
        if self.parent is not None:
            return self.parent[k]
        raise KeyError(k)

    def get(self, k, d=None):
        return self[k] if k in self else d

    def __setitem__(self, k, v):
        self.local[k] = v


# ------------------------------------------------------------------ dispatch
def _strs(node):
    if isinstance(node, (ast.List, ast.Tuple, ast.Set)) and all(isinstance(e, ast.Constant) and
                                          isinstance(e.value, str) for e in node.elts):
        return [e.value for e in node.elts]
    return None


def _test(node, var):
    """`var in [..]` / `var == '..'`  ->  list of accepted strings, else None"""
    if isinstance(node, ast.Compare) and len(node.ops) == 1 and \
            isinstance(node.left, ast.Name) and node.left.id == var:
        c = node.comparators[0]
        if isinstance(node.ops[0], ast.In):
            return _strs(c)
        if isinstance(node.ops[0], ast.Eq) and isinstance(c, ast.Constant) and \
                isinstance(c.value, str):
            return [c.value]
    return None


def _kernel_assign(stmts, resvar, src):
    """body `resvar = self.K(arg)`  ->  (K, argname)"""
    if len(stmts) == 1 and isinstance(stmts[0], ast.Assign) and len(stmts[0].targets) == 1 and \
            isinstance(stmts[0].targets[0], ast.Name) and stmts[0].targets[0].id == resvar:
        v = stmts[0].value
        if isinstance(v, ast.Call) and isinstance(v.func, ast.Attribute) and \
                isinstance(v.func.value, ast.Name) and v.func.value.id == 'self' and \
                len(v.args) == 1 and isinstance(v.args[0], ast.Name) and not v.keywords:
            return v.func.attr, v.args[0].id
    return None


def _is_raise(stmts):
    return len(stmts) == 1 and isinstance(stmts[0], ast.Raise)


def dispatch_of(fn, resvar, src, types):
    """table {(type, mode): (kernel, argname) | None}, mix info, default mode"""
    # default mode
    a = fn.args
    kwnames = [x.arg for x in a.kwonlyargs]
    defaults = dict(zip(kwnames, a.kw_defaults))
    posnames = [x.arg for x in a.args]
    for n, d in zip(posnames[len(posnames) - len(a.defaults):], a.defaults):
        defaults[n] = d
    if 'mode' not in defaults or not isinstance(defaults['mode'], ast.Constant):
        raise TranslateError(f'{fn.name}: no default mode')
    default_mode = defaults['mode'].value
    # the type chain: first top-level `if element_type in [...]`
    chain = None
    for s in fn.body:
        if isinstance(s, ast.If) and _test(s.test, 'element_type') is not None:
            if chain is not None:
                raise TranslateError(f'{fn.name}: two dispatch chains')
            chain = s
    if chain is None:
        raise TranslateError(f'{fn.name}: dispatch chain not found')
    branches = []      # (types, body)
    node = chain
    while True:
        ts = _test(node.test, 'element_type')
        if ts is None:
            raise TranslateError(f'{fn.name}: unsupported test at line {node.lineno}')
        branches.append((ts, node.body))
        if len(node.orelse) == 1 and isinstance(node.orelse[0], ast.If):
            node = node.orelse[0]
            continue
        if not _is_raise(node.orelse):
            raise TranslateError(f'{fn.name}: dispatch chain must end in raise')
        break
    table, mix = {}, None
    for ty in types:
        for mode in MODES:
            table[(ty, mode)] = None
    seen = set()
    for ts, body in branches:
        for ty in ts:
            if ty in seen:
                continue
            seen.add(ty)
            if ty == 'mix':
                mix = _mix_info(fn, body, resvar, src)
                continue
            if ty not in types:
                raise TranslateError(f'{fn.name}: unknown element type {ty}')
            k = _kernel_assign(body, resvar, src)
            if k is not None:
                for mode in MODES:
                    table[(ty, mode)] = k
                continue
            # mode chain
            if not (len(body) == 1 and isinstance(body[0], ast.If)):
                raise TranslateError(f'{fn.name}: unsupported branch body for {ty}')
            node = body[0]
            done = set()
            while True:
                ms = _test(node.test, 'mode')
                if ms is None:
                    raise TranslateError(f'{fn.name}: unsupported mode test for {ty}')
                k = _kernel_assign(node.body, resvar, src)
                if k is None:
                    raise TranslateError(f'{fn.name}: unsupported mode body for {ty}')
                for m in ms:
                    if m in MODES and m not in done:
                        table[(ty, m)] = k
                        done.add(m)
                if len(node.orelse) == 1 and isinstance(node.orelse[0], ast.If):
                    node = node.orelse[0]
                    continue
                if _is_raise(node.orelse):
                    break
                k = _kernel_assign(node.orelse, resvar, src)
                if k is None:
                    raise TranslateError(f'{fn.name}: unsupported else body for {ty}')
                for m in MODES:
                    if m not in done:
                        table[(ty, m)] = k
                break
    return table, mix, default_mode


def _mix_info(fn, body, resvar, src):
    """mix branch: loop over self.elements.items(), recursive call; which
    keywords are forwarded, and the assignment  res[self.elements.types == k] = partial"""
    loops = [s for s in body if isinstance(s, ast.For)]
    if len(loops) != 1:
        raise TranslateError(f'{fn.name}: unsupported mix branch')
    loop = loops[0]
    if ast.unparse(loop.iter) != 'self.elements.items()':
        raise TranslateError(f'{fn.name}: mix loop is not over self.elements.items()')
    calls = [n for n in ast.walk(loop) if isinstance(n, ast.Call) and
             isinstance(n.func, ast.Attribute) and n.func.attr == fn.name]
    if len(calls) != 1:
        raise TranslateError(f'{fn.name}: mix branch without a single recursive call')
    kws = {k.arg: ast.unparse(k.value) for k in calls[0].keywords}
    if kws.get('elements') != 'e' or kws.get('element_type') != 'k' or kws.get('update') != 'False':
        raise TranslateError(f'{fn.name}: unexpected recursive call {kws}')
    assigns = [s for s in loop.body if isinstance(s, ast.Assign) and
               isinstance(s.targets[0], ast.Subscript)]
    if len(assigns) != 1:
        raise TranslateError(f'{fn.name}: unexpected mix assignment')
    target = ast.unparse(assigns[0].targets[0])
    if target == f'{resvar}[self.elements.types == k]':
        by_id = False      # j-th slot of type k <- j-th row of block k (storage order)
    elif target == f'{resvar}[self.collect_element_indices_by_ids(e.ids)]':
        by_id = True       # slot of element id <- value of that element
    else:
        raise TranslateError(f'{fn.name}: unexpected mix assignment {target}')
    val = assigns[0].value
    # the recursive result, stored directly or through the one name it was bound to
    if not (val is calls[0] or (isinstance(val, ast.Name) and
                                val.id == calls_target_name(loop, calls[0]))):
        raise TranslateError(f'{fn.name}: mix assignment does not store the recursive result')
    return {'passes_mode': kws.get('mode') == 'mode', 'keywords': sorted(kws),
            'assignment': ast.unparse(assigns[0]), 'by_id': by_id}


def calls_target_name(loop, call):
    for s in loop.body:
        if isinstance(s, ast.Assign) and s.value is call and len(s.targets) == 1 and \
                isinstance(s.targets[0], ast.Name):
            return s.targets[0].id
    return None


def metrics_dispatch(fn, src, types):
    """calculate_element_metrics: type -> 'areas' | 'volumes' | None"""
    chain = None
    for s in fn.body:
        if isinstance(s, ast.If) and _test(s.test, 'element_type') is not None:
            chain = s
    if chain is None:
        raise TranslateError('calculate_element_metrics: dispatch chain not found')
    out = {ty: None for ty in types}
    node, mix = chain, False
    while True:
        ts = _test(node.test, 'element_type')
        if ts is None:
            raise TranslateError('calculate_element_metrics: unsupported test')
        if ts == ['mix']:
            mix = _mix_info(fn, node.body, 'metrics', src)
        else:
            if len(node.body) != 1 or not isinstance(node.body[0], ast.Assign):
                raise TranslateError('calculate_element_metrics: unsupported branch')
            v = node.body[0].value
            if not (isinstance(v, ast.Call) and isinstance(v.func, ast.Attribute) and
                    v.func.attr in ('calculate_element_areas', 'calculate_element_volumes')):
                raise TranslateError('calculate_element_metrics: unsupported branch')
            if any(k.arg == 'mode' for k in v.keywords):
                raise TranslateError('calculate_element_metrics: passes a mode (model assumes default)')
            for ty in ts:
                if ty in out and out[ty] is None:
                    out[ty] = 'areas' if v.func.attr.endswith('areas') else 'volumes'
        if len(node.orelse) == 1 and isinstance(node.orelse[0], ast.If):
            node = node.orelse[0]
            continue
        if not _is_raise(node.orelse):
            raise TranslateError('calculate_element_metrics: chain must end in raise')
        break
    return out, mix


# ----------------------------------------------------------------- top level
def region_sha(src, fn):
    return hashlib.sha256(ast.get_source_segment(src, fn).encode()).hexdigest()


def translate(repo):
    repo = Path(repo)
    gp = repo / 'femio' / 'geometry_processor.py'
    src = gp.read_text()
    tree = ast.parse(src)
    cls = [n for n in tree.body if isinstance(n, ast.ClassDef) and n.name == 'GeometryProcessorMixin']
    if len(cls) != 1:
        raise TranslateError('GeometryProcessorMixin not found')
    methods = {}
    for n in cls[0].body:
        if isinstance(n, ast.FunctionDef):
            if n.name in methods:
                raise TranslateError(f'method {n.name} defined twice')
            methods[n.name] = n
    # element type list (order of FEMElementalAttribute.items())
    esrc = (repo / 'femio' / 'fem_elemental_attribute.py').read_text()
    etree = ast.parse(esrc)
    types = None
    for n in ast.walk(etree):
        if isinstance(n, ast.Assign) and len(n.targets) == 1 and \
                isinstance(n.targets[0], ast.Name) and n.targets[0].id == 'ELEMENT_TYPES':
            types = _strs(n.value)
    if not types:
        raise TranslateError('ELEMENT_TYPES not found')
    consumed = {}
    disp = {}
    for entry, resvar in (('calculate_element_areas', 'areas'),
                          ('calculate_element_volumes', 'volumes'),
                          ('calculate_element_normals', 'normals')):
        if entry not in methods:
            raise TranslateError(f'{entry} not found')
        table, mix, default_mode = dispatch_of(methods[entry], resvar, src, types)
        disp[entry] = {'table': table, 'mix': mix, 'default_mode': default_mode}
        consumed['geometry_processor.py:' + entry] = region_sha(src, methods[entry])
    # calculate_element_normals post-processes with functions.normalize
    # (by meaning: exactly one top-level `x = functions.normalize(x)` on the result variable, after
    # the dispatch chain; keep_zeros not passed)
    nfn = methods['calculate_element_normals']
    hits = [i for i, st in enumerate(nfn.body)
            if isinstance(st, ast.Assign) and len(st.targets) == 1 and isinstance(st.targets[0], ast.Name)
            and st.targets[0].id == 'normals' and isinstance(st.value, ast.Call)
            and ast.unparse(st.value.func) == 'functions.normalize' and not st.value.keywords
            and len(st.value.args) == 1 and isinstance(st.value.args[0], ast.Name)
            and st.value.args[0].id == 'normals']
    chain_at = [i for i, st in enumerate(nfn.body)
                if isinstance(st, ast.If) and _test(st.test, 'element_type') is not None]
    if len(hits) != 1 or not chain_at or hits[0] < chain_at[0]:
        raise TranslateError('calculate_element_normals: final functions.normalize not found')
    mt, mmix = metrics_dispatch(methods['calculate_element_metrics'], src, types)
    disp['calculate_element_metrics'] = {'table': mt, 'mix': mmix}
    consumed['geometry_processor.py:calculate_element_metrics'] = \
        region_sha(src, methods['calculate_element_metrics'])
    # kernels referenced by the dispatchers
    names = []
    for entry in ('calculate_element_areas', 'calculate_element_volumes',
                  'calculate_element_normals'):
        for key, k in disp[entry]['table'].items():
            if k is not None and k[0] not in names:
                names.append(k[0])
    for extra in ['_calculate_tri_crosses']:
        if extra not in names:
            names.append(extra)
    kernels = []
    for name in POINT_KERNELS + names:
        if name in HAND:
            continue
        if name not in methods:
            raise TranslateError(f'kernel {name} not found')
        fn = methods[name]
        it = Interp(methods, src)
        params = [x.arg for x in fn.args.args][1:]
        if name in POINT_KERNELS:
            args = [Sym('V', 'q%d' % i) for i in range(len(params))]
            argnames = ['q%d' % i for i in range(len(params))]
            it.used.update(argnames)
            res = it.run_function(fn, args, None, fn, has_self=True)
            if it.cols:
                raise TranslateError(f'{name}: point kernel reads element columns')
        else:
            if params != ['elements']:
                raise TranslateError(f'{name}: expected (self, elements), got {params}')
            res = it.run_function(fn, [ELEMS], None, fn, has_self=True)
            if not it.cols or sorted(it.cols) != list(range(max(it.cols) + 1)):
                raise TranslateError(f'{name}: element columns used are not 0..k-1: {sorted(it.cols)}')
            argnames = ['p%d' % i for i in range(max(it.cols) + 1)]
        if not isinstance(res, Sym):
            raise TranslateError(f'{name}: result is not a scalar/vector')
        kernels.append({'py': name, 'coq': coq_name(name), 'args': argnames, 'ty': res.ty,
                        'bindings': it.bindings, 'result': res.e,
                        'point': name in POINT_KERNELS, 'notes': sorted(it.notes)})
        consumed['geometry_processor.py:' + name] = region_sha(src, fn)
    for name in HAND_REGION:
        if name not in methods:
            raise TranslateError(f'hand-modelled method {name} not found')
        consumed['geometry_processor.py:' + name + ' (hand model)'] = region_sha(src, methods[name])
    # the numba polyhedron cores: fans from the coordinate origin, or from the first
    # node of the first face (`F = nodes[poly[L:L + k]] - origin`, origin = nodes[poly[2]])
    shifted = []
    for name in ('_calculate_element_volumes_polyhedron_core',
                 '_calculate_element_volumes_polyhedron_centroid_core'):
        txt = ast.unparse(methods[name])
        plain = txt.count('F = nodes[poly[L:L + k]]\n') == 1 and 'origin' not in txt
        local = txt.count('F = nodes[poly[L:L + k]] - origin\n') == 1 and \
            txt.count('origin = nodes[poly[2]].astype(np.float64)') == 1 and \
            txt.count('origin = np.zeros(3)') == 1
        if plain == local:
            raise TranslateError(f'{name}: neither the origin-based nor the local-origin form')
        shifted.append(local)
    if shifted[0] != shifted[1]:
        raise TranslateError('polyhedron cores disagree about the local origin')
    # arg kind of hand kernels
    for entry in ('calculate_element_areas', 'calculate_element_volumes',
                  'calculate_element_normals'):
        for key, k in disp[entry]['table'].items():
            if k is None:
                continue
            want = 'faces' if 'polyhedron' in k[0] else 'elements'
            if k[1] != want:
                raise TranslateError(f'{entry}{key}: kernel {k[0]} called with {k[1]}')
    return {'kernels': kernels, 'dispatch': disp, 'types': types,
            'polyhedron_local_origin': shifted[0]}, consumed


# ---------------------------------------------------------------------- emit
def cs(s):
    return '"' + s + '"'


def emit(model):
    out = ['(* GENERATED by translate/c11_kernels.py from femio/geometry_processor.py.',
           '   Do not edit: regenerated on every run of ./check C11. *)',
           'From Coq Require Import ZArith List String Bool.',
           'Import ListNotations.',
           'From FV.C11 Require Import Model.',
           'Open Scope string_scope.', '',
           '(* the numba polyhedron cores subtract the first node of the first face before the fans *)',
           'Definition polyhedron_local_origin : bool := '
           + ('true' if model['polyhedron_local_origin'] else 'false') + '.', '',
           'Section Kernels.', 'Variable T : Type.', 'Variable O : Ops T.', '']
    kmap = {}
    for k in model['kernels']:
        kmap[k['py']] = k
        tyname = 'T' if k['ty'] == 'S' else 'v3 T'
        out.append(f"(* {k['py']}" + ('; ' + '; '.join(k['notes']) if k['notes'] else '') + ' *)')
        out.append(f"Definition {k['coq']} ({' '.join(k['args'])} : v3 T) : {tyname} :=")
        for n, ty, e in k['bindings']:
            out.append(f'  let {n} := {e} in')
        out.append(f"  {k['result']}.")
        out.append('')
    # apply a kernel (by python name) to the point list of one element
    for ty, fname in (('S', 'apply_scalar'), ('V', 'apply_vector')):
        tyname = 'T' if ty == 'S' else 'v3 T'
        out.append(f'Definition {fname} (name : string) (pts : list (v3 T)) '
                   f'(faces : list (list (v3 T))) : option ({tyname}) :=')
        for k in model['kernels']:
            if k['ty'] != ty or k['point']:
                continue
            pat = ' :: '.join(k['args']) + ' :: _'
            out.append(f"  if String.eqb name {cs(k['py'])} then "
                       f"match pts with {pat} => Some ({k['coq']} {' '.join(k['args'])}) "
                       f"| _ => None end else")
        for py, (hty, hname) in HAND.items():
            if hty != ty:
                continue
            if 'polyhedron' in py:
                out.append(f'  if String.eqb name {cs(py)} then Some ({hname} O '
                           f'(shift_faces_if O polyhedron_local_origin faces)) else')
            elif hty == 'S':
                out.append(f'  if String.eqb name {cs(py)} then {hname} O pts else')
            else:
                hn = {'polygon_normal_fan': 'polygon_cross_fan',
                      'polygon_normal_centroid': 'polygon_cross_centroid'}[hname]
                out.append(f'  if String.eqb name {cs(py)} then '
                           f'option_map (normalize O) ({hn} O pts) else')
        out.append('  None.')
        out.append('')
    out.append('End Kernels.')
    out.append('')
    for k in model['kernels']:
        out.append(f"Arguments {k['coq']} {{T}} O {' '.join(k['args'])}.")
    out.append('Arguments apply_scalar {T} O name pts faces.')
    out.append('Arguments apply_vector {T} O name pts faces.')
    out.append('')
    # dispatch tables
    out.append('Definition element_types : list string :=')
    out.append('  [' + '; '.join(cs(t) for t in model['types']) + '].')
    for entry, tname in (('calculate_element_areas', 'areas'),
                         ('calculate_element_volumes', 'volumes'),
                         ('calculate_element_normals', 'normals')):
        d = model['dispatch'][entry]
        rows = []
        for (ty, mode), k in d['table'].items():
            if k is not None:
                rows.append(f'(({cs(ty)}, {cs(mode)}), {cs(k[0])})')
        out.append(f'Definition {tname}_table : list ((string * string) * string) :=')
        out.append('  [' + ';\n   '.join(rows) + '].')
        out.append(f"Definition {tname}_default_mode : string := {cs(d['default_mode'])}.")
        pm = 'true' if (d['mix'] and d['mix']['passes_mode']) else 'false'
        has = 'true' if d['mix'] else 'false'
        out.append(f'Definition {tname}_mix_supported : bool := {has}.')
        out.append(f'Definition {tname}_mix_passes_mode : bool := {pm}.')
        bi = 'true' if (d['mix'] and d['mix']['by_id']) else 'false'
        out.append(f'Definition {tname}_mix_by_id : bool := {bi}.')
    d = model['dispatch']['calculate_element_metrics']
    rows = [f'({cs(ty)}, {cs(v)})' for ty, v in d['table'].items() if v is not None]
    out.append('Definition metrics_table : list (string * string) :=')
    out.append('  [' + '; '.join(rows) + '].')
    out.append(f"Definition metrics_mix_supported : bool := {'true' if d['mix'] else 'false'}.")
    out.append("Definition metrics_mix_by_id : bool := "
               f"{'true' if (d['mix'] and d['mix']['by_id']) else 'false'}.")
    out.append('Definition kernel_names : list string :=')
    out.append('  [' + '; '.join(cs(k['py']) for k in model['kernels']) + '].')
    return '\n'.join(out) + '\n'


if __name__ == '__main__':
    import sys
    m, c = translate(sys.argv[1] if len(sys.argv) > 1 else '/repo')
    sys.stdout.write(emit(m))
