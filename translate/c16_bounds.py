"""Fail-closed translator for the three box-bound kernels of the octree searches
(femio/graph_processor.py):

    _nns_from_nodes_to_nodes.possible_dist_min            -> gen_possible_dist_min
    _calc_directed_hausdorff_nodes.possible_dist_max_node -> gen_possible_dist_max_node
    _calc_directed_hausdorff_nodes.possible_dist_range    -> gen_possible_dist_range

Each is a straight-line numeric function.  Accepted grammar:
  stmt := a, b, c, d = ARR[name]            (row of a node_xyzw array = a box)
        | name = expr
        | return expr | return name, name
  expr := name | int | expr (+|-|*) expr | expr ** 2 | (expr) ** .5
        | min(e, e) | max(e, e) | abs(e) | ARR[name, k]
`(e) ** .5` is allowed only as the outermost operation of a returned value (or
of an assignment whose name is only returned): the model works with squared
distances, so the square root is dropped and the generated function returns the
square.  Anything else raises TranslateError."""
import ast
import textwrap
from pathlib import Path

import hashlib


class TranslateError(Exception):
    pass


def sha(s):
    return hashlib.sha256(s.encode()).hexdigest()


def find_nested(tree, outer, inner):
    for node in ast.walk(tree):
        if isinstance(node, ast.FunctionDef) and node.name == outer:
            for sub in ast.walk(node):
                if isinstance(sub, ast.FunctionDef) and sub.name == inner and sub is not node:
                    return sub
    raise TranslateError(f'{outer}.{inner} not found')


BOX_FIELDS = ['x', 'y', 'z', 'w']


class Fn:
    def __init__(self, fdef, arrays, point_args):
        """arrays: {python array name: coq box variable}; point_args: names of scalar args that
        are coordinates of the query point (in order x, y, z) or None"""
        self.fdef = fdef
        self.arrays = arrays
        self.lets = []          # (name, coq expr)
        self.sqrt_names = {}    # name -> coq expr of the square
        self.env = set()
        self.boxes_used = {}    # coq box var -> (index arg)
        self.point_args = point_args

    def err(self, node, msg):
        raise TranslateError(f'{self.fdef.name}: line {getattr(node, "lineno", "?")}: {msg}')

    def box_component(self, arr, idx_node, k, node):
        if arr not in self.arrays:
            self.err(node, f'unknown array {arr}')
        if not isinstance(idx_node, ast.Name):
            self.err(node, 'array row index must be a name')
        bv = self.arrays[arr]
        prev = self.boxes_used.setdefault(bv, idx_node.id)
        if prev != idx_node.id:
            self.err(node, f'array {arr} indexed by two different names')
        return f'{bv}_{BOX_FIELDS[k]}'

    def expr(self, e, allow_sqrt=False):
        if isinstance(e, ast.Name):
            if e.id in self.sqrt_names:
                self.err(e, f'{e.id} holds a square root and is used in arithmetic')
            if e.id not in self.env:
                self.err(e, f'unbound name {e.id}')
            return e.id
        if isinstance(e, ast.Constant) and isinstance(e.value, int) and not isinstance(e.value, bool):
            return f'({e.value})' if e.value < 0 else str(e.value)
        if isinstance(e, ast.BinOp):
            if isinstance(e.op, ast.Pow):
                if isinstance(e.right, ast.Constant) and e.right.value == 2 and isinstance(e.right.value, int):
                    return f'(sq {self.expr(e.left)})'
                if isinstance(e.right, ast.Constant) and e.right.value == 0.5:
                    if not allow_sqrt:
                        self.err(e, 'square root inside an expression')
                    return ('SQRT', self.expr(e.left))
                self.err(e, 'unsupported power')
            op = {ast.Add: '+', ast.Sub: '-', ast.Mult: '*'}.get(type(e.op))
            if op is None:
                self.err(e, f'unsupported operator {type(e.op).__name__}')
            return f'({self.expr(e.left)} {op} {self.expr(e.right)})'
        if isinstance(e, ast.Call) and isinstance(e.func, ast.Name) and not e.keywords:
            if e.func.id in ('min', 'max') and len(e.args) == 2:
                return f'(Z.{e.func.id} {self.expr(e.args[0])} {self.expr(e.args[1])})'
            if e.func.id == 'abs' and len(e.args) == 1:
                return f'(Z.abs {self.expr(e.args[0])})'
            self.err(e, f'unsupported call {e.func.id}')
        if isinstance(e, ast.Subscript) and isinstance(e.value, ast.Name):
            sl = e.slice
            if isinstance(sl, ast.Tuple) and len(sl.elts) == 2 and isinstance(sl.elts[1], ast.Constant) \
                    and sl.elts[1].value in (0, 1, 2, 3):
                return self.box_component(e.value.id, sl.elts[0], sl.elts[1].value, e)
            self.err(e, 'unsupported subscript')
        self.err(e, f'unsupported expression {type(e).__name__}')

    def translate(self):
        args = [a.arg for a in self.fdef.args.args]
        if self.fdef.args.vararg or self.fdef.args.kwarg or self.fdef.args.defaults:
            self.err(self.fdef, 'unsupported signature')
        self.index_args = [a for a in args if a not in (self.point_args or [])]
        for a in (self.point_args or []):
            if a not in args:
                self.err(self.fdef, f'expected argument {a}')
            self.env.add(a)
        body = list(self.fdef.body)
        if body and isinstance(body[0], ast.Expr) and isinstance(body[0].value, ast.Constant):
            body = body[1:]
        ret = None
        for st in body:
            if ret is not None:
                self.err(st, 'statement after return')
            if isinstance(st, ast.Assign) and len(st.targets) == 1:
                tg = st.targets[0]
                if isinstance(tg, ast.Tuple):
                    v = st.value
                    if not (isinstance(v, ast.Subscript) and isinstance(v.value, ast.Name)
                            and isinstance(v.slice, ast.Name) and len(tg.elts) == 4
                            and all(isinstance(t, ast.Name) for t in tg.elts)):
                        self.err(st, 'unsupported tuple assignment')
                    for k, t in enumerate(tg.elts):
                        comp = self.box_component(v.value.id, v.slice, k, st)
                        self.lets.append((t.id, comp))
                        self.env.add(t.id)
                elif isinstance(tg, ast.Name):
                    val = self.expr(st.value, allow_sqrt=True)
                    if isinstance(val, tuple):
                        self.sqrt_names[tg.id] = val[1]
                    else:
                        if tg.id in self.env and tg.id in (self.point_args or []):
                            self.err(st, 'assignment to an argument')
                        self.lets.append((tg.id, val))
                        self.env.add(tg.id)
                else:
                    self.err(st, 'unsupported assignment target')
            elif isinstance(st, ast.Return) and st.value is not None:
                vals = st.value.elts if isinstance(st.value, ast.Tuple) else [st.value]
                ret = []
                for v in vals:
                    if isinstance(v, ast.Name) and v.id in self.sqrt_names:
                        ret.append(self.sqrt_names[v.id])
                    else:
                        r = self.expr(v, allow_sqrt=True)
                        if not isinstance(r, tuple):
                            self.err(v, 'returned value is not a square root')
                        ret.append(r[1])
            else:
                self.err(st, f'unsupported statement {type(st).__name__}')
        if ret is None:
            self.err(self.fdef, 'no return')
        for a in self.index_args:
            if a not in self.boxes_used.values():
                self.err(self.fdef, f'index argument {a} unused')
        return ret


def translate(repo):
    path = Path(repo) / 'femio' / 'graph_processor.py'
    src = path.read_text()
    tree = ast.parse(src)
    out = []
    consumed = {}
    specs = [
        ('_nns_from_nodes_to_nodes', 'possible_dist_min', {'node_xyzw': 'b'}, ['x', 'y', 'z'], ['b'], 1),
        ('_calc_directed_hausdorff_nodes', 'possible_dist_max_node',
         {'node_xyzw_A': 'a', 'node_xyzw_B': 'b'}, None, ['a', 'b'], 1),
        ('_calc_directed_hausdorff_nodes', 'possible_dist_range', {'node_xyzw_B': 'b'},
         ['x', 'y', 'z'], ['b'], 2),
    ]
    pysrc = {}
    for outer, inner, arrays, pargs, boxes, nret in specs:
        fdef = find_nested(tree, outer, inner)
        seg = ast.get_source_segment(src, fdef)
        consumed[f'femio/graph_processor.py:{outer}.{inner}'] = sha(seg)
        pysrc[inner] = textwrap.dedent(' ' * fdef.col_offset + seg)
        fn = Fn(fdef, arrays, pargs)
        ret = fn.translate()
        if len(ret) != nret:
            raise TranslateError(f'{inner}: returns {len(ret)} values, expected {nret}')
        if sorted(fn.boxes_used) != sorted(boxes):
            raise TranslateError(f'{inner}: boxes used {sorted(fn.boxes_used)}')
        out.append((inner, boxes, pargs, fn.lets, ret))
    return out, consumed, pysrc


def emit(fns):
    L = ['(* GENERATED by translate/c16_bounds.py from femio/graph_processor.py -- do not edit.',
         '   Squared versions of the box-bound kernels (the final `** .5` is dropped). *)',
         'From Coq Require Import ZArith.', 'From FV.C16 Require Import Model.', 'Open Scope Z_scope.', '']
    for name, boxes, pargs, lets, ret in fns:
        params = ' '.join(f'({b} : box)' for b in boxes) + (' (q : P)' if pargs else '')
        rty = 'Z' if len(ret) == 1 else '(Z * Z)%type'
        L.append(f'Definition gen_{name} {params} : {rty} :=')
        for b in boxes:
            L.append(f"  let '({b}_x, {b}_y, {b}_z, {b}_w) := {b} in")
        if pargs:
            L.append(f"  let '({', '.join(pargs)}) := q in")
        for n, e in lets:
            L.append(f'  let {n} := {e} in')
        L.append('  ' + (ret[0] if len(ret) == 1 else '(' + ', '.join(ret) + ')') + '.')
        L.append('')
    return '\n'.join(L)


if __name__ == '__main__':
    import sys
    fns, consumed, _ = translate(sys.argv[1] if len(sys.argv) > 1 else '/repo')
    print(emit(fns))
