"""Translator for functions.align_nnz  ->  coq/C17/gen/AlignCfg.v.

What is read from the tree under test (by meaning: names are resolved through
the assignments of the function, of the closure / module-level private helper
that computes the keys, and of the function enclosing a closure):

  flat_key      the expression the keys handed to np.searchsorted are computed
                with, as a polynomial in r (row of a stored entry:
                np.repeat(np.arange(n_row), np.diff(m.indptr))), c (m.indices),
                n_row, n_col (m.shape of any of the same-shape matrices)
  keys_are_int64                 the row numbers are created with dtype=np.int64
  union_indices_sorted           sort_indices() is called on the union pattern
                                 before its keys are taken
  values_accumulated_with_add_at np.add.at(target, searchsorted(..), m.data)
  shapes_checked                 a ValueError is raised when the shapes differ
  non_csr_inputs_converted_with_tocsr   else-branch: align_nnz([s.tocsr() ...])

Anything that cannot be read raises TranslateError: the check then keeps the
committed baseline (coq/C17/gen_baseline/AlignCfg.v.txt) as the hand model and
widens the correspondence (changed spelling is not a violation).
"""
import ast
import hashlib
from pathlib import Path


class TranslateError(Exception):
    pass


def _is_np(node, *names):
    parts = []
    while isinstance(node, ast.Attribute):
        parts.append(node.attr)
        node = node.value
    return isinstance(node, ast.Name) and node.id == 'np' and tuple(reversed(parts)) == names


class Scope:
    """single assignments of one function body (nested defs excluded), with a parent"""

    def __init__(self, fdef, parent=None):
        self.fdef, self.parent = fdef, parent
        self.params = [a.arg for a in fdef.args.args + fdef.args.kwonlyargs]
        self.bind = {}
        count = {}
        for st in self._walk(fdef):
            tgts = []
            if isinstance(st, ast.Assign):
                tgts = st.targets
            elif isinstance(st, (ast.AugAssign, ast.AnnAssign)):
                tgts = [st.target]
            elif isinstance(st, (ast.For, ast.comprehension)):
                tgts = [st.target]
            for t in tgts:
                for n in ast.walk(t):
                    if isinstance(n, ast.Name):
                        count[n.id] = count.get(n.id, 0) + 1
            if isinstance(st, ast.Assign) and len(st.targets) == 1:
                t = st.targets[0]
                if isinstance(t, ast.Name):
                    self.bind[t.id] = ('expr', st.value)
                elif isinstance(t, ast.Tuple) and all(isinstance(e, ast.Name) for e in t.elts):
                    for i, e in enumerate(t.elts):
                        self.bind[e.id] = ('unpack', st.value, i)
        self.multi = {n for n, k in count.items() if k > 1}

    @staticmethod
    def _walk(fdef):
        todo = list(fdef.body)
        while todo:
            n = todo.pop(0)
            if isinstance(n, (ast.FunctionDef, ast.Lambda, ast.ClassDef)):
                continue
            yield n
            todo.extend(ast.iter_child_nodes(n))

    def lookup(self, name):
        """-> (binding, scope) | ('param', scope) | None"""
        if name in self.bind and name not in self.multi:
            return self.bind[name], self
        if name in self.params:
            return ('param',), self
        if name in self.bind or name in self.multi:
            return ('multi',), self
        if self.parent is not None:
            return self.parent.lookup(name)
        return None


class AlignReader:
    def __init__(self, src):
        self.src = src
        self.tree = ast.parse(src)
        self.funcs = {n.name: n for n in self.tree.body if isinstance(n, ast.FunctionDef)}
        if 'align_nnz' not in self.funcs:
            raise TranslateError('functions.align_nnz not found')
        self.top = self.funcs['align_nnz']
        self.top_scope = Scope(self.top)
        self.closures = {n.name: n for n in ast.walk(self.top)
                         if isinstance(n, ast.FunctionDef) and n is not self.top}
        self.int64 = True
        self.saw_rows = False
        self.consumed = {'align_nnz'}

    def err(self, node, msg):
        raise TranslateError(f'align_nnz: line {getattr(node, "lineno", "?")}: {msg}: '
                             f'{ast.dump(node)[:160] if isinstance(node, ast.AST) else node}')

    # ---- helpers (closures of align_nnz or module-level functions)
    def helper(self, f):
        if isinstance(f, ast.Name):
            if f.id in self.closures:
                return self.closures[f.id], Scope(self.closures[f.id], self.top_scope)
            if f.id in self.funcs and f.id != 'align_nnz':
                self.consumed.add(f.id)
                return self.funcs[f.id], Scope(self.funcs[f.id])
        return None

    def resolve(self, node, scope, depth=0):
        """follow names through single assignments -> (node, scope)"""
        while isinstance(node, ast.Name) and depth < 20:
            b = scope.lookup(node.id)
            if b is None or b[0][0] != 'expr':
                break
            node, scope = b[0][1], b[1]
            depth += 1
        return node, scope

    # ---- the key polynomial
    def is_matrix_shape(self, node, scope):
        """node is <some sparse matrix>.shape (all inputs share one shape, checked first)"""
        node, scope = self.resolve(node, scope)
        return isinstance(node, ast.Attribute) and node.attr == 'shape'

    def dim(self, node, scope):
        """'n_row' / 'n_col' if node denotes a dimension of the common shape"""
        if isinstance(node, ast.Name):
            b = scope.lookup(node.id)
            if b is not None and b[0][0] == 'unpack' and b[0][2] in (0, 1) and \
                    self.is_matrix_shape(b[0][1], b[1]):
                return ('n_row', 'n_col')[b[0][2]]
            if b is not None and b[0][0] == 'expr':
                return self.dim(b[0][1], b[1])
        if isinstance(node, ast.Subscript) and isinstance(node.slice, ast.Constant) and \
                node.slice.value in (0, 1) and self.is_matrix_shape(node.value, scope):
            return ('n_row', 'n_col')[node.slice.value]
        return None

    def poly(self, node, scope, m):
        """Coq text of the key expression; m = the helper's matrix parameter"""
        d = self.dim(node, scope)
        if d is not None:
            return d
        if isinstance(node, ast.Constant) and type(node.value) is int:
            return f'({node.value})'
        if isinstance(node, ast.Name):
            b = scope.lookup(node.id)
            if b is None or b[0][0] != 'expr':
                self.err(node, 'name in the key expression cannot be resolved')
            return self.poly(b[0][1], b[1], m)
        if isinstance(node, ast.Attribute) and node.attr == 'indices' and \
                isinstance(node.value, ast.Name) and node.value.id == m:
            return 'c'
        if isinstance(node, ast.BinOp) and isinstance(node.op, (ast.Add, ast.Mult, ast.Sub)):
            op = {ast.Add: '+', ast.Mult: '*', ast.Sub: '-'}[type(node.op)]
            return f'({self.poly(node.left, scope, m)} {op} {self.poly(node.right, scope, m)})'
        # rows = np.repeat(np.arange(n_row, dtype=np.int64), np.diff(m.indptr))
        if isinstance(node, ast.Call) and _is_np(node.func, 'repeat') and len(node.args) == 2 \
                and not node.keywords:
            ar, cnt = node.args
            ar, s_ar = self.resolve(ar, scope)
            cnt, s_cnt = self.resolve(cnt, scope)
            ok_cnt = isinstance(cnt, ast.Call) and _is_np(cnt.func, 'diff') and len(cnt.args) == 1 and \
                not cnt.keywords and isinstance(cnt.args[0], ast.Attribute) and \
                cnt.args[0].attr == 'indptr' and isinstance(cnt.args[0].value, ast.Name) and \
                cnt.args[0].value.id == m
            ok_ar = isinstance(ar, ast.Call) and _is_np(ar.func, 'arange') and len(ar.args) == 1 and \
                self.dim(ar.args[0], s_ar) == 'n_row'
            if not (ok_cnt and ok_ar):
                self.err(node, 'row numbers are not np.repeat(np.arange(n_row), np.diff(m.indptr))')
            kws = {k.arg: k.value for k in ar.keywords}
            if set(kws) - {'dtype'}:
                self.err(ar, 'np.arange keywords')
            dt = kws.get('dtype')
            if not (dt is not None and (_is_np(dt, 'int64') or
                                        (isinstance(dt, ast.Constant) and dt.value == 'int64'))):
                self.int64 = False
            self.saw_rows = True
            return 'r'
        if isinstance(node, ast.Call) and isinstance(node.func, ast.Attribute) and \
                node.func.attr == 'astype' and len(node.args) == 1:
            # a cast of the keys / row numbers: only a widening one keeps the value
            dt = node.args[0]
            if not (_is_np(dt, 'int64') or (isinstance(dt, ast.Constant) and dt.value == 'int64')):
                self.int64 = False
            return self.poly(node.func.value, scope, m)
        self.err(node, 'key expression form')

    def keys_of(self, node, scope):
        """node computes the flat keys of a matrix -> (polynomial text, matrix argument node, scope)"""
        node, scope = self.resolve(node, scope)
        if not isinstance(node, ast.Call):
            self.err(node, 'keys are not computed by a helper call')
        h = self.helper(node.func)
        if h is None or len(node.args) != 1 or node.keywords:
            self.err(node, 'keys helper call')
        fdef, hscope = h
        if len(hscope.params) != 1:
            self.err(fdef, 'keys helper signature')
        rets = [n for n in Scope._walk(fdef) if isinstance(n, ast.Return)]
        if len(rets) != 1 or rets[0].value is None or fdef.body[-1] is not rets[0]:
            self.err(fdef, 'keys helper must end with its only return')
        return self.poly(rets[0].value, hscope, hscope.params[0]), node.args[0], scope, fdef.name

    # ---- the whole function
    def read(self):
        top = self.top
        calls = [n for n in ast.walk(top) if isinstance(n, ast.Call) and _is_np(n.func, 'searchsorted')]
        if len(calls) != 1 or len(calls[0].args) != 2 or calls[0].keywords:
            self.err(top, 'exactly one np.searchsorted(keys, queries) expected')
        ss = calls[0]
        in_closure = any(ss in list(ast.walk(c)) for c in self.closures.values())
        if in_closure:
            self.err(ss, 'searchsorted inside a closure')
        k_poly, k_arg, k_scope, k_fn = self.keys_of(ss.args[0], self.top_scope)
        q_poly, q_arg, _, q_fn = self.keys_of(ss.args[1], self.top_scope)
        if k_poly != q_poly or k_fn != q_fn:
            self.err(ss, 'pattern keys and query keys are computed differently')
        if not self.saw_rows:
            self.err(ss, 'key expression does not use the row numbers')
        # the union pattern and its sort_indices()
        if not isinstance(k_arg, ast.Name):
            self.err(k_arg, 'union pattern is not a name')
        union = k_arg.id
        sorted_ = self.sorted_before(union, ss)
        # np.add.at(target, <searchsorted>, <q>.data)
        acc = False
        addat = None
        for n in ast.walk(top):
            if isinstance(n, ast.Call) and _is_np(n.func, 'add', 'at') and len(n.args) == 3:
                idx, _s = self.resolve(n.args[1], self.top_scope)
                if idx is ss and isinstance(n.args[2], ast.Attribute) and n.args[2].attr == 'data' \
                        and isinstance(q_arg, ast.Name) and isinstance(n.args[2].value, ast.Name) \
                        and n.args[2].value.id == q_arg.id:
                    acc = True
                    addat = n
        res = self.result_construction(ss, addat, union, q_arg)
        # shape check
        shapes = any(isinstance(n, ast.If) and any(
            isinstance(r, ast.Raise) and r.exc is not None and 'ValueError' in ast.dump(r.exc)
            for r in n.body) and 'shape' in ast.dump(n.test) for n in top.body)
        # else: return align_nnz([s.tocsr() for s in sparses])
        tocsr = False
        for n in ast.walk(top):
            if isinstance(n, ast.Return) and isinstance(n.value, ast.Call) and \
                    isinstance(n.value.func, ast.Name) and n.value.func.id == 'align_nnz' and \
                    len(n.value.args) == 1 and isinstance(n.value.args[0], ast.ListComp):
                lc = n.value.args[0]
                if isinstance(lc.elt, ast.Call) and isinstance(lc.elt.func, ast.Attribute) and \
                        lc.elt.func.attr == 'tocsr' and not lc.elt.args and not lc.elt.keywords and \
                        len(lc.generators) == 1 and not lc.generators[0].ifs and \
                        isinstance(lc.generators[0].iter, ast.Name) and \
                        lc.generators[0].iter.id == self.top_scope.params[0]:
                    tocsr = True
        return {'flat_key': k_poly, 'keys_are_int64': self.int64, 'union_indices_sorted': sorted_,
                'values_accumulated_with_add_at': acc, 'shapes_checked': shapes,
                'non_csr_inputs_converted_with_tocsr': tocsr, **res}

    def result_construction(self, ss, addat, union, q_arg):
        """the loop over the inputs and what is returned: data = np.zeros(len(union keys),
        dtype=...), one csr_matrix((data, union.indices, union.indptr), shape=union.shape)
        appended per input, in input order, the list returned; the dtype expression"""
        top = self.top
        dump = lambda x: ast.dump(x)   # noqa
        out = {'data_zero_initialised_on_union': False, 'outputs_on_union_pattern': False,
               'one_output_per_input_in_order': False, 'result_dtype': 'F64'}
        if addat is None or not isinstance(addat.args[0], ast.Name) or not isinstance(q_arg, ast.Name):
            self.err(top, 'np.add.at target')
        data = addat.args[0].id
        b = self.top_scope.lookup(data)
        if b is None or b[0][0] != 'expr' or not isinstance(b[0][1], ast.Call) or \
                not _is_np(b[0][1].func, 'zeros') or len(b[0][1].args) != 1:
            self.err(addat, 'accumulation target is not a fresh np.zeros array')
        z = b[0][1]
        keys_name = ss.args[0]
        ln = z.args[0]
        if isinstance(ln, ast.Call) and isinstance(ln.func, ast.Name) and ln.func.id == 'len' and \
                len(ln.args) == 1 and isinstance(keys_name, ast.Name) and \
                dump(ln.args[0]) == dump(keys_name):
            out['data_zero_initialised_on_union'] = True
        kws = {k.arg: k.value for k in z.keywords}
        if set(kws) - {'dtype'}:
            self.err(z, 'np.zeros keywords')
        if 'dtype' in kws:
            dt = kws['dtype']
            want = ast.parse(f'np.result_type({q_arg.id}.data.dtype, float)').body[0].value
            want2 = ast.parse(f'np.result_type(float, {q_arg.id}.data.dtype)').body[0].value
            if dump(dt) in (dump(want), dump(want2)):
                out['result_dtype'] = 'result_type d F64'
            elif dump(dt) in (dump(ast.parse('float').body[0].value), dump(ast.parse('np.float64').body[0].value)):
                out['result_dtype'] = 'F64'
            elif dump(dt) == dump(ast.parse(f'{q_arg.id}.data.dtype').body[0].value):
                out['result_dtype'] = 'd'
            else:
                self.err(dt, 'dtype expression of the returned data')
        # the loop
        loops = [n for n in ast.walk(top) if isinstance(n, ast.For) and addat in list(ast.walk(n))]
        if len(loops) != 1:
            self.err(top, 'the placement is not inside exactly one for loop')
        lp = loops[0]
        if not (isinstance(lp.iter, ast.Name) and lp.iter.id == self.top_scope.params[0] and
                isinstance(lp.target, ast.Name) and lp.target.id == q_arg.id and not lp.orelse):
            self.err(lp, 'loop is not `for <m> in <the parameter>`')
        apps = [st for st in lp.body if isinstance(st, ast.Expr) and isinstance(st.value, ast.Call) and
                isinstance(st.value.func, ast.Attribute) and st.value.func.attr == 'append' and
                isinstance(st.value.func.value, ast.Name) and len(st.value.args) == 1]
        all_apps = [n for n in ast.walk(lp) if isinstance(n, ast.Call) and isinstance(n.func, ast.Attribute)
                    and n.func.attr == 'append']
        if len(apps) != 1 or len(all_apps) != 1:
            self.err(lp, 'exactly one unconditional append per input expected')
        lst = apps[0].value.func.value.id
        lb = self.top_scope.lookup(lst)
        rets = [n for n in ast.walk(top) if isinstance(n, ast.Return) and isinstance(n.value, ast.Name)
                and n.value.id == lst]
        if lb is not None and lb[0][0] == 'expr' and isinstance(lb[0][1], ast.List) and not lb[0][1].elts \
                and len(rets) == 1 and rets[0].lineno > lp.lineno and \
                not any(isinstance(n, (ast.Break, ast.Continue)) for n in ast.walk(lp)):
            out['one_output_per_input_in_order'] = True
        want = ast.parse(f'sp.csr_matrix(({data}, {union}.indices, {union}.indptr), shape={union}.shape)'
                         ).body[0].value
        if dump(apps[0].value.args[0]) == dump(want) and addat.lineno < apps[0].lineno:
            out['outputs_on_union_pattern'] = True
        return out

    def sorted_before(self, union, ss):
        """`union.sort_indices()` is executed before the keys of `union` are taken: either a
        statement of align_nnz above the searchsorted, or the last thing the helper that
        builds the union pattern does to the matrix it returns"""
        for st in self.top.body if False else Scope._walk(self.top):
            if isinstance(st, ast.Expr) and isinstance(st.value, ast.Call) and \
                    isinstance(st.value.func, ast.Attribute) and st.value.func.attr == 'sort_indices' \
                    and isinstance(st.value.func.value, ast.Name) and st.value.func.value.id == union \
                    and st.lineno < ss.lineno:
                return True
        b = self.top_scope.lookup(union)
        if b is not None and b[0][0] == 'expr' and isinstance(b[0][1], ast.Call):
            h = self.helper(b[0][1].func)
            if h is not None:
                fdef, _ = h
                rets = [n for n in Scope._walk(fdef) if isinstance(n, ast.Return)]
                if len(rets) == 1 and isinstance(rets[0].value, ast.Name):
                    rn = rets[0].value.id
                    for st in Scope._walk(fdef):
                        if isinstance(st, ast.Expr) and isinstance(st.value, ast.Call) and \
                                isinstance(st.value.func, ast.Attribute) and \
                                st.value.func.attr == 'sort_indices' and \
                                isinstance(st.value.func.value, ast.Name) and \
                                st.value.func.value.id == rn and st.lineno < rets[0].lineno:
                            return True
        return False


FLAGS = ['keys_are_int64', 'union_indices_sorted', 'values_accumulated_with_add_at', 'shapes_checked',
         'non_csr_inputs_converted_with_tocsr', 'data_zero_initialised_on_union',
         'outputs_on_union_pattern', 'one_output_per_input_in_order']


def translate(repo):
    src = (Path(repo) / 'femio' / 'functions.py').read_text()
    rd = AlignReader(src)
    cfg = rd.read()
    consumed = {}
    for n in sorted(rd.consumed):
        consumed['functions.py:' + n] = hashlib.sha256(
            ast.get_source_segment(src, rd.funcs[n]).encode()).hexdigest()
    return cfg, consumed


def emit(cfg):
    out = ['(* GENERATED by translate/c17_align.py from femio/functions.py (align_nnz and the',
           '   helpers it calls) of the tree under test -- do not edit. *)',
           'From Coq Require Import ZArith.',
           'From FV.C17 Require Import AlignDtype.',
           'Open Scope Z_scope.',
           '',
           '(* the flat key of a stored entry, as the source computes it: r = row of the entry',
           '   (np.repeat(np.arange(n_row), np.diff(indptr))), c = its column (indices),',
           '   (n_row, n_col) = the common shape *)',
           f'Definition flat_key (n_row n_col r c : Z) : Z := {cfg["flat_key"]}.',
           '',
           '(* decisions read from the source *)']
    for f in FLAGS:
        out.append(f'Definition {f} : bool := {str(bool(cfg[f])).lower()}.')
    out.append('')
    out.append('(* dtype of the data of the returned matrices, from the dtype d of the input data')
    out.append('   (np.zeros(..., dtype=<this expression>)) *)')
    out.append(f'Definition result_dtype (d : dtype) : dtype := {cfg["result_dtype"]}.')
    return '\n'.join(out) + '\n'


if __name__ == '__main__':
    import sys
    cfg, _ = translate(sys.argv[1] if len(sys.argv) > 1 else '/repo')
    sys.stdout.write(emit(cfg))
