"""Fail-closed translator of the GLUE around the geometry kernels of
femio/geometry_processor.py  ->  coq/C11/gen/Glue.v :

 * `_validate_metric`  (the common exit of calculate_element_areas / _volumes /
   _metrics, also on the stored-result path): interpreted symbolically over a tiny
   ELEMENTWISE array language -- the result is `raise ValueError` under a disjunction of
   conditions `flag and any(P(x))`, else `map f metric` with `f` built from abs / negation /
   `x if flag else y` / np.where(P, a, b).  Anything that is not elementwise (a reduction to
   a scalar such as np.max, a size test, sorting ...) is outside the grammar.
 * `_slot_answers`  (does the stored 'area' / 'volume' / 'metric' result answer a call with
   these options?): boolean expression over the tuples `stored` / `options`: `is None`,
   `==`, `!=`, and/or/not, constant slices, `+`.
 * per entry point: the option tuple passed to `_slot_answers`, the one passed to
   `_store_slot`, the key, which flags the stored-result path and the final path hand to
   `_validate_metric`.

What is emitted is what the code says; the theorems of coq/C11/ProofsGlue.v
(validate is elementwise and idempotent; slot histories are option-history independent)
are re-checked against it.  TranslateError: the caller falls back to REFERENCE (the
semantics of the anchored source, tie H: pinned by the correspondence streams only) and
searches deeper -- a refactoring of the glue alone is not reported as a violation.
"""
import ast
import hashlib
from fractions import Fraction
from pathlib import Path


class TranslateError(Exception):
    pass


def _err(node, msg, src=''):
    seg = ast.get_source_segment(src, node) if (src and node is not None) else ''
    raise TranslateError(f'{msg} at line {getattr(node, "lineno", "?")}: {seg!r}')


def _chain(node):
    parts = []
    while isinstance(node, ast.Attribute):
        parts.append(node.attr)
        node = node.value
    if isinstance(node, ast.Name):
        parts.append(node.id)
        return list(reversed(parts))
    return None


def lit(fr):
    fr = Fraction(fr)
    return f'(lit O ({fr.numerator}) {fr.denominator})'


# ------------------------------------------------------------- _validate_metric
class Arr:        # elementwise image of the parameter: value of one element as a term in `x`
    def __init__(self, e):
        self.e = e


class BArr:       # elementwise predicate, a bool term in `x`
    def __init__(self, e):
        self.e = e


class B:          # scalar boolean (term over the flags and the list `metric`)
    def __init__(self, e):
        self.e = e


class Num:
    def __init__(self, v):
        self.v = Fraction(v)


class Validate:
    def __init__(self, fn, src):
        self.fn, self.src = fn, src
        a = fn.args
        if a.vararg or a.kwarg or a.posonlyargs or a.defaults or \
                any(d is not None for d in a.kw_defaults):
            _err(fn, '_validate_metric: unsupported parameter list', src)
        pos = [x.arg for x in a.args]
        kwo = [x.arg for x in a.kwonlyargs]
        if len(pos) != 2 or pos[0] != 'self':
            _err(fn, '_validate_metric: expected (self, metric, *, flags)', src)
        self.arr_name = pos[1]
        self.flags = kwo
        if sorted(kwo) != ['raise_negative_metric', 'return_abs_metric']:
            _err(fn, '_validate_metric: unexpected keyword-only parameters', src)
        self.raises = []          # boolean terms, in program order

    def ev(self, node, env):
        src = self.src
        if isinstance(node, ast.Constant):
            v = node.value
            if isinstance(v, bool):
                return B('true' if v else 'false')
            if isinstance(v, (int, float)):
                return Num(Fraction(repr(v)) if isinstance(v, float) else v)
            _err(node, 'unsupported constant', src)
        if isinstance(node, ast.Name):
            if node.id in env:
                return env[node.id]
            _err(node, f'unbound name {node.id}', src)
        if isinstance(node, ast.UnaryOp):
            v = self.ev(node.operand, env)
            if isinstance(node.op, ast.Not) and isinstance(v, B):
                return B(f'(negb {v.e})')
            if isinstance(node.op, ast.USub):
                if isinstance(v, Num):
                    return Num(-v.v)
                if isinstance(v, Arr):
                    return Arr(f'(opp O {v.e})')
            if isinstance(node.op, ast.Invert) and isinstance(v, BArr):
                return BArr(f'(negb {v.e})')
            _err(node, 'unsupported unary operator', src)
        if isinstance(node, ast.BoolOp):
            vs = [self.ev(x, env) for x in node.values]
            if not all(isinstance(v, B) for v in vs):
                _err(node, 'and/or of non-boolean values', src)
            op = '&&' if isinstance(node.op, ast.And) else '||'
            return B('(' + f' {op} '.join(v.e for v in vs) + ')')
        if isinstance(node, ast.Compare) and len(node.ops) == 1:
            a, b = self.ev(node.left, env), self.ev(node.comparators[0], env)
            op = node.ops[0]

            def term(v):
                return v.e if isinstance(v, Arr) else lit(v.v)
            if any(isinstance(v, Arr) for v in (a, b)) and \
                    all(isinstance(v, (Arr, Num)) for v in (a, b)):
                x, y = term(a), term(b)
                if isinstance(op, ast.Lt):
                    return BArr(f'(ltb_ O {x} {y})')
                if isinstance(op, ast.Gt):
                    return BArr(f'(ltb_ O {y} {x})')
                if isinstance(op, ast.GtE):
                    return BArr(f'(negb (ltb_ O {x} {y}))')
                if isinstance(op, ast.LtE):
                    return BArr(f'(negb (ltb_ O {y} {x}))')
            _err(node, 'unsupported comparison', src)
        if isinstance(node, ast.IfExp):
            t = self.ev(node.test, env)
            a, b = self.ev(node.body, env), self.ev(node.orelse, env)
            if isinstance(t, B) and isinstance(a, Arr) and isinstance(b, Arr):
                return Arr(f'(if {t.e} then {a.e} else {b.e})')
            _err(node, 'unsupported conditional expression', src)
        if isinstance(node, ast.Call):
            f = node.func
            ch = _chain(f)
            args = node.args
            if node.keywords:
                _err(node, 'keyword arguments', src)
            if ch in (['np', 'abs'], ['np', 'absolute'], ['np', 'fabs'], ['abs']) and len(args) == 1:
                v = self.ev(args[0], env)
                if isinstance(v, Arr):
                    return Arr(f'(mabs O {v.e})')
            if ch in (['np', 'any'], ['np', 'all']) and len(args) == 1:
                v = self.ev(args[0], env)
                if isinstance(v, BArr):
                    return self.reduce(v, ch[1])
            if isinstance(f, ast.Attribute) and f.attr in ('any', 'all') and not args:
                v = self.ev(f.value, env)
                if isinstance(v, BArr):
                    return self.reduce(v, f.attr)
            if ch == ['np', 'where'] and len(args) == 3:
                c, a, b = (self.ev(x, env) for x in args)
                if isinstance(c, BArr) and all(isinstance(v, (Arr, Num)) for v in (a, b)):
                    ta = a.e if isinstance(a, Arr) else lit(a.v)
                    tb = b.e if isinstance(b, Arr) else lit(b.v)
                    return Arr(f'(if {c.e} then {ta} else {tb})')
            if ch in (['np', 'negative'],) and len(args) == 1:
                v = self.ev(args[0], env)
                if isinstance(v, Arr):
                    return Arr(f'(opp O {v.e})')
            if ch == ['bool'] and len(args) == 1:
                v = self.ev(args[0], env)
                if isinstance(v, B):
                    return v
            _err(node, 'unsupported call', src)
        _err(node, f'unsupported expression {type(node).__name__}', src)

    def reduce(self, barr, how):
        fn = 'existsb' if how == 'any' else 'forallb'
        return B(f'({fn} (fun x => {barr.e}) metric)')

    RAISE = object()

    def conj(self, pc, t):
        return t if pc is None else f'({pc} && {t})'

    def block(self, stmts, env, pc):
        """-> None (fell through; env updated) | RAISE (every path raised) | Arr (returned value)"""
        for i, s in enumerate(stmts):
            if isinstance(s, ast.Expr) and isinstance(s.value, ast.Constant) and \
                    isinstance(s.value.value, str):
                continue
            if isinstance(s, ast.Raise):
                if not (isinstance(s.exc, ast.Call) and _chain(s.exc.func) == ['ValueError']):
                    _err(s, 'raise of something other than ValueError(...)', self.src)
                self.raises.append(pc or 'true')
                return self.RAISE
            if isinstance(s, ast.Return):
                v = self.ev(s.value, env) if s.value is not None else None
                if not isinstance(v, Arr):
                    _err(s, 'return of something that is not the (elementwise) array', self.src)
                return v
            if isinstance(s, ast.Assign) and len(s.targets) == 1 and isinstance(s.targets[0], ast.Name):
                v = self.ev(s.value, env)
                if not isinstance(v, (Arr, B, BArr)):
                    _err(s, 'unsupported assignment', self.src)
                env[s.targets[0].id] = v
                continue
            if isinstance(s, ast.If):
                t = self.ev(s.test, env)
                if not isinstance(t, B):
                    _err(s, 'if on a non-boolean', self.src)
                e1, e2 = dict(env), dict(env)
                pc1, pc2 = self.conj(pc, t.e), self.conj(pc, f'(negb {t.e})')
                r1 = self.block(s.body, e1, pc1)
                r2 = self.block(s.orelse, e2, pc2)
                if r1 is None and r2 is None:
                    for n in list(env):
                        if n not in e1 or n not in e2:
                            del env[n]
                    for n in set(e1) & set(e2):
                        a, b = e1[n], e2[n]
                        if a is b:
                            env[n] = a
                        elif isinstance(a, Arr) and isinstance(b, Arr):
                            env[n] = Arr(f'(if {t.e} then {a.e} else {b.e})')
                        elif n in env:
                            del env[n]
                    continue
                rest = stmts[i + 1:]
                if r1 is None:
                    r1 = self.block(rest, e1, pc1)
                if r2 is None:
                    r2 = self.block(rest, e2, pc2)
                if r1 is None or r2 is None:
                    _err(s, 'a path falls off the end of the function', self.src)
                if r1 is self.RAISE:
                    return r2
                if r2 is self.RAISE:
                    return r1
                return Arr(f'(if {t.e} then {r1.e} else {r2.e})')
            _err(s, f'unsupported statement {type(s).__name__}', self.src)
        return None

    def run(self):
        env = {self.arr_name: Arr('x')}
        for f in self.flags:
            env[f] = B(f)
        r = self.block(self.fn.body, env, None)
        if not isinstance(r, Arr):
            _err(self.fn, '_validate_metric does not return the array', self.src)
        return {'raises': self.raises, 'elem': r.e}


# ---------------------------------------------------------------- _slot_answers
class Tup:       # a tuple-valued term (list optv)
    def __init__(self, e):
        self.e = e


def _slot_expr(node, env, src):
    """-> Python bool (statically known) | str (Gallina bool term) | Tup"""
    if isinstance(node, ast.Constant) and isinstance(node.value, bool):
        return node.value
    if isinstance(node, ast.Name):
        if node.id in env:
            v = env[node.id]
            if v is None:
                _err(node, 'use of `stored` as a tuple where it may be None', src)
            return v
        _err(node, f'unbound name {node.id}', src)
    if isinstance(node, ast.Compare) and len(node.ops) == 1:
        op, left, right = node.ops[0], node.left, node.comparators[0]
        if isinstance(op, (ast.Is, ast.IsNot)) and isinstance(right, ast.Constant) and right.value is None \
                and isinstance(left, ast.Name) and left.id in env:
            is_none = env[left.id] is None
            return is_none if isinstance(op, ast.Is) else (not is_none)
        if isinstance(op, (ast.Eq, ast.NotEq)):
            a, b = _slot_expr(left, env, src), _slot_expr(right, env, src)
            if isinstance(a, Tup) and isinstance(b, Tup):
                e = f'(optl_eqb {a.e} {b.e})'
                return e if isinstance(op, ast.Eq) else f'(negb {e})'
        _err(node, 'unsupported comparison', src)
    if isinstance(node, ast.BoolOp):
        is_or = isinstance(node.op, ast.Or)
        terms = []
        for x in node.values:           # Python's short circuit, statically where possible
            v = _slot_expr(x, env, src)
            if isinstance(v, bool):
                if v == is_or:
                    if not terms:
                        return v
                    terms.append('true' if v else 'false')
                    break
                continue
            if not isinstance(v, str):
                _err(x, 'and/or of a non-boolean', src)
            terms.append(v)
        if not terms:
            return not is_or
        return '(' + (' || ' if is_or else ' && ').join(terms) + ')'
    if isinstance(node, ast.UnaryOp) and isinstance(node.op, ast.Not):
        v = _slot_expr(node.operand, env, src)
        if isinstance(v, bool):
            return not v
        if isinstance(v, str):
            return f'(negb {v})'
    if isinstance(node, ast.BinOp) and isinstance(node.op, ast.Add):
        a, b = _slot_expr(node.left, env, src), _slot_expr(node.right, env, src)
        if isinstance(a, Tup) and isinstance(b, Tup):
            return Tup(f'({a.e} ++ {b.e})')
    if isinstance(node, ast.Subscript) and isinstance(node.slice, ast.Slice):
        base = _slot_expr(node.value, env, src)
        sl = node.slice

        def bound(x):
            if x is None:
                return None
            if isinstance(x, ast.Constant) and isinstance(x.value, int) and not isinstance(x.value, bool) \
                    and x.value >= 0:
                return x.value
            _err(node, 'slice bound that is not a non-negative literal', src)
        if isinstance(base, Tup) and sl.step is None:
            lo, hi = bound(sl.lower), bound(sl.upper)
            e = base.e
            if hi is not None:
                e = f'(firstn {hi} {e})'
            if lo:
                e = f'(skipn {lo} {e})'
            return Tup(e)
    if isinstance(node, ast.Call) and _chain(node.func) in (['tuple'], ['list']) and \
            len(node.args) == 1 and not node.keywords:
        v = _slot_expr(node.args[0], env, src)
        if isinstance(v, Tup):
            return v
    _err(node, f'unsupported expression {type(node).__name__}', src)


def _bool_term(v):
    return ('true' if v else 'false') if isinstance(v, bool) else v


def slot_answers(fn, src):
    params = [x.arg for x in fn.args.args]
    if params != ['self', 'key', 'options'] or fn.args.kwonlyargs or fn.args.vararg or fn.args.kwarg:
        _err(fn, '_slot_answers: unexpected parameter list', src)
    body = [s for s in fn.body if not (isinstance(s, ast.Expr) and isinstance(s.value, ast.Constant))]
    if not body or not isinstance(body[0], ast.Assign) or len(body[0].targets) != 1 or \
            not isinstance(body[0].targets[0], ast.Name):
        _err(fn, '_slot_answers: first statement is not `stored = ...`', src)
    name = body[0].targets[0].id
    v = body[0].value
    ok = isinstance(v, ast.Call) and _chain(v.func) == ['getattr'] and len(v.args) == 3 and \
        ast.unparse(v.args[0]) == 'self.elemental_data[key]' and \
        isinstance(v.args[1], ast.Constant) and v.args[1].value == 'options' and \
        isinstance(v.args[2], ast.Constant) and v.args[2].value is None and not v.keywords
    if not ok:
        _err(body[0], "_slot_answers: stored is not getattr(self.elemental_data[key], 'options', None)", src)

    def run(stored_is_none):
        env = {name: None if stored_is_none else Tup('stored'), 'options': Tup('options')}
        # sequence of `if c: return e` ... `return e`
        def seq(stmts):
            if not stmts:
                _err(fn, '_slot_answers: falls off the end', src)
            s = stmts[0]
            if isinstance(s, ast.Return) and s.value is not None:
                return _slot_expr(s.value, env, src)
            if isinstance(s, ast.If):
                c = _slot_expr(s.test, env, src)
                if isinstance(c, bool):
                    return seq(list(s.body if c else s.orelse) + stmts[1:])
                if isinstance(c, str):
                    a = seq(s.body + stmts[1:])
                    b = seq(s.orelse + stmts[1:])
                    return f'(if {c} then {_bool_term(a)} else {_bool_term(b)})'
            _err(s, '_slot_answers: unsupported statement', src)
        return _bool_term(seq(body[1:]))
    return {'none': run(True), 'some': run(False)}


# ------------------------------------------------------------ entry-point usage
FIELD = {'mode': 'FMode'}


def _field(name, node, src):
    if name == 'mode':
        return 'FMode'
    if name.startswith('raise_negative_'):
        return 'FRaise'
    if name.startswith('return_abs_'):
        return 'FAbs'
    _err(node, f'option {name} is not mode / raise_negative_* / return_abs_*', src)


def _opt_tuple(node, src):
    if not isinstance(node, ast.Tuple) or not all(isinstance(e, ast.Name) for e in node.elts):
        _err(node, 'option tuple is not a tuple of parameter names', src)
    return [_field(e.id, node, src) for e in node.elts]


def _validate_flags(call, src):
    """self._validate_metric(X, raise_negative_metric=a, return_abs_metric=b) -> (X, field a, field b)"""
    if not (isinstance(call, ast.Call) and _chain(call.func) == ['self', '_validate_metric'] and
            len(call.args) == 1):
        _err(call, 'not a _validate_metric call', src)
    kws = {k.arg: k.value for k in call.keywords}
    if sorted(kws) != ['raise_negative_metric', 'return_abs_metric'] or \
            not all(isinstance(v, ast.Name) for v in kws.values()):
        _err(call, '_validate_metric: unexpected keywords', src)
    return (call.args[0], _field(kws['raise_negative_metric'].id, call, src),
            _field(kws['return_abs_metric'].id, call, src))


def entry_usage(fn, key, resvar, src):
    body = fn.body
    q = st = None
    cached_flags = final_flags = None
    for s in body:
        # if elements is None: if '<key>' in self.elemental_data and self._slot_answers(...): return ...
        if isinstance(s, ast.If) and ast.unparse(s.test) == 'elements is None':
            inner = [x for x in s.body if isinstance(x, ast.If)]
            for x in inner:
                t = x.test
                if not (isinstance(t, ast.BoolOp) and isinstance(t.op, ast.And) and len(t.values) == 2):
                    continue
                if ast.unparse(t.values[0]) != f"'{key}' in self.elemental_data":
                    continue
                c = t.values[1]
                if not (isinstance(c, ast.Call) and _chain(c.func) == ['self', '_slot_answers'] and
                        len(c.args) == 2 and not c.keywords and isinstance(c.args[0], ast.Constant)
                        and c.args[0].value == key):
                    _err(x, f'{fn.name}: unexpected slot test', src)
                if q is not None:
                    _err(x, f'{fn.name}: two slot tests', src)
                q = _opt_tuple(c.args[1], src)
                if len(x.body) != 1 or not isinstance(x.body[0], ast.Return) or x.orelse:
                    _err(x, f'{fn.name}: slot branch is not a single return', src)
                arg, fr, fa = _validate_flags(x.body[0].value, src)
                if ast.unparse(arg) != f"self.elemental_data.get_attribute_data('{key}')":
                    _err(x, f'{fn.name}: the stored-result path does not return the stored data', src)
                cached_flags = (fr, fa)
        # <resvar> = self._validate_metric(<resvar>, ...)
        if isinstance(s, ast.Assign) and len(s.targets) == 1 and isinstance(s.targets[0], ast.Name) and \
                s.targets[0].id == resvar and isinstance(s.value, ast.Call) and \
                _chain(s.value.func) == ['self', '_validate_metric']:
            arg, fr, fa = _validate_flags(s.value, src)
            if not (isinstance(arg, ast.Name) and arg.id == resvar):
                _err(s, f'{fn.name}: final validation of something else', src)
            if final_flags is not None:
                _err(s, f'{fn.name}: two final validations', src)
            final_flags = (fr, fa)
        # if update and elements is self.elements: self._store_slot(ids, key, resvar, (opts), allow_overwrite=True)
        if isinstance(s, ast.If) and ast.unparse(s.test) == 'update and elements is self.elements':
            calls = [x.value for x in s.body if isinstance(x, ast.Expr) and isinstance(x.value, ast.Call)
                     and _chain(x.value.func) == ['self', '_store_slot']]
            if len(calls) != 1 or len(s.body) != 1 or s.orelse:
                _err(s, f'{fn.name}: unexpected store branch', src)
            c = calls[0]
            if len(c.args) != 4 or not (isinstance(c.args[1], ast.Constant) and c.args[1].value == key) or \
                    not (isinstance(c.args[2], ast.Name) and c.args[2].id == resvar) or \
                    ast.unparse(c.args[0]) not in ('self.elements.ids', 'elements.ids'):
                _err(s, f'{fn.name}: unexpected _store_slot call', src)
            if final_flags is None:
                _err(s, f'{fn.name}: result stored before it is validated', src)
            st = _opt_tuple(c.args[3], src)
    if q is None or st is None or cached_flags is None or final_flags is None:
        raise TranslateError(f'{fn.name}: slot usage not recognised '
                             f'(query {q}, store {st}, cached {cached_flags}, final {final_flags})')
    return {'key': key, 'query': q, 'store': st, 'cached_flags': cached_flags, 'final_flags': final_flags}


def store_slot_ok(fn, src):
    """_store_slot(ids, key, values, options, **kwargs): leaves data without options alone, else
    update_data(ids, {key: values}, **kwargs) and `.options = options`"""
    txt = ast.unparse(fn)
    need = ['self.elemental_data.update_data(ids, {key: values}, **kwargs)',
            'self.elemental_data[key].options = options']
    for n in need:
        if txt.count(n) != 1:
            raise TranslateError(f'_store_slot: expected exactly one `{n}`')
    if [x.arg for x in fn.args.args] != ['self', 'ids', 'key', 'values', 'options']:
        raise TranslateError('_store_slot: unexpected parameter list')


# ---------------------------------------------------------- functions.normalize
class Normalize:
    """functions.normalize(array, keep_zeros=False): one row `array` (a 3-vector), its norm
    `norms` (a scalar), clamped against config.EPSILON, `array / norms`."""

    def __init__(self, fn, src):
        self.fn, self.src = fn, src
        a = fn.args
        if [x.arg for x in a.args] != ['array', 'keep_zeros'] or a.kwonlyargs or a.vararg or a.kwarg or \
                len(a.defaults) != 1 or not (isinstance(a.defaults[0], ast.Constant) and a.defaults[0].value is False):
            _err(fn, 'normalize: expected (array, keep_zeros=False)', src)

    def scalar(self, node, env):
        """-> Gallina term of type T"""
        src = self.src
        if isinstance(node, ast.Name) and isinstance(env.get(node.id), str):
            return env[node.id]
        if isinstance(node, ast.Constant) and isinstance(node.value, (int, float)) and \
                not isinstance(node.value, bool):
            return lit(Fraction(repr(node.value)) if isinstance(node.value, float) else node.value)
        if _chain(node) == ['config', 'EPSILON']:
            return '(config_epsilon O)'
        if isinstance(node, ast.Subscript) and isinstance(node.slice, ast.Tuple) and \
                len(node.slice.elts) == 2 and isinstance(node.slice.elts[0], ast.Slice) and \
                node.slice.elts[0].lower is None and node.slice.elts[0].upper is None and \
                node.slice.elts[0].step is None and \
                ((isinstance(node.slice.elts[1], ast.Constant) and node.slice.elts[1].value is None) or
                 _chain(node.slice.elts[1]) == ['np', 'newaxis']):
            return self.scalar(node.value, env)          # [:, None]: shape only
        if isinstance(node, ast.Call):
            ch = _chain(node.func)
            kws = {k.arg: ast.unparse(k.value) for k in node.keywords}
            if ch == ['np', 'linalg', 'norm'] and len(node.args) == 1 and \
                    isinstance(node.args[0], ast.Name) and env.get(node.args[0].id) == ('V',) and \
                    kws.get('axis') == '1' and set(kws) <= {'axis', 'keepdims'}:
                return '(norm O array)'
            if ch == ['np', 'where'] and len(node.args) == 3 and not kws:
                c = self.cmp(node.args[0], env)
                return f'(if {c} then {self.scalar(node.args[1], env)} else {self.scalar(node.args[2], env)})'
            if ch in (['np', 'maximum'], ['np', 'fmax']) and len(node.args) == 2 and not kws:
                a, b = (self.scalar(x, env) for x in node.args)
                return f'(if (ltb_ O {a} {b}) then {b} else {a})'
        _err(node, 'normalize: unsupported scalar expression', src)

    def cmp(self, node, env):
        if isinstance(node, ast.Compare) and len(node.ops) == 1:
            a, b = self.scalar(node.left, env), self.scalar(node.comparators[0], env)
            if isinstance(node.ops[0], ast.Lt):
                return f'(ltb_ O {a} {b})'
            if isinstance(node.ops[0], ast.Gt):
                return f'(ltb_ O {b} {a})'
        _err(node, 'normalize: unsupported comparison', self.src)

    def block(self, stmts, env):
        for s in stmts:
            if isinstance(s, ast.Expr) and isinstance(s.value, ast.Constant):
                continue
            if isinstance(s, ast.If) and ast.unparse(s.test) == 'len(array.shape) != 2' and \
                    len(s.body) == 1 and isinstance(s.body[0], ast.Raise) and not s.orelse:
                continue                                   # shape guard
            if isinstance(s, ast.Assign) and len(s.targets) == 1:
                t = s.targets[0]
                if isinstance(t, ast.Name):
                    env[t.id] = self.scalar(s.value, env)
                    continue
                if isinstance(t, ast.Subscript) and isinstance(t.value, ast.Name) and \
                        isinstance(env.get(t.value.id), str):
                    c = self.cmp(t.slice, env)               # x[x < c] = v
                    env[t.value.id] = f'(if {c} then {self.scalar(s.value, env)} else {env[t.value.id]})'
                    continue
            if isinstance(s, ast.If) and isinstance(s.test, ast.Name) and env.get(s.test.id) == ('B',):
                e1, e2 = dict(env), dict(env)
                r1, r2 = self.block(s.body, e1), self.block(s.orelse, e2)
                if r1 is not None or r2 is not None:
                    _err(s, 'normalize: return inside a branch', self.src)
                for n in set(e1) & set(e2):
                    if e1[n] != e2[n]:
                        if not (isinstance(e1[n], str) and isinstance(e2[n], str)):
                            _err(s, 'normalize: branches disagree', self.src)
                        env[n] = f'(if {s.test.id} then {e1[n]} else {e2[n]})'
                continue
            if isinstance(s, ast.Return) and isinstance(s.value, ast.BinOp) and isinstance(s.value.op, ast.Div) \
                    and isinstance(s.value.left, ast.Name) and env.get(s.value.left.id) == ('V',):
                return f'(vdivs O array {self.scalar(s.value.right, env)})'
            _err(s, f'normalize: unsupported statement {type(s).__name__}', self.src)
        return None

    def run(self):
        r = self.block(self.fn.body, {'array': ('V',), 'keep_zeros': ('B',)})
        if r is None:
            _err(self.fn, 'normalize does not return', self.src)
        return r


def normalize_of(repo):
    fsrc = (Path(repo) / 'femio' / 'functions.py').read_text()
    fns = [n for n in ast.parse(fsrc).body if isinstance(n, ast.FunctionDef) and n.name == 'normalize']
    if len(fns) != 1:
        raise TranslateError('functions.normalize not found')
    body = Normalize(fns[0], fsrc).run()
    csrc = (Path(repo) / 'femio' / 'config.py').read_text()
    eps = [n.value for n in ast.parse(csrc).body if isinstance(n, ast.Assign) and len(n.targets) == 1 and
           isinstance(n.targets[0], ast.Name) and n.targets[0].id == 'EPSILON']
    if len(eps) != 1 or not (isinstance(eps[0], ast.Constant) and isinstance(eps[0].value, float)):
        raise TranslateError('config.EPSILON is not a float literal')
    sha = hashlib.sha256(ast.get_source_segment(fsrc, fns[0]).encode()).hexdigest()
    return {'body': body, 'epsilon': lit(Fraction(repr(eps[0].value)))}, sha


# --------------------------------------------------------------------- top level
REFERENCE = {
    'normalize': {'body': '(vdivs O array (if keep_zeros then (if (ltb_ O (norm O array) (config_epsilon O)) '
                          'then (lit O (1) 1) else (norm O array)) else (if (ltb_ O (norm O array) '
                          '(config_epsilon O)) then (config_epsilon O) else (norm O array))))',
                  'epsilon': '(lit O (1) 100000)'},
    'validate': {'raises': ['(raise_negative_metric && (existsb (fun x => (ltb_ O x (lit O (0) 1))) metric))'],
                 'elem': '(if return_abs_metric then (mabs O x) else x)'},
    'slot_answers': {'none': 'true', 'some': '(optl_eqb stored options)'},
    'entries': {
        'areas': {'key': 'area', 'query': ['FMode', 'FRaise', 'FAbs'], 'store': ['FMode', 'FRaise', 'FAbs'],
                  'cached_flags': ('FRaise', 'FAbs'), 'final_flags': ('FRaise', 'FAbs')},
        'volumes': {'key': 'volume', 'query': ['FMode', 'FRaise', 'FAbs'], 'store': ['FMode', 'FRaise', 'FAbs'],
                    'cached_flags': ('FRaise', 'FAbs'), 'final_flags': ('FRaise', 'FAbs')},
        'metrics': {'key': 'metric', 'query': ['FRaise', 'FAbs'], 'store': ['FRaise', 'FAbs'],
                    'cached_flags': ('FRaise', 'FAbs'), 'final_flags': ('FRaise', 'FAbs')},
    },
}


def translate(repo):
    src = (Path(repo) / 'femio' / 'geometry_processor.py').read_text()
    tree = ast.parse(src)
    cls = [n for n in tree.body if isinstance(n, ast.ClassDef) and n.name == 'GeometryProcessorMixin']
    if len(cls) != 1:
        raise TranslateError('GeometryProcessorMixin not found')
    methods = {n.name: n for n in cls[0].body if isinstance(n, ast.FunctionDef)}
    for need in ('_validate_metric', '_slot_answers', '_store_slot', 'calculate_element_areas',
                 'calculate_element_volumes', 'calculate_element_metrics'):
        if need not in methods:
            raise TranslateError(f'{need} not found')
    model = {'validate': Validate(methods['_validate_metric'], src).run(),
             'slot_answers': slot_answers(methods['_slot_answers'], src)}
    store_slot_ok(methods['_store_slot'], src)
    model['entries'] = {
        'areas': entry_usage(methods['calculate_element_areas'], 'area', 'areas', src),
        'volumes': entry_usage(methods['calculate_element_volumes'], 'volume', 'volumes', src),
        'metrics': entry_usage(methods['calculate_element_metrics'], 'metric', 'metrics', src),
    }
    model['normalize'], nsha = normalize_of(repo)
    consumed = {'geometry_processor.py:' + n + ' (glue)':
                hashlib.sha256(ast.get_source_segment(src, methods[n]).encode()).hexdigest()
                for n in ('_validate_metric', '_slot_answers', '_store_slot')}
    consumed['functions.py:normalize (glue)'] = nsha
    return model, consumed


def emit(model, translated=True):
    v = model['validate']
    raises = ' || '.join(v['raises']) if v['raises'] else 'false'
    out = ['(* GENERATED by translate/c11_glue.py from femio/geometry_processor.py'
           + ('' if translated else ' -- REFERENCE semantics: the source is outside the grammar') + '.',
           '   Do not edit: regenerated on every run of ./check C11. *)',
           'From Coq Require Import ZArith List String Bool.',
           'Import ListNotations.',
           'From FV.C11 Require Import Model Entry Slot.',
           'Open Scope string_scope.', '',
           f'Definition glue_translated : bool := {"true" if translated else "false"}.', '',
           '(* _validate_metric: None = raise ValueError *)',
           'Definition validate_metric {T} (O : Ops T) (raise_negative_metric return_abs_metric : bool)',
           '           (metric : list T) : option (list T) :=',
           f'  if {raises} then None',
           f"  else Some (map (fun x => {v['elem']}) metric).", '',
           '(* _slot_answers: stored = the option tuple kept with the stored result (None: data not',
           '   stored by the calculate_element_* methods) *)',
           'Definition slot_answers (stored : option (list optv)) (options : list optv) : bool :=',
           '  match stored with',
           f"  | None => {model['slot_answers']['none']}",
           f"  | Some stored => {model['slot_answers']['some']}",
           '  end.', '']
    out += ['(* config.EPSILON and functions.normalize on one row *)',
            f"Definition config_epsilon {{T}} (O : Ops T) : T := {model['normalize']['epsilon']}.",
            'Definition normalize_t {T} (O : Ops T) (keep_zeros : bool) (array : v3 T) : v3 T :=',
            f"  {model['normalize']['body']}.", '']
    for name, e in model['entries'].items():
        out.append(f"Definition {name}_slot_key : string := \"{e['key']}\".")
        out.append(f"Definition {name}_slot_query : list field := [{'; '.join(e['query'])}].")
        out.append(f"Definition {name}_slot_store : list field := [{'; '.join(e['store'])}].")
        out.append(f"Definition {name}_cached_flags : field * field := ({e['cached_flags'][0]}, {e['cached_flags'][1]}).")
        out.append(f"Definition {name}_final_flags : field * field := ({e['final_flags'][0]}, {e['final_flags'][1]}).")
    return '\n'.join(out) + '\n'


if __name__ == '__main__':
    import sys
    try:
        m, c = translate(sys.argv[1] if len(sys.argv) > 1 else '/repo')
        sys.stdout.write(emit(m))
    except TranslateError as e:
        sys.stdout.write(f'(* TranslateError: {e} *)\n' + emit(REFERENCE, translated=False))
