"""C10/C12 — fail-closed translator of femio's per-type face tables.

Source regions (femio/graph_processor.py):
  * GraphProcessorMixin._generate_all_faces : the if/elif chain on
    `element_type`; for tet, tet2, hex, pyr, prism, hexprism the branch body
    must be exactly a face-table expression of one of the accepted shapes
        face_ids = method([TABLE for <v> in elements_data])
        face_ids = (method([TABLE for ...]), method([TABLE for ...]))
    where TABLE is `[[v[i], ...], ...]` or `np.stack([[v[i], ...], ...])`,
    and for tet2
        tet1_elements = elements_data[:, :K]
        face_ids = self._generate_all_faces(tet1_elements, 'tet', method=method)
    Anything else in such a branch -> TranslateError (tie broken).  The tail of
    the function must wrap a non-tuple result into a 1-tuple.
  * GraphProcessorMixin.extract_surface_fistr : the column table
        surfs[a*N:b*N, :3] = data[:, [i, j, k]]      and
        surfs[a*N:b*N, 4] = n
    (the sort/unique part of that function is modelled by hand and pinned by
    the correspondence check).

Output: coq/C10/gen/FaceTables.v
"""
import ast
import hashlib
from pathlib import Path


class TranslateError(Exception):
    pass


TYPES = ['tet', 'tet2', 'hex', 'pyr', 'prism', 'hexprism']


def _fail(node, msg):
    raise TranslateError(f'line {getattr(node, "lineno", "?")}: {msg}')


def _find_method(tree, cls, name):
    for c in tree.body:
        if isinstance(c, ast.ClassDef) and c.name == cls:
            for f in c.body:
                if isinstance(f, ast.FunctionDef) and f.name == name:
                    return f
    raise TranslateError(f'{cls}.{name} not found')


def _const_int(n):
    if isinstance(n, ast.Constant) and isinstance(n.value, int) and not isinstance(n.value, bool):
        return n.value
    _fail(n, 'integer literal expected: ' + ast.dump(n))


def _face(node, var):
    """[v[i], v[j], ...] -> [i, j, ...]"""
    if not isinstance(node, ast.List) or not node.elts:
        _fail(node, 'face must be a non-empty list literal')
    out = []
    for e in node.elts:
        if not (isinstance(e, ast.Subscript) and isinstance(e.value, ast.Name)
                and e.value.id == var):
            _fail(e, f'face entry must be {var}[<int>]')
        out.append(_const_int(e.slice))
    return out


def _table(node, var):
    """[[v[i],..],..]  or  np.stack([[v[i],..],..])"""
    if isinstance(node, ast.Call):
        f = node.func
        if not (isinstance(f, ast.Attribute) and f.attr == 'stack' and isinstance(f.value, ast.Name)
                and f.value.id == 'np' and len(node.args) == 1 and not node.keywords):
            _fail(node, 'only np.stack([...]) may wrap a face table')
        node = node.args[0]
    if not isinstance(node, ast.List) or not node.elts:
        _fail(node, 'face table must be a non-empty list literal')
    faces = [_face(e, var) for e in node.elts]
    if len({len(f) for f in faces}) != 1:
        _fail(node, 'faces of one group must have the same number of vertices')
    return faces


def _group(node):
    """method([TABLE for v in elements_data])"""
    if not (isinstance(node, ast.Call) and isinstance(node.func, ast.Name)
            and node.func.id == 'method' and len(node.args) == 1 and not node.keywords):
        _fail(node, 'expected method([... for e in elements_data])')
    lc = node.args[0]
    if not (isinstance(lc, ast.ListComp) and len(lc.generators) == 1):
        _fail(lc, 'expected a single list comprehension')
    g = lc.generators[0]
    if g.ifs or g.is_async or not isinstance(g.target, ast.Name) or \
            not (isinstance(g.iter, ast.Name) and g.iter.id == 'elements_data'):
        _fail(lc, 'comprehension must be `for <v> in elements_data` without filter')
    return _table(lc.elt, g.target.id)


def _branch_tables(body):
    """body of one elif branch -> ('table', [groups]) | ('prefix', K, 'tet')"""
    if len(body) == 1 and isinstance(body[0], ast.Assign):
        a = body[0]
        if not (len(a.targets) == 1 and isinstance(a.targets[0], ast.Name)
                and a.targets[0].id == 'face_ids'):
            _fail(a, 'branch must assign face_ids')
        if isinstance(a.value, ast.Tuple):
            return ('table', [_group(v) for v in a.value.elts])
        return ('table', [_group(a.value)])
    if len(body) == 2 and all(isinstance(s, ast.Assign) for s in body):
        a, b = body
        # tet1_elements = elements_data[:, :K]
        ok = (len(a.targets) == 1 and isinstance(a.targets[0], ast.Name)
              and isinstance(a.value, ast.Subscript) and isinstance(a.value.value, ast.Name)
              and a.value.value.id == 'elements_data' and isinstance(a.value.slice, ast.Tuple)
              and len(a.value.slice.elts) == 2)
        if not ok:
            _fail(a, 'unrecognised two-statement branch')
        s0, s1 = a.value.slice.elts
        if not (isinstance(s0, ast.Slice) and s0.lower is None and s0.upper is None and s0.step is None
                and isinstance(s1, ast.Slice) and s1.lower is None and s1.step is None
                and s1.upper is not None):
            _fail(a, 'expected elements_data[:, :K]')
        k = _const_int(s1.upper)
        tmp = a.targets[0].id
        c = b.value
        ok = (len(b.targets) == 1 and isinstance(b.targets[0], ast.Name) and b.targets[0].id == 'face_ids'
              and isinstance(c, ast.Call) and isinstance(c.func, ast.Attribute)
              and c.func.attr == '_generate_all_faces' and isinstance(c.func.value, ast.Name)
              and c.func.value.id == 'self' and len(c.args) == 2
              and isinstance(c.args[0], ast.Name) and c.args[0].id == tmp
              and isinstance(c.args[1], ast.Constant) and isinstance(c.args[1].value, str)
              and len(c.keywords) == 1 and c.keywords[0].arg == 'method'
              and isinstance(c.keywords[0].value, ast.Name) and c.keywords[0].value.id == 'method')
        if not ok:
            _fail(b, 'expected face_ids = self._generate_all_faces(<tmp>, <type>, method=method)')
        return ('prefix', k, c.args[1].value)
    _fail(body[0], 'unrecognised branch body')


def _type_test(test):
    """element_type == 'x'  -> ['x'];  element_type in ['a','b'] -> ['a','b']"""
    if isinstance(test, ast.Compare) and isinstance(test.left, ast.Name) and \
            test.left.id == 'element_type' and len(test.ops) == 1:
        c = test.comparators[0]
        if isinstance(test.ops[0], ast.Eq) and isinstance(c, ast.Constant) and isinstance(c.value, str):
            return [c.value]
        if isinstance(test.ops[0], ast.In) and isinstance(c, (ast.List, ast.Tuple)) and \
                all(isinstance(e, ast.Constant) and isinstance(e.value, str) for e in c.elts):
            return [e.value for e in c.elts]
    return None


def translate_generate_all_faces(fn):
    # the dispatch chain is the If whose test mentions element_type in [...,'polygon'] / == 'tet'
    chain = None
    for st in fn.body:
        if isinstance(st, ast.If):
            ts = _type_test(st.test)
            if ts is not None and 'tri' in ts:
                chain = st
    if chain is None:
        raise TranslateError('_generate_all_faces: dispatch chain on element_type not found')
    tables = {}
    node = chain
    seen = []
    while True:
        ts = _type_test(node.test)
        if ts is None:
            _fail(node, 'dispatch test is not a comparison of element_type with literals')
        for t in ts:
            if t in seen:
                _fail(node, f'type {t} dispatched twice')
            seen.append(t)
            if t in TYPES:
                tables[t] = _branch_tables(node.body)
        if len(node.orelse) == 1 and isinstance(node.orelse[0], ast.If):
            node = node.orelse[0]
        else:
            break
    for t in TYPES:
        if t not in tables:
            raise TranslateError(f'_generate_all_faces: no branch for {t}')
    # order of the chain matters only for first-match; a type may not be shadowed
    # tail: wrap into a tuple
    tail = fn.body[-1]
    ok = (isinstance(tail, ast.If) and isinstance(tail.test, ast.Call)
          and isinstance(tail.test.func, ast.Name) and tail.test.func.id == 'isinstance'
          and len(tail.body) == 1 and isinstance(tail.body[0], ast.Return)
          and isinstance(tail.body[0].value, ast.Name) and tail.body[0].value.id == 'face_ids'
          and len(tail.orelse) == 1 and isinstance(tail.orelse[0], ast.Return)
          and isinstance(tail.orelse[0].value, ast.Tuple) and len(tail.orelse[0].value.elts) == 1
          and isinstance(tail.orelse[0].value.elts[0], ast.Name)
          and tail.orelse[0].value.elts[0].id == 'face_ids')
    if not ok:
        _fail(tail, '_generate_all_faces must end with `return face_ids` / `return (face_ids,)`')
    # resolve prefixes
    for t, v in list(tables.items()):
        if v[0] == 'prefix':
            if v[2] not in tables or tables[v[2]][0] != 'table':
                raise TranslateError(f'{t}: delegates to unknown type {v[2]}')
    return tables


def _is_N_slice(sl):
    """a*N:b*N  -> (a, b)"""
    def coef(n):
        if isinstance(n, ast.BinOp) and isinstance(n.op, ast.Mult) and \
                isinstance(n.right, ast.Name) and n.right.id == 'N':
            return _const_int(n.left)
        _fail(n, 'expected <int> * N')
    if not (isinstance(sl, ast.Slice) and sl.step is None and sl.lower is not None and sl.upper is not None):
        _fail(sl, 'expected a*N:b*N')
    return coef(sl.lower), coef(sl.upper)


def translate_fistr(fn):
    cols, nums, idcol = {}, {}, {}
    for st in fn.body:
        if not (isinstance(st, ast.Assign) and len(st.targets) == 1
                and isinstance(st.targets[0], ast.Subscript)
                and isinstance(st.targets[0].value, ast.Name) and st.targets[0].value.id == 'surfs'
                and isinstance(st.targets[0].slice, ast.Tuple) and len(st.targets[0].slice.elts) == 2):
            continue
        rows, col = st.targets[0].slice.elts
        if not isinstance(rows, ast.Slice) or rows.lower is None:
            continue          # surfs[:, :3].sort(...) etc. are not assignments; others skipped
        a, b = _is_N_slice(rows)
        if b != a + 1:
            _fail(st, 'row block must be k*N:(k+1)*N')
        if isinstance(col, ast.Slice):
            if not (col.lower is None and col.step is None and _const_int(col.upper) == 3):
                _fail(st, 'node columns must be :3')
            v = st.value
            ok = (isinstance(v, ast.Subscript) and isinstance(v.value, ast.Name) and v.value.id == 'data'
                  and isinstance(v.slice, ast.Tuple) and len(v.slice.elts) == 2
                  and isinstance(v.slice.elts[0], ast.Slice) and v.slice.elts[0].lower is None
                  and v.slice.elts[0].upper is None and isinstance(v.slice.elts[1], ast.List))
            if not ok:
                _fail(st, 'expected data[:, [i, j, k]]')
            if a in cols:
                _fail(st, 'row block assigned twice')
            cols[a] = [_const_int(e) for e in v.slice.elts[1].elts]
        else:
            c = _const_int(col)
            if c == 4:
                if a in nums:
                    _fail(st, 'face number assigned twice')
                nums[a] = _const_int(st.value)
            elif c == 3:
                v = st.value
                if not (isinstance(v, ast.Attribute) and v.attr == 'ids'):
                    _fail(st, 'column 3 must receive self.elements.ids')
                idcol[a] = True
            else:
                _fail(st, f'unexpected column {c}')
    ks = sorted(cols)
    if not ks or ks != list(range(len(ks))) or sorted(nums) != ks or sorted(idcol) != ks:
        raise TranslateError('extract_surface_fistr: incomplete face table ' + repr((cols, nums, idcol)))
    if any(len(c) != 3 for c in cols.values()):
        raise TranslateError('extract_surface_fistr: faces must have 3 nodes')
    return [(nums[k], cols[k]) for k in ks]


def region_sha(src_lines, fn):
    return hashlib.sha256('\n'.join(src_lines[fn.lineno - 1:fn.end_lineno]).encode()).hexdigest()


def translate(repo):
    path = Path(repo) / 'femio' / 'graph_processor.py'
    src = path.read_text()
    tree = ast.parse(src)
    lines = src.splitlines()
    gaf = _find_method(tree, 'GraphProcessorMixin', '_generate_all_faces')
    fis = _find_method(tree, 'GraphProcessorMixin', 'extract_surface_fistr')
    tables = translate_generate_all_faces(gaf)
    fistr = translate_fistr(fis)
    consumed = {
        'femio/graph_processor.py:_generate_all_faces': region_sha(lines, gaf),
        'femio/graph_processor.py:extract_surface_fistr': region_sha(lines, fis),
    }
    return {'tables': tables, 'fistr': fistr}, consumed


def _coq_nats(l):
    return '[' + '; '.join(str(int(x)) for x in l) + ']'


def emit(tr):
    out = ['(* GENERATED by translate/c10_tables.py from femio/graph_processor.py — do not edit *)',
           'From Coq Require Import List.', 'Import ListNotations.', '']
    for t in TYPES:
        v = tr['tables'][t]
        if v[0] == 'table':
            groups = v[1]
            out.append(f'Definition tbl_{t} : list (list (list nat)) :=')
            out.append('  [' + ';\n   '.join('[' + '; '.join(_coq_nats(f) for f in g) + ']' for g in groups) + '].')
        else:
            out.append(f'(* {t}: first {v[1]} columns, then the table of {v[2]} *)')
            out.append(f'Definition cols_{t} : nat := {v[1]}.')
            out.append(f'Definition tbl_{t} : list (list (list nat)) := tbl_{v[2]}.')
        out.append('')
    out.append('(* extract_surface_fistr: (face number, node columns) *)')
    out.append('Definition tbl_fistr : list (nat * list nat) :=')
    out.append('  [' + '; '.join(f'({n}, {_coq_nats(c)})' for n, c in tr['fistr']) + '].')
    return '\n'.join(out) + '\n'


if __name__ == '__main__':
    import sys
    tr, consumed = translate(sys.argv[1] if len(sys.argv) > 1 else '/repo')
    print(emit(tr))
