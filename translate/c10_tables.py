"""C10/C12 — fail-closed translator of femio's per-type face tables.

The translator reads MEANING, not spelling: the branch bodies are evaluated by a
small symbolic interpreter over the Python `ast` in which the row of one element
is a symbol `e` and `e[i]` is the symbolic node `Node(i)`.  It understands

  * integer / tuple / list literals, names bound earlier in the branch, module-
    level and class-level constants (looked up in the same module and evaluated
    by the same interpreter), `range`, `enumerate`, `len`, `list`, `tuple`,
    `slice`, integer arithmetic, arithmetic that is linear in the element count;
  * list comprehensions / generator expressions over such constant sequences
    and over `elements_data` (the one place where the element symbol is bound);
  * `np.stack / np.array / np.asarray` of a nested list (identity on the table);
  * the vectorised form `method(elements_data[:, [[i, j, k], ...]])` (same rows per element);
  * calls of private helpers defined in the same module or class whose body is
    `[docstring] <simple assignments> return <expr>` — they are inlined (depth <= 4);
  * keyword or positional arguments of those calls;
  * the tet2 delegation `self._generate_all_faces(elements_data[:, :K], 'tet', method=method)`
    with or without the intermediate name.

Everything else raises TranslateError (fail closed).  A failure is NOT by itself
a violation: the harness then falls back to the committed baseline tables
(coq/C10/gen_baseline/FaceTables.v) as a hand model and ties it to the code by a
widened correspondence (see harness/c10.py, BUILDERS_R5 policy).

Source regions (femio/graph_processor.py):
  * GraphProcessorMixin._generate_all_faces : the if/elif chain on `element_type`;
    for tet, tet2, hex, pyr, prism, hexprism the branch must bind `face_ids` to
    `method(<per-element table>)`, a tuple of those, or the delegation.  The tail of
    the function must wrap a non-tuple result into a 1-tuple.
  * GraphProcessorMixin.extract_surface_fistr : the stores into `surfs`
        surfs[k*N:(k+1)*N, :3] = data[:, [i, j, k]] ;  surfs[..., 3] = self.elements.ids ;
        surfs[..., 4] = n
    unrolled or in a loop over a constant table (the sort/unique part of that
    function is modelled by hand and pinned by the correspondence check).

Output: coq/C10/gen/FaceTables.v
"""
import ast
import hashlib
from pathlib import Path


class TranslateError(Exception):
    pass


TYPES = ['tet', 'tet2', 'hex', 'pyr', 'prism', 'hexprism']
ARITY = {'tet': 4, 'tet2': 10, 'hex': 8, 'pyr': 5, 'prism': 6, 'hexprism': 12}
CLASS = 'GraphProcessorMixin'


def _fail(node, msg):
    raise TranslateError(f'line {getattr(node, "lineno", "?")}: {msg}')


# ------------------------------------------------------------ symbolic values
class Sym:
    def __init__(self, name):
        self.name = name

    def __repr__(self):
        return '<%s>' % self.name


ELEMS = Sym('elements_data')      # the 2-D connectivity array
ELEM = Sym('element')             # one row of it
METHOD = Sym('method')
SELF = Sym('self')
DATA = Sym('self.elements.data')
IDS = Sym('self.elements.ids')
ELEMENTS = Sym('self.elements')
OPAQUE = Sym('opaque')
NP = Sym('np')


class Node:                       # element[i]
    def __init__(self, i):
        self.i = i

    def __repr__(self):
        return 'n%d' % self.i


class Prefix:                     # elements_data[:, :k]
    def __init__(self, k):
        self.k = k


class PerElem:                    # [TABLE for e in elements_data]
    def __init__(self, table):
        self.table = table


class Group:                      # method([TABLE for e in elements_data])
    def __init__(self, table):
        self.table = table


class Delegate:                   # self._generate_all_faces(elements_data[:, :k], '<type>', method=method)
    def __init__(self, k, typ):
        self.k, self.typ = k, typ


class Lin:                        # a * N + b   (N = number of elements)
    def __init__(self, a, b):
        self.a, self.b = a, b

    def __eq__(self, o):
        return isinstance(o, Lin) and (self.a, self.b) == (o.a, o.b)

    def __hash__(self):
        return hash((self.a, self.b))


class SliceV:
    def __init__(self, lo, hi):
        self.lo, self.hi = lo, hi


class Cols:                       # data[:, [i, j, k]]
    def __init__(self, cols):
        self.cols = cols


def _lin(v):
    if isinstance(v, Lin):
        return v
    if isinstance(v, int) and not isinstance(v, bool):
        return Lin(0, v)
    return None


def _is_seq(v):
    return isinstance(v, (list, tuple))


# ------------------------------------------------------------- module context
class Module:
    def __init__(self, tree, lines):
        self.lines = lines
        self.consts, self.funcs = {}, {}
        self.cconsts, self.cfuncs = {}, {}
        self.used = {}
        for st in tree.body:
            self._collect(st, self.consts, self.funcs)
            if isinstance(st, ast.ClassDef) and st.name == CLASS:
                for s in st.body:
                    self._collect(s, self.cconsts, self.cfuncs)

    @staticmethod
    def _collect(st, consts, funcs):
        if isinstance(st, ast.Assign) and len(st.targets) == 1 and isinstance(st.targets[0], ast.Name):
            consts[st.targets[0].id] = st
        elif isinstance(st, ast.AnnAssign) and isinstance(st.target, ast.Name) and st.value is not None:
            consts[st.target.id] = st
        elif isinstance(st, ast.FunctionDef):
            funcs[st.name] = st

    def note(self, kind, name, node):
        self.used['femio/graph_processor.py:%s:%s' % (kind, name)] = hashlib.sha256(
            '\n'.join(self.lines[node.lineno - 1:node.end_lineno]).encode()).hexdigest()


class Interp:
    MAX_DEPTH = 4

    def __init__(self, mod):
        self.mod = mod
        self.depth = 0

    # -- names ---------------------------------------------------------------
    def const(self, name, node, table):
        st = table.get(name)
        if st is None:
            _fail(node, f'unknown name {name}')
        self.mod.note('const', name, st)
        return self.ev(st.value, {})

    def ev(self, n, env):
        m = getattr(self, 'ev_' + type(n).__name__, None)
        if m is None:
            _fail(n, 'construct not understood: ' + type(n).__name__)
        return m(n, env)

    def ev_Constant(self, n, env):
        if isinstance(n.value, bool) or not isinstance(n.value, (int, str, type(None))):
            _fail(n, 'constant not understood: %r' % (n.value,))
        return n.value

    def ev_Name(self, n, env):
        if n.id in env:
            return env[n.id]
        if n.id == 'np':
            return NP
        if n.id in self.mod.consts:
            return self.const(n.id, n, self.mod.consts)
        _fail(n, f'unknown name {n.id}')

    def ev_Attribute(self, n, env):
        # self.X / cls.X / GraphProcessorMixin.X / type(self).X : class-level constant
        if isinstance(n.value, ast.Name) and n.value.id in ('self', 'cls', CLASS) \
                and n.attr in self.mod.cconsts and (n.value.id == CLASS or env.get(n.value.id) is SELF):
            return self.const(n.attr, n, self.mod.cconsts)
        base = self.ev(n.value, env)
        if base is SELF and n.attr == 'elements':
            return ELEMENTS
        if base is ELEMENTS and n.attr == 'data':
            return DATA
        if base is ELEMENTS and n.attr == 'ids':
            return IDS
        _fail(n, 'attribute not understood: ' + ast.unparse(n))

    def ev_List(self, n, env):
        return [self.ev(e, env) for e in n.elts]

    def ev_Tuple(self, n, env):
        return tuple(self.ev(e, env) for e in n.elts)

    def ev_UnaryOp(self, n, env):
        v = self.ev(n.operand, env)
        if isinstance(n.op, ast.USub) and isinstance(v, int):
            return -v
        _fail(n, 'unary operator not understood')

    def ev_BinOp(self, n, env):
        a, b = self.ev(n.left, env), self.ev(n.right, env)
        la, lb = _lin(a), _lin(b)
        if la is None or lb is None:
            if isinstance(n.op, ast.Add) and _is_seq(a) and type(a) is type(b):
                return a + b
            _fail(n, 'arithmetic on a non-integer')
        if isinstance(n.op, ast.Add):
            r = Lin(la.a + lb.a, la.b + lb.b)
        elif isinstance(n.op, ast.Sub):
            r = Lin(la.a - lb.a, la.b - lb.b)
        elif isinstance(n.op, ast.Mult) and (la.a == 0 or lb.a == 0):
            r = Lin(la.a * lb.b + lb.a * la.b, la.b * lb.b)
        else:
            _fail(n, 'arithmetic not understood: ' + ast.unparse(n))
        return r.b if r.a == 0 else r

    def _index(self, s, env):
        """value of one index expression (an `ast.Slice` becomes a SliceV)"""
        if isinstance(s, ast.Slice):
            def bound(x):
                if x is None:
                    return None
                v = self.ev(x, env)
                if _lin(v) is None:
                    _fail(x, 'slice bound is not an integer')
                return v
            if s.step is not None:
                _fail(s, 'slice step not understood')
            return SliceV(bound(s.lower), bound(s.upper))
        return self.ev(s, env)

    def ev_Subscript(self, n, env):
        base = self.ev(n.value, env)
        if isinstance(n.slice, ast.Tuple):
            idx = tuple(self._index(e, env) for e in n.slice.elts)
        else:
            idx = self._index(n.slice, env)

        def ints(c):
            return all(isinstance(i, int) and not isinstance(i, bool) for i in c)
        if base is ELEM:
            if isinstance(idx, int) and not isinstance(idx, bool):
                return Node(idx)
            if isinstance(idx, list) and idx and ints(idx):
                return [Node(i) for i in idx]         # element[[i, j, k]] (fancy index of one row)
            _fail(n, 'element may only be indexed by integers')
        if base is ELEMS or base is DATA:
            # [:, :k]  or  [:, [i, j, k]]
            if isinstance(idx, tuple) and len(idx) == 2 and isinstance(idx[0], SliceV) \
                    and idx[0].lo is None and idx[0].hi is None:
                c = idx[1]
                if base is ELEMS and isinstance(c, SliceV) and c.lo in (None, 0) \
                        and isinstance(c.hi, int) and c.hi > 0:
                    return Prefix(c.hi)
                if base is DATA and _is_seq(c) and c and ints(c):
                    return Cols(list(c))
                # elements_data[:, [[i, j, k], ...]] : one row of faces per element (N, n_faces, n_nodes)
                if base is ELEMS and isinstance(c, list) and c and all(
                        isinstance(f, list) and f and ints(f) for f in c):
                    return PerElem([[Node(i) for i in f] for f in c])
            _fail(n, 'indexing of the connectivity array not understood: ' + ast.unparse(n))
        if _is_seq(base):
            if isinstance(idx, int) and not isinstance(idx, bool):
                try:
                    return base[idx]
                except IndexError:
                    _fail(n, 'index out of range')
            if isinstance(idx, SliceV) and all(x is None or isinstance(x, int) for x in (idx.lo, idx.hi)):
                return base[idx.lo:idx.hi]
        _fail(n, 'subscript not understood: ' + ast.unparse(n))

    # -- comprehensions --------------------------------------------------------
    def _bind(self, target, v, env):
        if isinstance(target, ast.Name):
            env[target.id] = v
        elif isinstance(target, (ast.Tuple, ast.List)) and _is_seq(v) and len(v) == len(target.elts):
            for t, x in zip(target.elts, v):
                self._bind(t, x, env)
        else:
            _fail(target, 'assignment target not understood')

    def _comp(self, n, env):
        def rec(k, env):
            if k == len(n.generators):
                return [self.ev(n.elt, env)]
            g = n.generators[k]
            if g.ifs or g.is_async:
                _fail(n, 'filtered / async comprehension')
            it = self.ev(g.iter, env)
            if it is ELEMS:
                if k != 0 or len(n.generators) != 1:
                    _fail(n, 'the loop over elements_data must be the only generator')
                e2 = dict(env)
                self._bind(g.target, ELEM, e2)
                if not isinstance(g.target, ast.Name):
                    _fail(n, 'element row must be bound to one name')
                return PerElem(self.ev(n.elt, e2))
            if not _is_seq(it):
                _fail(g.iter, 'comprehension over something that is not a constant sequence')
            out = []
            for v in it:
                e2 = dict(env)
                self._bind(g.target, v, e2)
                r = rec(k + 1, e2)
                if isinstance(r, PerElem):
                    _fail(n, 'the loop over elements_data must be the outermost')
                out += r
            return out
        return rec(0, env)

    ev_ListComp = _comp
    ev_GeneratorExp = _comp

    # -- calls -------------------------------------------------------------------
    def ev_Call(self, n, env):
        f = n.func
        if any(k.arg is None for k in n.keywords) or any(isinstance(a, ast.Starred) for a in n.args):
            _fail(n, '* / ** arguments')
        # builtins
        if isinstance(f, ast.Name) and f.id not in env and f.id not in self.mod.funcs:
            args = [self.ev(a, env) for a in n.args]
            if f.id in ('list', 'tuple') and len(args) == 1 and not n.keywords and _is_seq(args[0]):
                return list(args[0]) if f.id == 'list' else tuple(args[0])
            if f.id == 'range' and 1 <= len(args) <= 3 and all(isinstance(a, int) for a in args) and not n.keywords:
                return list(range(*args))
            if f.id == 'enumerate' and args and _is_seq(args[0]) and len(args) <= 2:
                start = args[1] if len(args) == 2 else 0
                for k in n.keywords:
                    if k.arg != 'start':
                        _fail(n, 'enumerate keyword')
                    start = self.ev(k.value, env)
                if not isinstance(start, int):
                    _fail(n, 'enumerate start')
                return [(start + i, v) for i, v in enumerate(args[0])]
            if f.id == 'len' and len(args) == 1 and not n.keywords:
                if _is_seq(args[0]):
                    return len(args[0])
                if args[0] is DATA or args[0] is IDS:
                    return Lin(1, 0)
            if f.id == 'slice' and len(args) == 2 and not n.keywords and all(_lin(a) is not None for a in args):
                return SliceV(args[0], args[1])
            if f.id == 'zip' and len(args) >= 1 and not n.keywords and all(_is_seq(a) for a in args):
                return [tuple(t) for t in zip(*args)]
            _fail(n, f'call of {f.id} not understood')
        if isinstance(f, ast.Name) and env.get(f.id) is METHOD:
            if len(n.args) != 1 or n.keywords:
                _fail(n, 'method(...) takes the list of per-element tables')
            v = self.ev(n.args[0], env)
            if not isinstance(v, PerElem):
                _fail(n, 'argument of method(...) is not a per-element table')
            return Group(self._table(v.table, n))
        if isinstance(f, ast.Attribute):
            base = None
            try:
                base = self.ev(f.value, env)
            except TranslateError:
                pass
            if base is NP and f.attr in ('stack', 'array', 'asarray'):
                for k in n.keywords:
                    if not (k.arg == 'axis' and f.attr == 'stack' and self.ev(k.value, env) == 0):
                        _fail(n, f'np.{f.attr} keyword {k.arg}')
                if len(n.args) != 1:
                    _fail(n, f'np.{f.attr} arguments')
                v = self.ev(n.args[0], env)
                if not _is_seq(v):
                    _fail(n, f'np.{f.attr} of something that is not a nested list')
                return list(v)
            if base is SELF and f.attr == '_generate_all_faces':
                a = self._bind_args(self.mod.cfuncs.get('_generate_all_faces'), n, env, skip_self=True)
                if not (isinstance(a.get('elements'), Prefix) and isinstance(a.get('element_type'), str)
                        and a.get('method') is METHOD and set(a) <= {'elements', 'element_type', 'method'}):
                    _fail(n, 'delegation must be self._generate_all_faces(elements_data[:, :K], <type>, method=method)')
                return Delegate(a['elements'].k, a['element_type'])
            if (base is SELF or (isinstance(f.value, ast.Name) and f.value.id == CLASS)) \
                    and f.attr in self.mod.cfuncs:
                fn = self.mod.cfuncs[f.attr]
                static = any(isinstance(d, ast.Name) and d.id == 'staticmethod' for d in fn.decorator_list)
                return self._inline(fn, n, env, skip_self=not static, bind_self=not static)
            _fail(n, 'call not understood: ' + ast.unparse(f))
        if isinstance(f, ast.Name) and f.id in self.mod.funcs:
            return self._inline(self.mod.funcs[f.id], n, env, skip_self=False, bind_self=False)
        _fail(n, 'call not understood: ' + ast.unparse(f))

    def _bind_args(self, fn, call, env, skip_self):
        if fn is None:
            _fail(call, 'callee not found')
        a = fn.args
        if a.vararg or a.kwarg or a.posonlyargs:
            _fail(fn, 'callee signature not understood')
        params = [p.arg for p in a.args]
        if skip_self:
            params = params[1:]
        if len(call.args) > len(params):
            _fail(call, 'too many arguments')
        out = {}
        for p, v in zip(params, call.args):
            out[p] = self.ev(v, env)
        kwonly = [p.arg for p in a.kwonlyargs]
        for k in call.keywords:
            if k.arg in out or k.arg not in params + kwonly:
                _fail(call, f'argument {k.arg}')
            out[k.arg] = self.ev(k.value, env)
        return out

    def _inline(self, fn, call, env, skip_self, bind_self):
        if self.depth >= self.MAX_DEPTH:
            _fail(call, 'helper calls nested too deeply')
        self.mod.note('helper', fn.name, fn)
        args = self._bind_args(fn, call, env, skip_self)
        a = fn.args
        params = [p.arg for p in a.args][1 if skip_self else 0:]
        defaults = dict(zip(params[len(params) - len(a.defaults):], a.defaults))
        for p, d in zip(a.kwonlyargs, a.kw_defaults):
            if d is not None:
                defaults[p.arg] = d
        local = {}
        if bind_self:
            local[a.args[0].arg] = SELF
        for p in params + [p.arg for p in a.kwonlyargs]:
            if p in args:
                local[p] = args[p]
            elif p in defaults:
                local[p] = self.ev(defaults[p], {})
            else:
                _fail(call, f'missing argument {p}')
        self.depth += 1
        try:
            return self.run_simple(fn.body, local, fn)
        finally:
            self.depth -= 1

    def run_simple(self, body, env, where):
        """[docstring] simple assignments ... return expr"""
        for st in body:
            if isinstance(st, ast.Expr) and isinstance(st.value, ast.Constant) and isinstance(st.value.value, str):
                continue
            if isinstance(st, ast.Assign) and len(st.targets) == 1:
                self._bind(st.targets[0], self.ev(st.value, env), env)
                continue
            if isinstance(st, ast.Return) and st.value is not None:
                return self.ev(st.value, env)
            _fail(st, 'helper body not understood (only assignments and a return)')
        _fail(where, 'helper does not return')

    # -- tables --------------------------------------------------------------------
    @staticmethod
    def _table(v, node):
        if not _is_seq(v) or not v:
            _fail(node, 'face table must be a non-empty sequence of faces')
        faces = []
        for f in v:
            if not _is_seq(f) or not f or not all(isinstance(x, Node) for x in f):
                _fail(node, 'a face must be a non-empty sequence of element[<int>]')
            if any(x.i < 0 for x in f):
                _fail(node, 'negative node index')
            faces.append([x.i for x in f])
        if len({len(f) for f in faces}) != 1:
            _fail(node, 'faces of one group must have the same number of vertices')
        return faces


# -------------------------------------------------------- _generate_all_faces
def _find_method(tree, cls, name):
    for c in tree.body:
        if isinstance(c, ast.ClassDef) and c.name == cls:
            for f in c.body:
                if isinstance(f, ast.FunctionDef) and f.name == name:
                    return f
    raise TranslateError(f'{cls}.{name} not found')


def _type_test(test, interp=None):
    """element_type == 'x'  -> ['x'];  element_type in ['a','b'] / in CONST -> ['a','b']"""
    if isinstance(test, ast.Compare) and len(test.ops) == 1:
        left, c = test.left, test.comparators[0]
        if isinstance(test.ops[0], ast.Eq) and isinstance(c, ast.Name) and c.id == 'element_type':
            left, c = c, left
        if not (isinstance(left, ast.Name) and left.id == 'element_type'):
            return None
        try:
            v = interp.ev(c, {}) if interp is not None else ast.literal_eval(c)
        except (TranslateError, ValueError):
            return None
        if isinstance(test.ops[0], ast.Eq) and isinstance(v, str):
            return [v]
        if isinstance(test.ops[0], ast.In) and _is_seq(v) and all(isinstance(e, str) for e in v):
            return list(v)
    return None


def _branch_value(interp, body, env):
    env = dict(env)
    for st in body:
        if isinstance(st, ast.Expr) and isinstance(st.value, ast.Constant):
            continue
        if not (isinstance(st, ast.Assign) and len(st.targets) == 1):
            _fail(st, 'branch may only contain assignments')
        interp._bind(st.targets[0], interp.ev(st.value, env), env)
    if 'face_ids' not in env:
        _fail(body[0], 'branch must assign face_ids')
    v = env['face_ids']
    if isinstance(v, Group):
        return ('table', [v.table])
    if isinstance(v, tuple) and v and all(isinstance(g, Group) for g in v):
        return ('table', [g.table for g in v])
    if isinstance(v, Delegate):
        return ('prefix', v.k, v.typ)
    _fail(body[-1], 'face_ids is not method(<table>), a tuple of those, or the delegation')


def _tail_ok(body):
    """... if isinstance(face_ids, tuple): return face_ids else: return (face_ids,)   (else-less form accepted)"""
    def ret_plain(s):
        return isinstance(s, ast.Return) and isinstance(s.value, ast.Name) and s.value.id == 'face_ids'

    def ret_wrapped(s):
        return isinstance(s, ast.Return) and isinstance(s.value, ast.Tuple) and len(s.value.elts) == 1 \
            and isinstance(s.value.elts[0], ast.Name) and s.value.elts[0].id == 'face_ids'

    def is_test(t, negated=False):
        if isinstance(t, ast.UnaryOp) and isinstance(t.op, ast.Not):
            return is_test(t.operand, not negated)
        ok = (isinstance(t, ast.Call) and isinstance(t.func, ast.Name) and t.func.id == 'isinstance'
              and len(t.args) == 2 and isinstance(t.args[0], ast.Name) and t.args[0].id == 'face_ids'
              and isinstance(t.args[1], ast.Name) and t.args[1].id == 'tuple')
        return (ok, negated)
    for k in (1, 2):
        if len(body) < k:
            continue
        st = body[-k]
        if not isinstance(st, ast.If):
            continue
        ok, neg = is_test(st.test)
        if not ok or len(st.body) != 1:
            continue
        first, second = (ret_wrapped, ret_plain) if neg else (ret_plain, ret_wrapped)
        if not first(st.body[0]):
            continue
        if k == 1 and len(st.orelse) == 1 and second(st.orelse[0]):
            return True
        if k == 2 and not st.orelse and second(body[-1]):
            return True
    return False


def translate_generate_all_faces(fn, interp):
    params = [a.arg for a in fn.args.args]
    if params[:1] != ['self'] or 'method' not in params or 'element_type' not in params:
        _fail(fn, '_generate_all_faces: signature not understood')
    chain = None
    for st in fn.body:
        if isinstance(st, ast.If):
            ts = _type_test(st.test, interp)
            if ts is not None and (set(ts) & (set(TYPES) | {'tri', 'quad', 'polygon'})):
                chain = st
                break
    if chain is None:
        raise TranslateError('_generate_all_faces: dispatch chain on element_type not found')
    # names bound before the chain: elements_data must be the connectivity array (ndarray argument
    # or elements.data) — checked by shape of the statement, the correspondence pins its meaning
    env = {'self': SELF, 'method': METHOD, 'elements_data': ELEMS}
    tables = {}
    node = chain
    seen = []
    while True:
        ts = _type_test(node.test, interp)
        if ts is None:
            _fail(node, 'dispatch test is not a comparison of element_type with literals')
        for t in ts:
            if t in seen:
                _fail(node, f'type {t} dispatched twice')
            seen.append(t)
            if t in TYPES:
                tables[t] = _branch_value(interp, node.body, env)
        if len(node.orelse) == 1 and isinstance(node.orelse[0], ast.If):
            node = node.orelse[0]
        else:
            break
    for t in TYPES:
        if t not in tables:
            raise TranslateError(f'_generate_all_faces: no branch for {t}')
    if not _tail_ok(fn.body):
        _fail(fn.body[-1], '_generate_all_faces must end with `return face_ids` / `return (face_ids,)`')
    for t, v in list(tables.items()):
        if v[0] == 'prefix':
            if v[2] not in tables or tables[v[2]][0] != 'table':
                raise TranslateError(f'{t}: delegates to unknown type {v[2]}')
            if any(i >= v[1] for g in tables[v[2]][1] for f in g for i in f):
                raise TranslateError(f'{t}: the delegated table indexes beyond the {v[1]} columns kept')
        else:
            if any(i >= ARITY[t] for g in v[1] for f in g for i in f):
                raise TranslateError(f'{t}: node index beyond the arity of the type')
    return tables


# ------------------------------------------------------ extract_surface_fistr
def _stores_to(node, name):
    for x in ast.walk(node):
        if isinstance(x, (ast.Assign, ast.AugAssign)):
            for t in (x.targets if isinstance(x, ast.Assign) else [x.target]):
                if isinstance(t, ast.Subscript) and isinstance(t.value, ast.Name) and t.value.id == name:
                    return True
    return False


def translate_fistr(fn, interp):
    cols, nums, idcol = {}, {}, {}
    state = {'sealed': False}

    def store(st, env):
        t = st.targets[0]
        if not (isinstance(t.slice, ast.Tuple) and len(t.slice.elts) == 2):
            _fail(st, 'store into surfs not understood')
        rows = interp._index(t.slice.elts[0], env)
        col = interp._index(t.slice.elts[1], env)
        if not isinstance(rows, SliceV) or rows.lo is None or rows.hi is None:
            _fail(st, 'row block must be k*N:(k+1)*N')
        lo, hi = _lin(rows.lo), _lin(rows.hi)
        if not (lo.b == 0 and hi.b == 0 and hi.a == lo.a + 1 and lo.a >= 0):
            _fail(st, 'row block must be k*N:(k+1)*N')
        a = lo.a
        val = interp.ev(st.value, env)
        if isinstance(col, SliceV):
            if not (col.lo in (None, 0) and col.hi == 3):
                _fail(st, 'node columns must be :3')
            if not isinstance(val, Cols):
                _fail(st, 'expected data[:, [i, j, k]]')
            if a in cols:
                _fail(st, 'row block assigned twice')
            cols[a] = val.cols
        elif col == 4:
            if a in nums or not isinstance(val, int) or isinstance(val, bool):
                _fail(st, 'face number must be assigned once, an integer')
            nums[a] = val
        elif col == 3:
            if val is not IDS or a in idcol:
                _fail(st, 'column 3 must receive self.elements.ids, once')
            idcol[a] = True
        else:
            _fail(st, f'unexpected column {col!r}')

    def run(body, env):
        for st in body:
            if isinstance(st, ast.Assign) and len(st.targets) == 1 and isinstance(st.targets[0], ast.Subscript) \
                    and isinstance(st.targets[0].value, ast.Name) and st.targets[0].value.id == 'surfs':
                if state['sealed']:
                    _fail(st, 'store into surfs after it was sorted / rebound')
                store(st, env)
            elif isinstance(st, ast.Assign) and len(st.targets) == 1 and isinstance(st.targets[0], ast.Name):
                name = st.targets[0].id
                if name == 'surfs' and cols:
                    state['sealed'] = True
                try:
                    env[name] = interp.ev(st.value, env)
                except TranslateError:
                    env[name] = OPAQUE
            elif isinstance(st, ast.For) and not st.orelse and _stores_to(st, 'surfs'):
                it = interp.ev(st.iter, env)
                if not _is_seq(it):
                    _fail(st, 'loop that fills surfs must run over a constant table')
                for v in it:
                    interp._bind(st.target, v, env)
                    run(st.body, env)
            elif isinstance(st, ast.Expr):
                # surfs[:, :3].sort(axis=1) etc.: the table part is over
                if cols and any(isinstance(x, ast.Name) and x.id == 'surfs' for x in ast.walk(st)):
                    state['sealed'] = True
            elif _stores_to(st, 'surfs'):
                _fail(st, 'store into surfs inside a statement that is not understood')
            elif isinstance(st, ast.Return):
                return
            else:
                for x in ast.walk(st):
                    if isinstance(x, ast.Name) and isinstance(x.ctx, ast.Store):
                        env[x.id] = OPAQUE
    run(fn.body, {'self': SELF})
    ks = sorted(cols)
    if not ks or ks != list(range(len(ks))) or sorted(nums) != ks or sorted(idcol) != ks:
        raise TranslateError('extract_surface_fistr: incomplete face table ' + repr((cols, nums, sorted(idcol))))
    if any(len(c) != 3 for c in cols.values()):
        raise TranslateError('extract_surface_fistr: faces must have 3 nodes')
    if any(i < 0 for c in cols.values() for i in c) or any(n < 0 for n in nums.values()):
        raise TranslateError('extract_surface_fistr: negative column / face number')
    return [(nums[k], cols[k]) for k in ks]


def region_hashes(repo):
    """sha256 of the two translated regions (available also when the translation fails)"""
    src = (Path(repo) / 'femio' / 'graph_processor.py').read_text()
    tree = ast.parse(src)
    lines = src.splitlines()
    return {'femio/graph_processor.py:' + n: region_sha(lines, _find_method(tree, CLASS, n))
            for n in ('_generate_all_faces', 'extract_surface_fistr')}


def region_sha(src_lines, fn):
    return hashlib.sha256('\n'.join(src_lines[fn.lineno - 1:fn.end_lineno]).encode()).hexdigest()


def translate(repo):
    path = Path(repo) / 'femio' / 'graph_processor.py'
    src = path.read_text()
    tree = ast.parse(src)
    lines = src.splitlines()
    mod = Module(tree, lines)
    interp = Interp(mod)
    gaf = _find_method(tree, CLASS, '_generate_all_faces')
    fis = _find_method(tree, CLASS, 'extract_surface_fistr')
    try:
        tables = translate_generate_all_faces(gaf, interp)
        fistr = translate_fistr(fis, interp)
    except RecursionError:
        raise TranslateError('recursion limit while evaluating the face tables')
    consumed = {
        'femio/graph_processor.py:_generate_all_faces': region_sha(lines, gaf),
        'femio/graph_processor.py:extract_surface_fistr': region_sha(lines, fis),
    }
    consumed.update(mod.used)
    return {'tables': tables, 'fistr': fistr}, consumed


def _coq_nats(l):
    return '[' + '; '.join(str(int(x)) for x in l) + ']'


def emit(tr):
    out = ['(* GENERATED by translate/c10_tables.py from femio/graph_processor.py — do not edit *)',
           'From Coq Require Import List.', 'Import ListNotations.', '']
    for t in TYPES:
        v = tr['tables'][t]
        if v[0] == 'table':
            groups = v[1]
            out.append(f'Definition tbl_{t} : list (list (list nat)) :=')
            out.append('  [' + ';\n   '.join('[' + '; '.join(_coq_nats(f) for f in g) + ']' for g in groups) + '].')
        else:
            out.append(f'(* {t}: first {v[1]} columns, then the table of {v[2]} *)')
            out.append(f'Definition cols_{t} : nat := {v[1]}.')
            out.append(f'Definition tbl_{t} : list (list (list nat)) := tbl_{v[2]}.')
        out.append('')
    out.append('(* extract_surface_fistr: (face number, node columns) *)')
    out.append('Definition tbl_fistr : list (nat * list nat) :=')
    out.append('  [' + '; '.join(f'({n}, {_coq_nats(c)})' for n, c in tr['fistr']) + '].')
    return '\n'.join(out) + '\n'


if __name__ == '__main__':
    import sys
    tr, consumed = translate(sys.argv[1] if len(sys.argv) > 1 else '/repo')
    print(emit(tr))
