"""C12 — translator of the decisions taken in calculate_normal_incidence_matrix.

Reads femio/geometry_processor.py (and the defaults of the two callees) by MEANING:
  * the value of `remove_duplicates` in the `to_facets(...)` call (keyword, positional, or the
    callee's default in femio/fem_data.py when the argument is absent),
  * the value of `minimum_n_sharing` in the `calculate_relative_incidence_metrix_element(...)` call
    (keyword, positional, or the default in femio/graph_processor.py),
  * the sign clamp: the statements  X.data[X.data OP c] = v  (integer c, v), in source order, found in
    the method itself or in a helper (module function or method of the same class) it calls, two
    levels deep — so that moving the sign computation into private helpers is still read.
Anything else raises TranslateError.  A failure is NOT a violation: the harness then uses the committed
baseline rule (coq/C12/baseline/IncidenceRule.v.txt) and the correspondence check decides.

Output: coq/C12/gen/IncidenceRule.v
"""
import ast
import hashlib
from pathlib import Path

METHOD = 'calculate_normal_incidence_matrix'
OPS = {ast.Lt: 'Clt', ast.LtE: 'Cle', ast.Gt: 'Cgt', ast.GtE: 'Cge', ast.Eq: 'Ceq', ast.NotEq: 'Cne'}


class TranslateError(Exception):
    pass


def _sha(lines, node):
    return hashlib.sha256('\n'.join(lines[node.lineno - 1:node.end_lineno]).encode()).hexdigest()


def _find_method(tree, name):
    for cls in tree.body:
        if isinstance(cls, ast.ClassDef):
            for st in cls.body:
                if isinstance(st, ast.FunctionDef) and st.name == name:
                    return cls, st
    return None, None


def _literal(node, what):
    try:
        return ast.literal_eval(node)
    except Exception:
        raise TranslateError(f'line {node.lineno}: {what} is not a literal')


def _default_of(repo, rel, fname, arg):
    tree = ast.parse((Path(repo) / rel).read_text())
    _, fn = _find_method(tree, fname)
    if fn is None:
        raise TranslateError(f'{rel}: {fname} not found')
    names = [a.arg for a in fn.args.args]
    defaults = fn.args.defaults
    if arg in names:
        k = names.index(arg) - (len(names) - len(defaults))
        if k >= 0:
            return _literal(defaults[k], f'default of {arg}'), names.index(arg) - 1   # position without self
    for a, d in zip(fn.args.kwonlyargs, fn.args.kw_defaults):
        if a.arg == arg and d is not None:
            return _literal(d, f'default of {arg}'), None
    raise TranslateError(f'{rel}: {fname} has no default for {arg}')


def _call_arg(fn, callee, arg, default, position):
    calls = [n for n in ast.walk(fn) if isinstance(n, ast.Call) and isinstance(n.func, ast.Attribute)
             and n.func.attr == callee]
    if len(calls) != 1:
        raise TranslateError(f'{len(calls)} calls of {callee} in {METHOD}')
    c = calls[0]
    if any(k.arg is None for k in c.keywords) or any(isinstance(a, ast.Starred) for a in c.args):
        raise TranslateError(f'line {c.lineno}: * / ** arguments in the call of {callee}')
    for k in c.keywords:
        if k.arg == arg:
            return _literal(k.value, arg)
    if position is not None and len(c.args) > position:
        return _literal(c.args[position], arg)
    return default


def _int(node):
    v = _literal(node, 'clamp constant')
    if isinstance(v, bool) or not isinstance(v, (int, float)) or v != int(v):
        raise TranslateError(f'line {node.lineno}: clamp constant is not an integer')
    return int(v)


def _clamps_in(fn):
    out = []
    for st in ast.walk(fn):
        if not (isinstance(st, ast.Assign) and len(st.targets) == 1 and isinstance(st.targets[0], ast.Subscript)):
            continue
        t = st.targets[0]
        if not (isinstance(t.value, ast.Attribute) and t.value.attr == 'data' and isinstance(t.slice, ast.Compare)):
            continue
        cmpn = t.slice
        if len(cmpn.ops) != 1 or type(cmpn.ops[0]) not in OPS:
            raise TranslateError(f'line {st.lineno}: comparison not understood')
        if ast.dump(cmpn.left) != ast.dump(t.value):
            raise TranslateError(f'line {st.lineno}: mask is not on the array that is assigned')
        out.append((st.lineno, OPS[type(cmpn.ops[0])], _int(cmpn.comparators[0]), _int(st.value)))
    return [x[1:] for x in sorted(out)]


def translate(repo):
    rel = 'femio/geometry_processor.py'
    src = (Path(repo) / rel).read_text()
    tree = ast.parse(src)
    lines = src.splitlines()
    cls, fn = _find_method(tree, METHOD)
    if fn is None:
        raise TranslateError(f'{METHOD} not found')
    consumed = {f'{rel}:{METHOD}': _sha(lines, fn)}
    d_dedup, p_dedup = _default_of(repo, 'femio/fem_data.py', 'to_facets', 'remove_duplicates')
    d_min, p_min = _default_of(repo, 'femio/graph_processor.py', 'calculate_relative_incidence_metrix_element',
                               'minimum_n_sharing')
    dedup = _call_arg(fn, 'to_facets', 'remove_duplicates', d_dedup, p_dedup)
    mins = _call_arg(fn, 'calculate_relative_incidence_metrix_element', 'minimum_n_sharing', d_min, p_min)
    if mins is not None and (isinstance(mins, bool) or not isinstance(mins, int)):
        raise TranslateError('minimum_n_sharing is neither None nor an integer')
    # the clamp: in the method, else in helpers it calls (two levels)
    funcs = {st.name: st for st in tree.body if isinstance(st, ast.FunctionDef)}
    funcs.update({st.name: st for st in cls.body if isinstance(st, ast.FunctionDef) and st.name != METHOD})
    clamps, frontier, seen = _clamps_in(fn), [fn], set()
    for _ in range(2):
        if clamps:
            break
        nxt = []
        for f in frontier:
            for n in ast.walk(f):
                if isinstance(n, ast.Call):
                    name = n.func.id if isinstance(n.func, ast.Name) else (
                        n.func.attr if isinstance(n.func, ast.Attribute) and isinstance(n.func.value, ast.Name)
                        and n.func.value.id in ('self', 'cls') else None)
                    if name in funcs and name not in seen:
                        seen.add(name)
                        nxt.append(funcs[name])
        with_clamps = [(f, _clamps_in(f)) for f in nxt]
        with_clamps = [(f, c) for f, c in with_clamps if c]
        if len(with_clamps) > 1:
            raise TranslateError('sign clamps in more than one helper')
        if with_clamps:
            f, clamps = with_clamps[0]
            consumed[f'{rel}:helper:{f.name}'] = _sha(lines, f)
        frontier = nxt
    if not clamps:
        raise TranslateError('no statement of the form X.data[X.data OP c] = v found')
    return {'dedup': bool(dedup), 'min_sharing': mins, 'clamps': clamps}, consumed


def emit(tr):
    z = lambda v: str(v) if v >= 0 else '(%d)' % v      # noqa
    steps = '; '.join('(%s, %s, %s)' % (o, z(c), z(v)) for o, c, v in tr['clamps'])
    ms = 'None' if tr['min_sharing'] is None else 'Some %s' % z(tr['min_sharing'])
    return ('(* GENERATED by translate/c12_incidence.py from femio/geometry_processor.py — do not edit *)\n'
            'From Coq Require Import List ZArith.\nImport ListNotations.\nFrom FV.C12 Require Import Rule.\n'
            'Open Scope Z_scope.\n\n'
            '(* to_facets(remove_duplicates=...) *)\n'
            'Definition dedup_flag : bool := %s.\n\n'
            '(* calculate_relative_incidence_metrix_element(..., minimum_n_sharing=...) *)\n'
            'Definition min_sharing : option Z := %s.\n\n'
            '(* dots.data[dots.data OP c] = v, in source order *)\n'
            'Definition clamp_steps : list (cmp * Z * Z) := [%s].\n\n'
            'Definition sgn_rule (d : Z) : Z := apply_clamps clamp_steps d.\n'
            % ('true' if tr['dedup'] else 'false', ms, steps))


def apply_python(tr, d):
    """the extracted clamp applied to one integer (translator validation against the Coq evaluation)"""
    import operator
    f = {'Clt': operator.lt, 'Cle': operator.le, 'Cgt': operator.gt, 'Cge': operator.ge, 'Ceq': operator.eq,
         'Cne': operator.ne}
    for o, c, v in tr['clamps']:
        if f[o](d, c):
            d = v
    return d
