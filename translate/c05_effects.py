"""Fail-closed translator for C05 (native npy cache), part B.

From femio/fem_data.py, fem_attribute.py, fem_attributes.py,
fem_elemental_attribute.py it extracts

  * the ordered file effects of FEMData.save for save_mesh_only False / True
    (SWr file comp skip_empty | STouch file | SRm file | SRmGlob pre suf),
    following the `save` method of the class of each saved member to find out
    whether an empty collection is skipped,
  * the sentinel name read_directory tests before loading the cache and the
    one it tests before re-saving,
  * the file each component is loaded from in read_npy_directory.

Anything outside the small grammar below raises TranslateError (= tie broken).
"""
import ast
import fnmatch
import hashlib
from pathlib import Path


class TranslateError(Exception):
    pass


COMP_OF_MEMBER = {'nodes': 'CNodes', 'elements': 'CElements', 'nodal_data': 'CNodal',
                  'elemental_data': 'CElemental', 'constraints': 'CConstraints',
                  'settings': 'CSettings'}
CLASS_FILES = {'FEMAttribute': 'femio/fem_attribute.py',
               'FEMAttributes': 'femio/fem_attributes.py',
               'FEMElementalAttribute': 'femio/fem_elemental_attribute.py'}


def coq_str(s):
    if not all(32 <= ord(c) < 127 for c in s):
        raise TranslateError(f'non-ascii string {s!r}')
    return '"' + s.replace('"', '""') + '"'


def dump(n):
    return ast.dump(n)


def find_class(tree, name):
    for n in tree.body:
        if isinstance(n, ast.ClassDef) and n.name == name:
            return n
    raise TranslateError(f'class {name} not found')


def find_method(cls, name):
    for n in cls.body:
        if isinstance(n, ast.FunctionDef) and n.name == name:
            return n
    raise TranslateError(f'method {cls.name}.{name} not found')


def strip_doc(body):
    if body and isinstance(body[0], ast.Expr) and isinstance(body[0].value, ast.Constant) \
            and isinstance(body[0].value.value, str):
        return body[1:]
    return body


def is_name(n, s):
    return isinstance(n, ast.Name) and n.id == s


def is_self_attr(n, attr=None):
    return isinstance(n, ast.Attribute) and is_name(n.value, 'self') and \
        (attr is None or n.attr == attr)


class Translator:
    def __init__(self, repo):
        self.repo = Path(repo)
        self.consumed = {}
        self.trees = {}

    def load(self, rel):
        if rel not in self.trees:
            p = self.repo / rel
            if not p.exists():
                raise TranslateError(f'{rel} missing')
            src = p.read_text()
            self.trees[rel] = (src, ast.parse(src))
        return self.trees[rel]

    def note(self, rel, node, src):
        seg = ast.get_source_segment(src, node) or ''
        self.consumed[f'{rel}:{getattr(node, "name", "?")}'] = hashlib.sha256(seg.encode()).hexdigest()

    # ------------------------------------------------------------ save() of members
    def member_classes(self):
        """class of self.<member> as assigned in FEMData.__init__"""
        src, tree = self.load('femio/fem_data.py')
        init = find_method(find_class(tree, 'FEMData'), '__init__')
        self.note('femio/fem_data.py', init, src)
        out = {}
        for st in ast.walk(init):
            if isinstance(st, ast.Assign) and len(st.targets) == 1 and is_self_attr(st.targets[0]) \
                    and st.targets[0].attr in COMP_OF_MEMBER:
                m = st.targets[0].attr
                v = st.value
                if isinstance(v, ast.Constant) and v.value is None:
                    continue
                if isinstance(v, ast.BoolOp) and isinstance(v.op, ast.Or):
                    v = v.values[-1]
                if isinstance(v, ast.Call) and isinstance(v.func, ast.Name):
                    cls = v.func.id
                elif isinstance(v, ast.Dict) and not v.keys:
                    cls = 'dict'
                else:
                    raise TranslateError(f'FEMData.__init__: cannot tell the class of self.{m}: '
                                         f'{ast.unparse(st)}')
                if m in out and out[m] != cls:
                    raise TranslateError(f'self.{m} has two classes')
                out[m] = cls
        for m in COMP_OF_MEMBER:
            if m not in out:
                raise TranslateError(f'FEMData.__init__ does not assign self.{m}')
        # collections that __init__ makes non-empty (self.nodal_data['NODE'] =
        # self.nodes): the `len(self) == 0` early return of their save() never fires
        self.never_empty = set()
        for st in init.body:
            if isinstance(st, ast.Assign) and len(st.targets) == 1 and \
                    isinstance(st.targets[0], ast.Subscript) and is_self_attr(st.targets[0].value) and \
                    isinstance(st.targets[0].slice, ast.Constant) and is_self_attr(st.value):
                self.never_empty.add(st.targets[0].value.attr)
        return out

    def member_save(self, clsname):
        """-> skip_empty (bool) for <clsname>.save(file_): body must be
        [if len(self) == 0: return]  np.savez(file_, **self.to_dict())  [return]"""
        if clsname not in CLASS_FILES:
            raise TranslateError(f'no save() known for class {clsname}')
        rel = CLASS_FILES[clsname]
        src, tree = self.load(rel)
        fn = find_method(find_class(tree, clsname), 'save')
        self.note(rel, fn, src)
        if [a.arg for a in fn.args.args] != ['self', 'file_'] or fn.args.kwonlyargs or \
                fn.args.vararg or fn.args.kwarg:
            raise TranslateError(f'{clsname}.save: unexpected signature')
        body = strip_doc(fn.body)
        skip = False
        i = 0
        if i < len(body) and isinstance(body[i], ast.If):
            t = body[i]
            want = "Compare(left=Call(func=Name(id='len', ctx=Load()), args=[Name(id='self', " \
                   "ctx=Load())], keywords=[]), ops=[Eq()], comparators=[Constant(value=0)])"
            if dump(t.test) != want or t.orelse or len(t.body) != 1 or \
                    not isinstance(t.body[0], ast.Return) or t.body[0].value is not None:
                raise TranslateError(f'{clsname}.save: unexpected guard {ast.unparse(t.test)}')
            skip = True
            i += 1
        if i >= len(body):
            raise TranslateError(f'{clsname}.save writes nothing')
        want = "Expr(value=Call(func=Attribute(value=Name(id='np', ctx=Load()), attr='savez', " \
               "ctx=Load()), args=[Name(id='file_', ctx=Load())], keywords=[keyword(value=Call(" \
               "func=Attribute(value=Name(id='self', ctx=Load()), attr='to_dict', ctx=Load()), " \
               "args=[], keywords=[]))]))"
        if dump(body[i]) != want:
            raise TranslateError(f'{clsname}.save: unexpected statement {ast.unparse(body[i])}')
        i += 1
        if i < len(body) and isinstance(body[i], ast.Return) and body[i].value is None:
            i += 1
        if i != len(body):
            raise TranslateError(f'{clsname}.save: trailing statements {ast.unparse(body[i])}')
        return skip

    # ------------------------------------------------------------ FEMData.save
    # The statements are read by meaning, not spelling: string constants bound at module or
    # class level are resolved, locals bound to `dir / 'name'` are followed, and calls of
    # helpers (methods of FEMData or module-level functions whose body is again inside this
    # grammar) are inlined with their parameters bound to the caller's directory / paths / flag.
    def constants(self):
        """NAME = 'string' at module level and at FEMData class level"""
        if getattr(self, '_consts', None) is None:
            src, tree = self.load('femio/fem_data.py')
            out = {}
            bodies = [tree.body, find_class(tree, 'FEMData').body]
            for body in bodies:
                for st in body:
                    if isinstance(st, ast.Assign) and len(st.targets) == 1 and \
                            isinstance(st.targets[0], ast.Name) and isinstance(st.value, ast.Constant) \
                            and isinstance(st.value.value, str):
                        nm = st.targets[0].id
                        if nm in out and out[nm] != st.value.value:
                            raise TranslateError(f'constant {nm} bound twice')
                        out[nm] = st.value.value
            # a constant that is re-bound anywhere else is not a constant
            for n in ast.walk(tree):
                if isinstance(n, (ast.Assign, ast.AugAssign, ast.AnnAssign)):
                    tg = n.targets if isinstance(n, ast.Assign) else [n.target]
                    for t in tg:
                        for x in ast.walk(t):
                            if isinstance(x, ast.Name) and x.id in out and not any(n in b for b in bodies):
                                del out[x.id]
            self._consts = out
        return self._consts

    def const_str(self, n):
        """string denoted by a constant expression (literal, module / class constant)"""
        if isinstance(n, ast.Constant) and isinstance(n.value, str):
            return n.value
        if isinstance(n, ast.Name) and n.id in self.constants():
            return self.constants()[n.id]
        if isinstance(n, ast.Attribute) and isinstance(n.value, ast.Name) and \
                n.value.id in ('self', 'cls', 'FEMData') and n.attr in self.constants():
            return self.constants()[n.attr]
        return None

    def helper(self, func):
        """FunctionDef of a helper called as self.f / cls.f / FEMData.f / f, with the number of
        implicit leading parameters"""
        src, tree = self.load('femio/fem_data.py')
        fn = None
        if isinstance(func, ast.Attribute) and isinstance(func.value, ast.Name) and \
                func.value.id in ('self', 'cls', 'FEMData'):
            cls = find_class(tree, 'FEMData')
            for n in cls.body:
                if isinstance(n, ast.FunctionDef) and n.name == func.attr:
                    fn = n
            if fn is None:
                return None, 0
            decos = [ast.unparse(d) for d in fn.decorator_list]
            if decos == ['staticmethod']:
                implicit = 0
            elif decos == ['classmethod'] or decos == []:
                implicit = 1
            else:
                raise TranslateError(f'helper {fn.name}: unsupported decorator')
        elif isinstance(func, ast.Name):
            for n in tree.body:
                if isinstance(n, ast.FunctionDef) and n.name == func.id:
                    fn = n
            implicit = 0
            if fn is None:
                return None, 0
        else:
            return None, 0
        self.note('femio/fem_data.py', fn, src)
        return fn, implicit

    def bind_call(self, fn, implicit, call, sc):
        """scope of the helper's body: each parameter is the directory, a path, or the flag"""
        a = fn.args
        if a.vararg or a.kwarg or a.kwonlyargs or a.posonlyargs:
            raise TranslateError(f'helper {fn.name}: unsupported signature')
        params = [x.arg for x in a.args][implicit:]
        if len(a.defaults) > 0:
            raise TranslateError(f'helper {fn.name}: default arguments')
        actual = {}
        if len(call.args) > len(params):
            raise TranslateError(f'helper {fn.name}: too many arguments')
        for pn, v in zip(params, call.args):
            actual[pn] = v
        for kw in call.keywords:
            if kw.arg is None or kw.arg not in params or kw.arg in actual:
                raise TranslateError(f'helper {fn.name}: unsupported keyword argument')
            actual[kw.arg] = kw.value
        if set(actual) != set(params):
            raise TranslateError(f'helper {fn.name}: missing arguments')
        new = {'dirs': set(), 'env': {}, 'flags': set(), 'depth': sc['depth'] + 1}
        if new['depth'] > 3:
            raise TranslateError('helper calls nested too deeply')
        for pn, v in actual.items():
            if isinstance(v, ast.Name) and v.id in sc['dirs']:
                new['dirs'].add(pn)
            elif isinstance(v, ast.Name) and v.id in sc['flags']:
                new['flags'].add(pn)
            else:
                new['env'][pn] = self.path_name(v, sc)
        return new

    def path_name(self, n, sc):
        """dir / 'const' (or a local / parameter bound to it) -> const"""
        env = sc['env'] if isinstance(sc, dict) and 'env' in sc else sc
        dirs = sc['dirs'] if isinstance(sc, dict) and 'dirs' in sc else {'dir_name'}
        if isinstance(n, ast.Name) and n.id in env:
            return env[n.id]
        if isinstance(n, ast.BinOp) and isinstance(n.op, ast.Div) and isinstance(n.left, ast.Name) \
                and n.left.id in dirs:
            s = self.const_str(n.right)
            if s is not None:
                if '/' in s or s in ('', '.', '..'):
                    raise TranslateError(f'unexpected file name {s!r}')
                return s
        raise TranslateError(f'unexpected path expression {ast.unparse(n)}')

    @staticmethod
    def npz(name):
        # numpy.savez appends .npz unless the name already ends with it
        return name if name.endswith('.npz') else name + '.npz'

    def glob_parts(self, pat):
        if pat.count('*') != 1 or any(c in pat for c in '?[]/'):
            raise TranslateError(f'unsupported glob pattern {pat!r}')
        pre, suf = pat.split('*')
        return pre, suf

    def flag_test(self, t, sc):
        """-> True / False when t is `flag` / `not flag`, else None"""
        if isinstance(t, ast.Name) and t.id in sc['flags']:
            return True
        if isinstance(t, ast.UnaryOp) and isinstance(t.op, ast.Not) and isinstance(t.operand, ast.Name) \
                and t.operand.id in sc['flags']:
            return False
        return None

    def is_dir(self, n, sc):
        return isinstance(n, ast.Name) and n.id in sc['dirs']

    def save_block(self, body, mesh_only, sc, classes, steps):
        """returns True when the block returned"""
        if not isinstance(sc, dict) or 'dirs' not in sc:
            sc = {'dirs': {'dir_name'}, 'env': sc, 'flags': {'save_mesh_only'}, 'depth': 0}
        for st in body:
            if isinstance(st, ast.Pass):
                continue
            # dir_name = Path(dir_name)
            if isinstance(st, ast.Assign) and len(st.targets) == 1 and isinstance(st.targets[0], ast.Name) \
                    and isinstance(st.value, ast.Call) and is_name(st.value.func, 'Path') \
                    and len(st.value.args) == 1 and not st.value.keywords and self.is_dir(st.value.args[0], sc):
                sc['dirs'].add(st.targets[0].id)
                continue
            # local = dir_name / 'x'
            if isinstance(st, ast.Assign) and len(st.targets) == 1 and isinstance(st.targets[0], ast.Name):
                nm = st.targets[0].id
                if nm in sc['dirs'] or nm in sc['flags']:
                    raise TranslateError(f'save: {ast.unparse(st)}')
                sc['env'][nm] = self.path_name(st.value, sc)
                continue
            if isinstance(st, ast.Return):
                if st.value is not None and not (isinstance(st.value, ast.Constant) and st.value.value is None):
                    raise TranslateError('save returns a value')
                return True
            if isinstance(st, ast.If):
                t = st.test
                # if save_mesh_only: / if not save_mesh_only:
                ft = self.flag_test(t, sc)
                if ft is not None:
                    blk = st.body if (mesh_only == ft) else st.orelse
                    if self.save_block(blk, mesh_only, sc, classes, steps):
                        return True
                    continue
                # if not dir_name.exists(): dir_name.mkdir(...)
                if isinstance(t, ast.UnaryOp) and isinstance(t.op, ast.Not) and isinstance(t.operand, ast.Call) \
                        and isinstance(t.operand.func, ast.Attribute) and t.operand.func.attr in ('exists', 'is_dir') \
                        and self.is_dir(t.operand.func.value, sc) and not t.operand.args \
                        and len(st.body) == 1 and not st.orelse and isinstance(st.body[0], ast.Expr) \
                        and isinstance(st.body[0].value, ast.Call) \
                        and isinstance(st.body[0].value.func, ast.Attribute) \
                        and st.body[0].value.func.attr == 'mkdir' \
                        and self.is_dir(st.body[0].value.func.value, sc):
                    continue
                # if P.exists(): P.unlink()
                if isinstance(t, ast.Call) and isinstance(t.func, ast.Attribute) and t.func.attr in ('exists', 'is_file') \
                        and not t.args and not t.keywords and len(st.body) == 1 and not st.orelse:
                    p = self.path_name(t.func.value, sc)
                    b = st.body[0]
                    if isinstance(b, ast.Expr) and isinstance(b.value, ast.Call) and \
                            isinstance(b.value.func, ast.Attribute) and b.value.func.attr == 'unlink' \
                            and not b.value.args and self.path_name(b.value.func.value, sc) == p:
                        steps.append(('SRm', p))
                        continue
                raise TranslateError(f'save: unsupported if: {ast.unparse(t)}')
            if isinstance(st, ast.For):
                # for v in [sorted(]dir_name.glob('pat')[)]: v.unlink()
                it = st.iter
                if isinstance(it, ast.Call) and isinstance(it.func, ast.Name) and it.func.id in ('sorted', 'list') \
                        and len(it.args) == 1 and not it.keywords:
                    it = it.args[0]
                if isinstance(st.target, ast.Name) and isinstance(it, ast.Call) and \
                        isinstance(it.func, ast.Attribute) and it.func.attr == 'glob' \
                        and self.is_dir(it.func.value, sc) \
                        and len(it.args) == 1 and self.const_str(it.args[0]) is not None \
                        and not it.keywords and not st.orelse and len(st.body) == 1:
                    b = st.body[0]
                    v = st.target.id
                    if isinstance(b, ast.Expr) and isinstance(b.value, ast.Call) and \
                            isinstance(b.value.func, ast.Attribute) and b.value.func.attr == 'unlink' \
                            and is_name(b.value.func.value, v) and not b.value.args:
                        pre, suf = self.glob_parts(self.const_str(it.args[0]))
                        steps.append(('SRmGlob', pre, suf))
                        continue
                raise TranslateError(f'save: unsupported loop: {ast.unparse(st)[:80]}')
            if isinstance(st, ast.Expr) and isinstance(st.value, ast.Call):
                c = st.value
                f = c.func
                if is_name(f, 'print'):
                    continue
                # dir_name.mkdir(parents=True, exist_ok=True)
                if isinstance(f, ast.Attribute) and f.attr == 'mkdir' and self.is_dir(f.value, sc):
                    continue
                # self.<member>.save(P)
                if isinstance(f, ast.Attribute) and f.attr == 'save' and is_self_attr(f.value) \
                        and len(c.args) == 1 and not c.keywords:
                    m = f.value.attr
                    if m not in COMP_OF_MEMBER or m == 'settings':
                        raise TranslateError(f'save: unknown member self.{m}')
                    skip = self.member_save(classes[m]) and m not in self.never_empty
                    steps.append(('SWr', self.npz(self.path_name(c.args[0], sc)), COMP_OF_MEMBER[m], skip))
                    continue
                # np.savez(P, **self.settings)
                if dump(f) == "Attribute(value=Name(id='np', ctx=Load()), attr='savez', ctx=Load())" \
                        and len(c.args) == 1 and len(c.keywords) == 1 and c.keywords[0].arg is None \
                        and is_self_attr(c.keywords[0].value, 'settings'):
                    steps.append(('SWr', self.npz(self.path_name(c.args[0], sc)), 'CSettings', False))
                    continue
                # P.touch() / P.unlink(missing_ok=True)
                if isinstance(f, ast.Attribute) and f.attr == 'touch' and not c.args and not c.keywords:
                    steps.append(('STouch', self.path_name(f.value, sc)))
                    continue
                if isinstance(f, ast.Attribute) and f.attr == 'unlink' and not c.args and \
                        len(c.keywords) == 1 and c.keywords[0].arg == 'missing_ok' and \
                        isinstance(c.keywords[0].value, ast.Constant) and c.keywords[0].value.value is True:
                    steps.append(('SRm', self.path_name(f.value, sc)))
                    continue
                # a helper whose body is inside this grammar: inlined
                fn, implicit = self.helper(f)
                if fn is not None and fn.name != 'save':
                    inner = self.bind_call(fn, implicit, c, sc)
                    self.save_block(strip_doc(fn.body), mesh_only, inner, classes, steps)
                    continue
            raise TranslateError(f'save: unsupported statement: {ast.unparse(st)[:100]}')
        return False

    def translate_save(self):
        src, tree = self.load('femio/fem_data.py')
        fn = find_method(find_class(tree, 'FEMData'), 'save')
        self.note('femio/fem_data.py', fn, src)
        if [a.arg for a in fn.args.args] != ['self', 'dir_name'] or \
                [a.arg for a in fn.args.kwonlyargs] != ['save_mesh_only'] or \
                [dump(d) for d in fn.args.kw_defaults] != ['Constant(value=False)']:
            raise TranslateError('FEMData.save: unexpected signature')
        classes = self.member_classes()
        out = {}
        for mesh_only in (False, True):
            steps = []
            self.save_block(strip_doc(fn.body), mesh_only, {}, classes, steps)
            out[mesh_only] = steps
        return out[False], out[True], classes

    def exists_name(self, n, sc=None, depth=0):
        """file whose existence the expression tests: `(dir / F).exists()` / `.is_file()`, or a
        call of a helper that returns such an expression of its parameter"""
        sc = sc or {'dirs': {'dir_name'}, 'env': {}, 'flags': set(), 'depth': 0}
        if isinstance(n, ast.Call) and isinstance(n.func, ast.Attribute) and n.func.attr in ('exists', 'is_file') \
                and not n.args and not n.keywords:
            try:
                return self.path_name(n.func.value, sc)
            except TranslateError:
                return None
        if isinstance(n, ast.Call) and depth < 3:
            fn, implicit = self.helper(n.func)
            if fn is not None:
                body = strip_doc(fn.body)
                if len(body) == 1 and isinstance(body[0], ast.Return) and body[0].value is not None:
                    inner = self.bind_call(fn, implicit, n, sc)
                    return self.exists_name(body[0].value, inner, depth + 1)
        return None

    # ------------------------------------------------------------ read_directory
    def translate_read(self):
        src, tree = self.load('femio/fem_data.py')
        fn = find_method(find_class(tree, 'FEMData'), 'read_directory')
        self.note('femio/fem_data.py', fn, src)
        kwd = {a.arg: dump(d) for a, d in zip(fn.args.kwonlyargs, fn.args.kw_defaults)}
        if kwd.get('read_npy') != 'Constant(value=True)' or kwd.get('save') != 'Constant(value=True)':
            raise TranslateError('read_directory: defaults of read_npy/save changed')
        body = strip_doc(fn.body)
        self.resave_mesh_read = True
        read_sent = resave_sent = None
        pos_load = pos_parse = pos_resave = None
        for i, st in enumerate(body):
            if isinstance(st, ast.If) and isinstance(st.test, ast.BoolOp) and isinstance(st.test.op, ast.And) \
                    and len(st.test.values) in (2, 3):
                vals = list(st.test.values)
                # `save and not read_mesh_only and not sentinel.exists()`: no re-save on mesh-only reads
                if len(vals) == 3:
                    if is_name(vals[0], 'save') and ast.dump(vals[1]) == \
                            "UnaryOp(op=Not(), operand=Name(id='read_mesh_only', ctx=Load()))":
                        self.resave_mesh_read = False
                        vals = [vals[0], vals[2]]
                    else:
                        raise TranslateError(f'read_directory: unsupported test {ast.unparse(st.test)}')
                a, b = vals
                if is_name(a, 'read_npy') and self.exists_name(b) is not None:
                    if read_sent is not None:
                        raise TranslateError('read_directory: two cache tests')
                    read_sent = self.exists_name(b)
                    last = st.body[-1]
                    ok = isinstance(last, ast.Return) and isinstance(last.value, ast.Call) and \
                        dump(last.value.func) == "Attribute(value=Name(id='cls', ctx=Load()), attr='read_npy_directory', ctx=Load())" \
                        and len(last.value.args) == 1 and is_name(last.value.args[0], 'dir_name') \
                        and [(k.arg, ast.unparse(k.value)) for k in last.value.keywords] == \
                        [('read_mesh_only', 'read_mesh_only')] and not st.orelse
                    for x in st.body[:-1]:
                        ok = ok and isinstance(x, ast.Expr) and isinstance(x.value, ast.Call) and is_name(x.value.func, 'print')
                    if not ok:
                        raise TranslateError('read_directory: unexpected body of the cache test')
                    pos_load = i
                    continue
                if is_name(a, 'save') and isinstance(b, ast.UnaryOp) and isinstance(b.op, ast.Not) and \
                        self.exists_name(b.operand) is not None:
                    if resave_sent is not None:
                        raise TranslateError('read_directory: two re-save tests')
                    resave_sent = self.exists_name(b.operand)
                    if len(st.body) != 1 or st.orelse or dump(st.body[0]) != \
                            "Expr(value=Call(func=Attribute(value=Name(id='obj', ctx=Load()), attr='save', ctx=Load()), args=[Name(id='dir_name', ctx=Load())], keywords=[]))":
                        raise TranslateError('read_directory: unexpected body of the re-save test')
                    pos_resave = i
                    continue
            if isinstance(st, ast.Assign) and len(st.targets) == 1 and is_name(st.targets[0], 'obj') and \
                    isinstance(st.value, ast.Call) and \
                    dump(st.value.func) == "Attribute(value=Name(id='cls', ctx=Load()), attr='read_files', ctx=Load())":
                pos_parse = i
        if None in (read_sent, resave_sent, pos_load, pos_parse, pos_resave):
            raise TranslateError('read_directory: cache test, parse or re-save not recognised')
        if not (pos_load < pos_parse < pos_resave) or pos_resave != len(body) - 2 or \
                dump(body[-1]) != "Return(value=Name(id='obj', ctx=Load()))":
            raise TranslateError('read_directory: unexpected order of load / parse / re-save / return')
        # nothing else in the function may touch the cache
        n_save = n_rnd = 0
        for n in ast.walk(fn):
            if isinstance(n, ast.Call) and isinstance(n.func, ast.Attribute):
                if n.func.attr == 'save':
                    n_save += 1
                if n.func.attr == 'read_npy_directory':
                    n_rnd += 1
                if n.func.attr in ('touch', 'unlink', 'savez', 'rmtree', 'remove', 'rename', 'replace'):
                    raise TranslateError(f'read_directory: unexpected call .{n.func.attr}()')
            if isinstance(n, ast.Constant) and isinstance(n.value, str) and 'femio_' in n.value \
                    and n.value not in (read_sent, resave_sent) and n is not body[0]:
                if fn.body and isinstance(fn.body[0], ast.Expr) and n is fn.body[0].value:
                    continue
                raise TranslateError(f'read_directory: unexpected cache file name {n.value!r}')
        if n_save != 1 or n_rnd != 1:
            raise TranslateError('read_directory: extra save()/read_npy_directory() calls')
        return read_sent, resave_sent

    # ------------------------------------------------------------ read_npy_directory
    def translate_load(self):
        src, tree = self.load('femio/fem_data.py')
        fn = find_method(find_class(tree, 'FEMData'), 'read_npy_directory')
        self.note('femio/fem_data.py', fn, src)
        body = strip_doc(fn.body)
        want0 = "Assign(targets=[Name(id='files', ctx=Store())], value=Call(func=Attribute(value=Name(id='glob', ctx=Load()), attr='glob', ctx=Load()), args=[Call(func=Name(id='str', ctx=Load()), args=[BinOp(left=Call(func=Name(id='Path', ctx=Load()), args=[Name(id='dir_name', ctx=Load())], keywords=[]), op=Div(), right=Constant(value='@'))], keywords=[])], keywords=[]))"
        pat = None
        if len(body) >= 2 and isinstance(body[0], ast.Assign):
            try:
                pat = body[0].value.args[0].args[0].right.value
            except Exception:
                pat = None
        if not isinstance(pat, str) or dump(body[0]) != want0.replace("'@'", repr(pat)):
            raise TranslateError('read_npy_directory: unexpected glob statement')
        want1 = "Assign(targets=[Name(id='dict_files', ctx=Store())], value=DictComp(key=Attribute(value=Call(func=Name(id='Path', ctx=Load()), args=[Name(id='f', ctx=Load())], keywords=[]), attr='stem', ctx=Load()), value=Name(id='f', ctx=Load()), generators=[comprehension(target=Name(id='f', ctx=Store()), iter=Name(id='files', ctx=Load()), ifs=[], is_async=0)]))"
        if dump(body[1]) != want1:
            raise TranslateError('read_npy_directory: unexpected dict_files statement')

        names = {}      # comp -> stem
        guarded = {}    # comp -> bool

        def classify(st, guard):
            """find dict_files['stem'] uses in statement st"""
            for n in ast.walk(st):
                if isinstance(n, ast.Subscript) and is_name(n.value, 'dict_files'):
                    if not (isinstance(n.slice, ast.Constant) and isinstance(n.slice.value, str)):
                        raise TranslateError('read_npy_directory: non-constant dict_files key')
                    stem = n.slice.value
                    comp = None
                    if isinstance(st, ast.Assign) and len(st.targets) == 1 and isinstance(st.targets[0], ast.Name):
                        comp = {'nodes': 'CNodes', 'elements': 'CElements',
                                'elemental_data': 'CElemental'}.get(st.targets[0].id)
                    elif isinstance(st, ast.Expr) and isinstance(st.value, ast.Call) and \
                            isinstance(st.value.func, ast.Attribute) and st.value.func.attr == 'update' and \
                            isinstance(st.value.func.value, ast.Attribute) and is_name(st.value.func.value.value, 'obj'):
                        comp = COMP_OF_MEMBER.get(st.value.func.value.attr)
                    elif isinstance(st, ast.Expr) and isinstance(st.value, ast.Call):
                        # a helper that is handed the member it fills and the file it fills it from:
                        # helper(obj.<member>, dict_files['stem'])
                        members = {a.attr for a in ast.walk(st) if isinstance(a, ast.Attribute)
                                   and is_name(a.value, 'obj') and a.attr in COMP_OF_MEMBER}
                        if len(members) == 1:
                            comp = COMP_OF_MEMBER[members.pop()]
                    if comp is None:
                        raise TranslateError(f'read_npy_directory: cannot classify {ast.unparse(st)[:80]}')
                    if comp in names and names[comp] != stem:
                        raise TranslateError(f'read_npy_directory: {comp} loaded from two files')
                    if guard is not None and guard != stem:
                        raise TranslateError(f'read_npy_directory: {stem} used under a test of {guard}')
                    names[comp] = stem
                    guarded[comp] = guarded.get(comp, True) and guard is not None

        def walk(stmts, guard):
            for st in stmts:
                if isinstance(st, ast.If):
                    t = st.test
                    if isinstance(t, ast.Compare) and len(t.ops) == 1 and isinstance(t.ops[0], ast.In) and \
                            is_name(t.comparators[0], 'dict_files') and isinstance(t.left, ast.Constant):
                        if st.orelse:
                            raise TranslateError('read_npy_directory: else branch on a cache file test')
                        walk(st.body, t.left.value)
                    else:
                        for n in ast.walk(t):
                            if is_name(n, 'dict_files'):
                                raise TranslateError('read_npy_directory: unexpected test on dict_files')
                        walk(st.body, guard)
                        walk(st.orelse, guard)
                elif isinstance(st, (ast.Assign, ast.Expr, ast.Return)):
                    classify(st, guard)
                else:
                    raise TranslateError(f'read_npy_directory: unsupported statement {ast.unparse(st)[:60]}')

        walk(body[2:], None)
        for c in COMP_OF_MEMBER.values():
            if c not in names:
                raise TranslateError(f'read_npy_directory: {c} is never loaded')
        if guarded['CNodes'] or guarded['CElements']:
            raise TranslateError('read_npy_directory: nodes/elements became optional')
        for c in ('CNodal', 'CElemental', 'CConstraints', 'CSettings'):
            if not guarded[c]:
                raise TranslateError(f'read_npy_directory: {c} is loaded unconditionally')
        # the elemental data loaded early must be the one merged at the end
        if "obj.elemental_data.update(elemental_data)" not in ast.unparse(fn):
            raise TranslateError('read_npy_directory: elemental data not merged')
        out = []
        for m, c in COMP_OF_MEMBER.items():
            full = names[c] + '.npz'
            if not fnmatch.fnmatchcase(full, pat):
                raise TranslateError(f'read_npy_directory: {full} does not match the glob {pat}')
            out.append((c, full))
        return out, pat


def translate(repo):
    t = Translator(repo)
    try:
        full, mesh, classes = t.translate_save()
        read_sent, resave_sent = t.translate_read()
        names, pat = t.translate_load()
    except TranslateError as e:
        e.consumed = dict(t.consumed)       # regions read so far (for the evidence)
        raise
    cfg = {'steps_full': full, 'steps_mesh': mesh, 'read_sentinel': read_sent,
           'resave_sentinel': resave_sent, 'load_names': names, 'glob': pat,
           'resave_mesh_read': t.resave_mesh_read,
           'classes': classes}
    return cfg, t.consumed


def step_coq(s):
    if s[0] == 'SWr':
        return f'SWr {coq_str(s[1])} {s[2]} {"true" if s[3] else "false"}'
    if s[0] in ('STouch', 'SRm'):
        return f'{s[0]} {coq_str(s[1])}'
    if s[0] == 'SRmGlob':
        return f'SRmGlob {coq_str(s[1])} {coq_str(s[2])}'
    raise AssertionError(s)


def emit(cfg, origin=None):
    def steps(l):
        return '[' + ';\n     '.join(step_coq(s) for s in l) + ']'
    names = '[' + ';\n     '.join(f'({c}, {coq_str(f)})' for c, f in cfg['load_names']) + ']'
    head = 'GENERATED by /verif/translate/c05_effects.py from the tree under test - do not edit.'
    if origin:
        head = ('BASELINE configuration (translate/c05_baseline.json, read from the registered tree): the '
                'translator\n   could not read the tree under test (' + origin.replace('*)', '* )').replace('(*', '( *').split('\n')[0][:300] +
                ').\n   Hand model of this run; tied by the widened correspondence.')
    return f'''(* {head}
   File effects of FEMData.save, sentinel tests of read_directory, files
   looked up by read_npy_directory. *)
From Coq Require Import String List.
Import ListNotations.
From FV.C05 Require Import Model.
Open Scope string_scope.

Definition cfg : save_cfg := {{|
  steps_full :=
    {steps(cfg['steps_full'])};
  steps_mesh :=
    {steps(cfg['steps_mesh'])};
  read_sentinel := {coq_str(cfg['read_sentinel'])};
  resave_sentinel := {coq_str(cfg['resave_sentinel'])};
  load_names :=
    {names};
  resave_mesh_read := {'true' if cfg['resave_mesh_read'] else 'false'};
  glob_order := fun l => l |}}.
'''


if __name__ == '__main__':
    import sys
    cfg, consumed = translate(sys.argv[1] if len(sys.argv) > 1 else '/repo')
    print(emit(cfg))
    print(consumed, file=sys.stderr)
