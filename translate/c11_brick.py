"""Translator for femio/util/brick_generator.py (C11).  `translate(repo)` is fail-closed;
`translate(repo, strict_layout=False)` translates the element templates only and leaves the
layout statements unchecked; REFERENCE holds the templates of the anchored source.  The
harness degrades in that order (T -> templates T + layout H -> all H, each time with a deeper
exact correspondence of generate_brick against the model) instead of reporting a rewrite of
the generator as a violation.

Translated: the element templates of `generate_element` (tri, quad, tet, hex) as
lists of linear forms  i + c0 + c1*n_x + c2*n_xy.  Everything else (meshgrid /
linspace / ravel layout, index range, the filter of the comprehension, `+ 1`,
node ids arange+1) must match the expected text exactly; the hand model
coq/C11/Brick.v states that text."""
import ast
import hashlib
from pathlib import Path


class TranslateError(Exception):
    pass


EXPECT_2D = {
    'grid': 'x, y = np.meshgrid(np.linspace(0.0, x_length, n_x_element + 1), '
            'np.linspace(0.0, y_length, n_y_element + 1))',
    'pos': 'node_positions = np.stack([np.ravel(x), np.ravel(y), np.zeros(np.ravel(x).shape)], axis=-1)',
    'nx': 'n_x = n_x_element + 1',
    'ny': 'n_y = n_y_element + 1',
    'conn': 'element_connectivities = np.concatenate([generate_element(i) for i in range(n_x * n_y) '
            'if (i + 1) % n_x != 0 and i < n_x * n_y_element]) + 1',
    'ret': 'return (node_positions, element_connectivities)',
}
EXPECT_3D = {
    'grid': 'y, z, x = np.meshgrid(np.linspace(0.0, y_length, n_y_element + 1), '
            'np.linspace(0.0, z_length, n_z_element + 1), np.linspace(0.0, x_length, n_x_element + 1))',
    'pos': 'node_positions = np.stack([np.ravel(x), np.ravel(y), np.ravel(z)], axis=-1)',
    'nx': 'n_x = n_x_element + 1',
    'ny': 'n_y = n_y_element + 1',
    'nz': 'n_z = n_z_element + 1',
    'nxy': 'n_xy = n_x * n_y',
    'conn': 'element_connectivities = np.concatenate([generate_element(i) for i in range(n_x * n_y * n_z) '
            'if (i + 1) % n_x != 0 and (i + 1) % n_xy < 1 + n_xy - n_x and (i < n_xy * n_z_element)]) + 1',
    'ret': 'return (node_positions, element_connectivities)',
}
EXPECT_TOP = [
    "nodes = fem_attribute.FEMAttribute('NODE', ids=np.arange(len(node_positions)) + 1, data=node_positions)",
    "elements = fem_elemental_attribute.FEMElementalAttribute('ELEMENT', data=element_connectivities, "
    "element_type=element_type)",
    'return fem_data.FEMData(nodes=nodes, elements=elements)',
]


def linform(node, env):
    """expression -> (c_i, c0, c_nx, c_nxy)"""
    if isinstance(node, ast.Name):
        if node.id in env:
            return env[node.id]
        if node.id == 'i':
            return (1, 0, 0, 0)
        if node.id == 'n_x':
            return (0, 0, 1, 0)
        if node.id == 'n_xy':
            return (0, 0, 0, 1)
        raise TranslateError(f'unknown name {node.id} in a template')
    if isinstance(node, ast.Constant) and isinstance(node.value, int) and not isinstance(node.value, bool):
        return (0, node.value, 0, 0)
    if isinstance(node, ast.BinOp) and isinstance(node.op, (ast.Add, ast.Sub)):
        a, b = linform(node.left, env), linform(node.right, env)
        s = 1 if isinstance(node.op, ast.Add) else -1
        return tuple(x + s * y for x, y in zip(a, b))
    raise TranslateError('template entry is not a linear form: ' + ast.unparse(node))


def template(fn):
    env = {}
    body = list(fn.body)
    if [a.arg for a in fn.args.args] != ['i']:
        raise TranslateError('generate_element must take i')
    for s in body[:-1]:
        if not (isinstance(s, ast.Assign) and len(s.targets) == 1 and isinstance(s.targets[0], ast.Name)):
            raise TranslateError('unexpected statement in generate_element')
        env[s.targets[0].id] = linform(s.value, env)
    r = body[-1]
    if not (isinstance(r, ast.Return) and isinstance(r.value, ast.Call) and
            ast.unparse(r.value.func) == 'np.array' and len(r.value.args) == 1 and
            isinstance(r.value.args[0], ast.List)):
        raise TranslateError('generate_element must return np.array([[...]])')
    rows = []
    for row in r.value.args[0].elts:
        if not isinstance(row, ast.List):
            raise TranslateError('template row is not a list')
        forms = [linform(e, env) for e in row.elts]
        if any(f[0] != 1 for f in forms):
            raise TranslateError('template entry is not i + offset')
        rows.append([f[1:] for f in forms])
    return rows


def function(tree, name):
    fs = [n for n in tree.body if isinstance(n, ast.FunctionDef) and n.name == name]
    if len(fs) != 1:
        raise TranslateError(f'{name} not found')
    return fs[0]


REFERENCE = {
    'tri': [[(0, 0, 0), (1, 0, 0), (1, 1, 0)], [(0, 0, 0), (1, 1, 0), (0, 1, 0)]],
    'quad': [[(0, 0, 0), (1, 0, 0), (1, 1, 0), (0, 1, 0)]],
    'tet': [[(0, 0, 0), (1, 0, 0), (1, 1, 0), (0, 0, 1)], [(1, 0, 0), (1, 1, 1), (0, 0, 1), (1, 0, 1)],
            [(1, 0, 0), (1, 1, 0), (0, 0, 1), (1, 1, 1)], [(0, 0, 0), (1, 1, 0), (0, 1, 0), (0, 1, 1)],
            [(0, 0, 0), (1, 1, 0), (0, 1, 1), (0, 0, 1)], [(1, 1, 0), (0, 1, 1), (0, 0, 1), (1, 1, 1)]],
    'hex': [[(0, 0, 0), (1, 0, 0), (1, 1, 0), (0, 1, 0), (0, 0, 1), (1, 0, 1), (1, 1, 1), (0, 1, 1)]],
}


def gen(fn, expect, types, strict_layout=True):
    seen = {}
    templates = {}
    for s in fn.body:
        if isinstance(s, ast.Expr) and isinstance(s.value, ast.Constant):
            continue
        if isinstance(s, ast.If):
            node = s
            while True:
                t = node.test
                if not (isinstance(t, ast.Compare) and ast.unparse(t.left) == 'element_type' and
                        isinstance(t.ops[0], ast.Eq) and isinstance(t.comparators[0], ast.Constant)):
                    raise TranslateError(f'{fn.name}: unexpected element_type test')
                ty = t.comparators[0].value
                if len(node.body) != 1 or not isinstance(node.body[0], ast.FunctionDef) or \
                        node.body[0].name != 'generate_element':
                    raise TranslateError(f'{fn.name}: branch {ty} must define generate_element')
                templates[ty] = template(node.body[0])
                if len(node.orelse) == 1 and isinstance(node.orelse[0], ast.If):
                    node = node.orelse[0]
                    continue
                if not (len(node.orelse) == 1 and isinstance(node.orelse[0], ast.Raise)):
                    raise TranslateError(f'{fn.name}: type chain must end in raise')
                break
            continue
        if not strict_layout:
            continue
        txt = ast.unparse(s)
        hit = [k for k, v in expect.items() if v == txt]
        if len(hit) != 1 or hit[0] in seen:
            raise TranslateError(f'{fn.name}: unexpected statement {txt!r}')
        seen[hit[0]] = True
    if strict_layout and set(seen) != set(expect):
        raise TranslateError(f'{fn.name}: missing statements {sorted(set(expect) - set(seen))}')
    if sorted(templates) != sorted(types):
        raise TranslateError(f'{fn.name}: element types {sorted(templates)}')
    return templates


def translate(repo, strict_layout=True):
    p = Path(repo) / 'femio' / 'util' / 'brick_generator.py'
    src = p.read_text()
    tree = ast.parse(src)
    t2 = gen(function(tree, '_generate_brick_2d'), EXPECT_2D, ['tri', 'quad'], strict_layout)
    t3 = gen(function(tree, '_generate_brick_3d'), EXPECT_3D, ['tet', 'hex'], strict_layout)
    consumed = {'util/brick_generator.py': hashlib.sha256(src.encode()).hexdigest()}
    if not strict_layout:
        return {**t2, **t3}, consumed
    top = function(tree, 'generate_brick')
    txt = ast.unparse(top)
    for e in EXPECT_TOP:
        if txt.count(e) != 1:
            raise TranslateError(f'generate_brick: expected {e!r}')
    for call in ('_generate_brick_2d(element_type, n_x_element, n_y_element, x_length=x_length, '
                 'y_length=y_length)',
                 '_generate_brick_3d(element_type, n_x_element, n_y_element, n_z_element, '
                 'x_length=x_length, y_length=y_length, z_length=z_length)'):
        if txt.count(call) != 1:
            raise TranslateError(f'generate_brick: expected call {call!r}')
    return {**t2, **t3}, consumed


def emit(templates):
    out = ['(* GENERATED by translate/c11_brick.py from femio/util/brick_generator.py. Do not edit.',
           '   Each template entry i + c0 + c1*n_x + c2*n_xy is recorded as the lattice offset',
           '   (c0, c1, c2): node (a + c0, b + c1, c + c2) of the cell whose first node is (a, b, c). *)',
           'From Coq Require Import ZArith List.', 'Import ListNotations.', 'Open Scope Z_scope.', '']
    for ty, rows in templates.items():
        for row in rows:
            for f in row:
                if any(c not in (0, 1) for c in f):
                    raise TranslateError(f'template {ty}: offset {f} is not a unit-cell corner')
        body = ';\n   '.join('[' + '; '.join(f'({f[0]}, {f[1]}, {f[2]})' for f in row) + ']' for row in rows)
        out.append(f'(* generate_element, {ty} *)')
        out.append(f'Definition template_{ty} : list (list (Z * Z * Z)) :=\n  [{body}].')
    return '\n'.join(out) + '\n'


if __name__ == '__main__':
    import sys
    t, c = translate(sys.argv[1] if len(sys.argv) > 1 else '/repo')
    sys.stdout.write(emit(t))
