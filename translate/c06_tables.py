"""Fail-closed translator for C06: the tables and index lists of femio's VTK
(meshio) export  ->  coq/C06/gen/VtkTables.v

  config.DICT_FEMIO_ELEMENT_TO_MESHIO_ELEMENT        literal dict  str -> str
  config.DICT_MESHIO_ELEMENT_TO_FEMIO_ELEMENT        must be the inverse comprehension
  FEMElementalAttribute.ELEMENT_TYPES                literal list (order of the cell blocks)
  FEMElementalAttribute.keys/values/items            must iterate ELEMENT_TYPES filtered by membership
  FEMElementalAttribute._to_meshio                   which element types get a node permutation
  FEMElementalAttribute._to_meshio_tet2 / _from_meshio_tet2
        np.concatenate([data[:, a:b] | data[:, [k]] ...], axis=1)  ->  column index list (width 10)
  FEMElementalAttribute._from_meshio                 which meshio cell types are permuted on import
  FEMAttributes.to_meshio (nodal branch)             the rank bound of exported variables

Anything else raises TranslateError.
"""
import ast
import hashlib
from pathlib import Path


class TranslateError(Exception):
    pass


TET2_WIDTH = 10       # number of nodes of a second-order tetrahedron


def coq_str(s):
    if not all(32 <= ord(c) < 127 for c in s):
        raise TranslateError('non-ascii string ' + repr(s))
    return '"' + s.replace('"', '""') + '"'


def _module_assign(tree, name):
    hits = [n for n in tree.body if isinstance(n, ast.Assign) and len(n.targets) == 1 and
            isinstance(n.targets[0], ast.Name) and n.targets[0].id == name]
    if len(hits) != 1:
        raise TranslateError(f'{name}: expected exactly one module-level assignment, found {len(hits)}')
    for n in ast.walk(tree):     # no later mutation of the table
        if isinstance(n, (ast.Subscript, ast.Attribute)) and isinstance(getattr(n, 'value', None), ast.Name) \
                and n.value.id == name and isinstance(getattr(n, 'ctx', None), (ast.Store, ast.Del)):
            raise TranslateError(f'{name} is modified after its definition')
        if isinstance(n, ast.Call) and isinstance(n.func, ast.Attribute) and \
                isinstance(n.func.value, ast.Name) and n.func.value.id == name and \
                n.func.attr in ('update', 'pop', 'clear', 'setdefault', 'popitem', '__setitem__'):
            raise TranslateError(f'{name} is modified after its definition')
    return hits[0]


def _str_dict(node, what):
    if not isinstance(node, ast.Dict):
        raise TranslateError(f'{what} is not a literal dict')
    out = []
    for k, v in zip(node.keys, node.values):
        if not (isinstance(k, ast.Constant) and isinstance(k.value, str) and
                isinstance(v, ast.Constant) and isinstance(v.value, str)):
            raise TranslateError(f'{what}: entry is not a pair of string literals')
        out.append((k.value, v.value))
    # Python dict semantics: a repeated key keeps the LAST value at the FIRST position
    d = {}
    for k, v in out:
        d[k] = v
    return list(d.items())


def _class(tree, name):
    cl = [n for n in tree.body if isinstance(n, ast.ClassDef) and n.name == name]
    if len(cl) != 1:
        raise TranslateError(f'class {name} not found')
    return cl[0]


def _method(cls, name):
    ms = [n for n in cls.body if isinstance(n, ast.FunctionDef) and n.name == name]
    if len(ms) != 1:
        raise TranslateError(f'{cls.name}.{name}: expected one definition, found {len(ms)}')
    return ms[0]


def _body(fn):
    b = list(fn.body)
    if b and isinstance(b[0], ast.Expr) and isinstance(b[0].value, ast.Constant) and \
            isinstance(b[0].value.value, str):
        b = b[1:]
    return b


def _same(node, src):
    return ast.dump(node) == ast.dump(ast.parse(src).body[0])


def _concat_columns(fn, width):
    """return np.concatenate([data[:, a:b] | data[:, [k, ...]] ...], axis=1) -> index list"""
    b = _body(fn)
    if len(b) != 1 or not isinstance(b[0], ast.Return):
        raise TranslateError(f'{fn.name}: body is not a single return')
    c = b[0].value
    if not (isinstance(c, ast.Call) and ast.dump(c.func) == ast.dump(ast.parse('np.concatenate').body[0].value)
            and len(c.args) == 1 and isinstance(c.args[0], ast.List) and
            [(k.arg, getattr(k.value, 'value', None)) for k in c.keywords] == [('axis', 1)]):
        raise TranslateError(f'{fn.name}: not np.concatenate([...], axis=1)')
    pname = fn.args.args[-1].arg
    cols = []
    for e in c.args[0].elts:
        if not (isinstance(e, ast.Subscript) and isinstance(e.value, ast.Name) and e.value.id == pname
                and isinstance(e.slice, ast.Tuple) and len(e.slice.elts) == 2):
            raise TranslateError(f'{fn.name}: piece is not {pname}[:, ...]')
        r, s = e.slice.elts
        if not (isinstance(r, ast.Slice) and r.lower is None and r.upper is None and r.step is None):
            raise TranslateError(f'{fn.name}: row index is not `:`')
        if isinstance(s, ast.Slice):
            if s.step is not None:
                raise TranslateError(f'{fn.name}: slice step')
            lo = 0 if s.lower is None else _nat(s.lower, fn.name)
            hi = width if s.upper is None else _nat(s.upper, fn.name)
            cols += list(range(lo, min(hi, width)))
        elif isinstance(s, ast.List):
            cols += [_nat(x, fn.name) for x in s.elts]
        else:
            raise TranslateError(f'{fn.name}: column index form')
    return cols


def _nat(node, what):
    if isinstance(node, ast.Constant) and isinstance(node.value, int) and \
            not isinstance(node.value, bool) and node.value >= 0:
        return node.value
    raise TranslateError(f'{what}: non-negative integer literal expected')


def _special_types(fn, helper, arg_src):
    """if cell_type == 'X': return self.<helper>(<arg>) else: return <arg>   ->  ['X']"""
    b = _body(fn)
    if len(b) == 1 and isinstance(b[0], ast.If):
        i = b[0]
        t = i.test
        if isinstance(t, ast.Compare) and isinstance(t.left, ast.Name) and t.left.id == 'cell_type' and \
                len(t.ops) == 1 and isinstance(t.ops[0], ast.Eq) and \
                isinstance(t.comparators[0], ast.Constant) and isinstance(t.comparators[0].value, str):
            return [t.comparators[0].value], i
    raise TranslateError(f'{fn.name}: not of the form `if cell_type == "...": ... else: ...`')


def translate(repo):
    repo = Path(repo)
    src_c = (repo / 'femio' / 'config.py').read_text()
    src_e = (repo / 'femio' / 'fem_elemental_attribute.py').read_text()
    src_a = (repo / 'femio' / 'fem_attributes.py').read_text()
    tc, te, ta = ast.parse(src_c), ast.parse(src_e), ast.parse(src_a)
    consumed = {}
    out = {}
    # --- type table and its inverse
    a = _module_assign(tc, 'DICT_FEMIO_ELEMENT_TO_MESHIO_ELEMENT')
    out['table'] = _str_dict(a.value, 'DICT_FEMIO_ELEMENT_TO_MESHIO_ELEMENT')
    consumed['config.py:DICT_FEMIO_ELEMENT_TO_MESHIO_ELEMENT'] = hashlib.sha256(
        ast.get_source_segment(src_c, a).encode()).hexdigest()
    inv = _module_assign(tc, 'DICT_MESHIO_ELEMENT_TO_FEMIO_ELEMENT')
    if not _same(inv, 'DICT_MESHIO_ELEMENT_TO_FEMIO_ELEMENT = {\n'
                      '    v: k for k, v in DICT_FEMIO_ELEMENT_TO_MESHIO_ELEMENT.items()}'):
        raise TranslateError('DICT_MESHIO_ELEMENT_TO_FEMIO_ELEMENT is not the inverse comprehension')
    # --- block order
    cls = _class(te, 'FEMElementalAttribute')
    et = [n for n in cls.body if isinstance(n, ast.Assign) and len(n.targets) == 1 and
          isinstance(n.targets[0], ast.Name) and n.targets[0].id == 'ELEMENT_TYPES']
    if len(et) != 1 or not isinstance(et[0].value, ast.List) or not all(
            isinstance(e, ast.Constant) and isinstance(e.value, str) for e in et[0].value.elts):
        raise TranslateError('FEMElementalAttribute.ELEMENT_TYPES is not one literal list of strings')
    out['element_types'] = [e.value for e in et[0].value.elts]
    consumed['fem_elemental_attribute.py:ELEMENT_TYPES'] = hashlib.sha256(
        ast.get_source_segment(src_e, et[0]).encode()).hexdigest()
    for nm, src in (('keys', 'return [t for t in self.ELEMENT_TYPES if t in self]'),
                    ('values', 'return [self[t] for t in self.ELEMENT_TYPES if t in self]'),
                    ('items', 'return [(t, self[t]) for t in self.ELEMENT_TYPES if t in self]')):
        b = _body(_method(cls, nm))
        if len(b) != 1 or not _same(b[0], src):
            raise TranslateError(f'FEMElementalAttribute.{nm} does not iterate ELEMENT_TYPES by membership')
    # --- node permutations on export / import
    f_to = _method(cls, '_to_meshio')
    sp, i = _special_types(f_to, '_to_meshio_tet2', 'element.data')
    if not (len(i.body) == 1 and _same(i.body[0], 'return self._to_meshio_tet2(element.data)') and
            len(i.orelse) == 1 and _same(i.orelse[0], 'return element.data')):
        raise TranslateError('_to_meshio: branches are not _to_meshio_tet2(element.data) / element.data')
    out['export_permuted_types'] = sp
    f_from = _method(cls, '_from_meshio')
    bf = _body(f_from)
    if not (len(bf) == 2 and isinstance(bf[0], ast.If)):
        raise TranslateError('_from_meshio: unexpected shape')
    sp2, i2 = _special_types(ast.FunctionDef(name='_from_meshio', args=f_from.args, body=[bf[0]],
                                             decorator_list=[], lineno=0), '', '')
    if not (len(i2.body) == 1 and _same(i2.body[0], 'cell = cls._from_meshio_tet2(data)') and
            len(i2.orelse) == 1 and _same(i2.orelse[0], 'cell = data')):
        raise TranslateError('_from_meshio: branches are not _from_meshio_tet2(data) / data')
    out['import_permuted_types'] = sp2
    out['tet2_to_meshio'] = _concat_columns(_method(cls, '_to_meshio_tet2'), TET2_WIDTH)
    out['tet2_from_meshio'] = _concat_columns(_method(cls, '_from_meshio_tet2'), TET2_WIDTH)
    for nm in ('_to_meshio', '_to_meshio_tet2', '_from_meshio', '_from_meshio_tet2', 'to_meshio',
               '_to_indices'):
        consumed['fem_elemental_attribute.py:' + nm] = hashlib.sha256(
            ast.get_source_segment(src_e, _method(cls, nm)).encode()).hexdigest()
    # to_meshio / _to_indices: structural check (the hand model mirrors exactly this text)
    b = _body(_method(cls, '_to_indices'))
    if len(b) != 1 or not _same(b[0], 'return {\n element_type: nodes.ids2indices(element_data.data)\n'
                                      ' for element_type, element_data in self.items()}'):
        raise TranslateError('_to_indices is not {type: nodes.ids2indices(data) for ... in self.items()}')
    b = _body(_method(cls, 'to_meshio'))
    want = ("tmp_elements = FEMElementalAttribute('ELEMENT', {\n k: FEMAttribute(k, v.ids, self._to_meshio(k, v))\n"
            " for k, v in self.items()})",
            "return {\n config.DICT_FEMIO_ELEMENT_TO_MESHIO_ELEMENT[k]: v\n for k, v in"
            " tmp_elements._to_indices(nodes).items()}")
    if len(b) != 2 or not _same(b[0], want[0]) or not _same(b[1], want[1]):
        raise TranslateError('FEMElementalAttribute.to_meshio has an unexpected shape')
    # --- nodal variables -> point data: rank bound, and positional or by node id
    cla = _class(ta, 'FEMAttributes')
    tm = _method(cla, 'to_meshio')
    bt = _body(tm)
    src_d = (repo / 'femio' / 'fem_data.py').read_text()
    fdm = _method(_class(ast.parse(src_d), 'FEMData'), 'to_meshio')
    call_pos = 'point_data = self.nodal_data.to_meshio()'
    call_ids = 'point_data = self.nodal_data.to_meshio(self.nodes.ids)'
    calls = [st for st in _body(fdm) if isinstance(st, ast.Assign) and
             isinstance(st.targets[0], ast.Name) and st.targets[0].id == 'point_data']
    others = ["cell_info = self.elements.to_meshio(self.nodes)",
              "cell_data = self.elemental_data.to_meshio()",
              "meshio_mesh = meshio.Mesh(\n self.nodes.data, cell_info,\n"
              " point_data=point_data, cell_data=cell_data)",
              "return meshio_mesh"]
    rest = [st for st in _body(fdm) if st not in calls]
    if len(calls) != 1 or len(rest) != len(others) or \
            not all(_same(a, b) for a, b in zip(rest, others)):
        raise TranslateError('FEMData.to_meshio has an unexpected shape')
    nodal_pos = ('return {\n attribute_name: attribute_data.data\n'
                 ' for attribute_name, attribute_data in self.items()\n'
                 ' if len(attribute_data.data.shape) < 3}')
    nodal_ids = ('return {\n attribute_name:\n attribute_data.data if ids is None\n'
                 ' else attribute_data.loc[ids].data\n'
                 ' for attribute_name, attribute_data in self.items()\n'
                 ' if len(attribute_data.data.shape) < 3}')
    # by id, through the CURRENT values (attribute.data) instead of the pandas frame
    nodal_cur = ('return {\n attribute_name:\n attribute_data.data if ids is None\n'
                 ' else attribute_data.values_of(ids)\n'
                 ' for attribute_name, attribute_data in self.items()\n'
                 ' if len(attribute_data.data.shape) < 3}')
    values_of = ('def values_of(self, ids):\n'
                 '    indices = self._data_frame.index.get_indexer(ids)\n'
                 '    if np.any(indices < 0):\n'
                 '        raise KeyError(f"{self.name} has no row for some of the IDs")\n'
                 '    return self.data[indices]')
    if not (len(bt) == 1 and isinstance(bt[0], ast.If) and len(bt[0].orelse) == 1 and
            ast.dump(bt[0].test) == ast.dump(ast.parse('self.is_elemental').body[0].value)):
        raise TranslateError('FEMAttributes.to_meshio has an unexpected shape')
    params = [a.arg for a in tm.args.args]
    out['point_data_current_values'] = True
    if _same(calls[0], call_ids) and _same(bt[0].orelse[0], nodal_cur) and params == ['self', 'ids']:
        src_fa = (repo / 'femio' / 'fem_attribute.py').read_text()
        vo = _method(_class(ast.parse(src_fa), 'FEMAttribute'), 'values_of')
        vo.body = _body(vo)
        if ast.dump(vo) != ast.dump(ast.parse(values_of).body[0]):
            raise TranslateError('FEMAttribute.values_of is not the id -> position lookup into self.data')
        out['point_data_by_id'] = True
        out['point_data_rank_bound'] = 3
        for nm_, src_, node_ in (('fem_attributes.py:to_meshio', src_a, tm),
                                 ('fem_data.py:to_meshio', src_d, fdm)):
            consumed[nm_] = hashlib.sha256(ast.get_source_segment(src_, node_).encode()).hexdigest()
        return out, consumed
    if _same(calls[0], call_pos) and _same(bt[0].orelse[0], nodal_pos) and params == ['self']:
        out['point_data_by_id'] = False
    elif _same(calls[0], call_pos) and _same(bt[0].orelse[0], nodal_ids) and params == ['self', 'ids'] \
            and len(tm.args.defaults) == 1 and isinstance(tm.args.defaults[0], ast.Constant) \
            and tm.args.defaults[0].value is None:
        out['point_data_by_id'] = False      # new parameter, not used by the export
    elif _same(calls[0], call_ids) and _same(bt[0].orelse[0], nodal_ids) and params == ['self', 'ids']:
        out['point_data_by_id'] = True
        # attribute.loc[ids] reads the pandas frame, which in-place edits of attribute.data
        # (attr.data[...] = v) do not refresh: the export depends on the history
        out['point_data_current_values'] = False
    else:
        raise TranslateError('nodal point-data export is neither the positional nor the by-id form')
    out['point_data_rank_bound'] = 3
    consumed['fem_attributes.py:to_meshio'] = hashlib.sha256(
        ast.get_source_segment(src_a, tm).encode()).hexdigest()
    consumed['fem_data.py:to_meshio'] = hashlib.sha256(
        ast.get_source_segment(src_d, fdm).encode()).hexdigest()
    return out, consumed


def emit(t):
    sl = lambda xs: '[' + '; '.join(coq_str(x) for x in xs) + ']'          # noqa
    nl = lambda xs: '[' + '; '.join(str(x) for x in xs) + ']'              # noqa
    L = ['(* GENERATED by translate/c06_tables.py from femio/config.py,',
         '   femio/fem_elemental_attribute.py, femio/fem_attributes.py -- do not edit. *)',
         'From Coq Require Import String List.', 'Import ListNotations.', 'Open Scope string_scope.', '',
         '(* config.DICT_FEMIO_ELEMENT_TO_MESHIO_ELEMENT, in dict order *)',
         'Definition femio_to_meshio : list (string * string) :=',
         '  [' + ';\n   '.join(f'({coq_str(k)}, {coq_str(v)})' for k, v in t['table']) + '].', '',
         '(* FEMElementalAttribute.ELEMENT_TYPES: the order in which items() yields the blocks *)',
         f'Definition element_types : list string :=\n  {sl(t["element_types"])}.', '',
         '(* element types whose nodes are re-ordered on export / meshio cell types on import *)',
         f'Definition export_permuted_types : list string := {sl(t["export_permuted_types"])}.',
         f'Definition import_permuted_types : list string := {sl(t["import_permuted_types"])}.', '',
         '(* _to_meshio_tet2 / _from_meshio_tet2: result[k] = data[list[k]] *)',
         f'Definition tet2_to_meshio : list nat := {nl(t["tet2_to_meshio"])}.',
         f'Definition tet2_from_meshio : list nat := {nl(t["tet2_from_meshio"])}.', '',
         '(* FEMAttributes.to_meshio exports the variables with len(shape) < this *)',
         f'Definition point_data_rank_bound : nat := {t["point_data_rank_bound"]}.',
         '(* FEMData.to_meshio hands the node ids to it (values looked up by id) or not (positional) *)',
         f'Definition point_data_by_id : bool := {str(t["point_data_by_id"]).lower()}.',
         '(* the exported rows are the CURRENT values (attribute.data); false = read through the pandas',
         '   frame (.loc), which an in-place edit `attribute.data[...] = v` leaves stale *)',
         f'Definition point_data_current_values : bool := {str(t["point_data_current_values"]).lower()}.']
    return '\n'.join(L) + '\n'


if __name__ == '__main__':
    import sys
    t, c = translate(sys.argv[1] if len(sys.argv) > 1 else '/repo')
    sys.stdout.write(emit(t))
