"""Translator for C06: the tables, index lists and decisions of femio's VTK
(meshio) export  ->  coq/C06/gen/VtkTables.v

The export is read REGION BY REGION, by meaning rather than by spelling (a tiny
symbolic evaluator over the `ast`: private helpers of the same class / module are
inlined, module- and class-level constants are evaluated with literal_eval,
guard-clause / early-return / if-else / conditional-expression forms of the same
decision give the same decision tree, a dict comprehension and a loop that fills a
dict give the same entries, locals may be renamed, internal calls may use keywords):

  table        config.DICT_FEMIO_ELEMENT_TO_MESHIO_ELEMENT     (evaluated literal)
  inverse      config.DICT_MESHIO_ELEMENT_TO_FEMIO_ELEMENT     pin: the inverse comprehension
  types        FEMElementalAttribute.ELEMENT_TYPES              (evaluated literal)
  iteration    FEMElementalAttribute.keys/values/items          pin: ELEMENT_TYPES by membership
  export_perm  FEMElementalAttribute._to_meshio (+ helpers)     type -> column list (symbolic, width 10)
  import_perm  FEMElementalAttribute._from_meshio (+ helpers)   meshio type -> column list
  cells        FEMElementalAttribute.to_meshio / _to_indices    pin (alpha-renamed)
  point_data   FEMAttributes.to_meshio (+ helpers), FEMAttribute.values_of
                   rank bound, key, value: positional / by id through .loc / by id current values
  fem_data     FEMData.to_meshio                                what is handed to meshio.Mesh

A region the translator cannot read is NOT a violation by itself: `translate`
returns it in `unread` (region -> reason); the value of that region is taken from the
committed baseline (coq/C06/gen_baseline/tables.json = what was translated from the
registered tree), the theorems are built against it and the harness runs a WIDENED
correspondence for what the region decides (tie T degrades to H).  A region that IS
read and differs from the baseline changes gen/VtkTables.v and the theorems are
re-checked against it as before.
"""
import ast
import copy
import hashlib
import json
from pathlib import Path


class TranslateError(Exception):
    pass


TET2_WIDTH = 10       # number of nodes of a second-order tetrahedron
BASELINE = Path(__file__).resolve().parent.parent / 'coq' / 'C06' / 'gen_baseline' / 'tables.json'
REGIONS = ('table', 'inverse', 'types', 'iteration', 'export_perm', 'import_perm', 'cells',
           'point_data', 'fem_data')
# which generated values each region decides
REGION_KEYS = {
    'table': ['table'], 'inverse': [], 'types': ['element_types'], 'iteration': [],
    'export_perm': ['export_permuted_types', 'tet2_to_meshio'],
    'import_perm': ['import_permuted_types', 'tet2_from_meshio'],
    'cells': [], 'point_data': ['point_data_rank_bound', 'pd_value'], 'fem_data': ['pd_ids_passed'],
}


def coq_str(s):
    if not all(32 <= ord(c) < 127 for c in s):
        raise TranslateError('non-ascii string ' + repr(s))
    return '"' + s.replace('"', '""') + '"'


def _sha(src, node):
    return hashlib.sha256(ast.get_source_segment(src, node).encode()).hexdigest()


# ------------------------------------------------------------------ ast helpers
def _assign_of(body, name):
    return [n for n in body if isinstance(n, ast.Assign) and len(n.targets) == 1 and
            isinstance(n.targets[0], ast.Name) and n.targets[0].id == name]


def _not_mutated(tree, name):
    for n in ast.walk(tree):
        if isinstance(n, (ast.Subscript, ast.Attribute)) and isinstance(getattr(n, 'value', None), ast.Name) \
                and n.value.id == name and isinstance(getattr(n, 'ctx', None), (ast.Store, ast.Del)):
            raise TranslateError(f'{name} is modified after its definition')
        if isinstance(n, ast.Call) and isinstance(n.func, ast.Attribute) and \
                isinstance(n.func.value, ast.Name) and n.func.value.id == name and \
                n.func.attr in ('update', 'pop', 'clear', 'setdefault', 'popitem', '__setitem__',
                                'append', 'extend', 'insert', 'remove', 'sort', 'reverse'):
            raise TranslateError(f'{name} is modified after its definition')
        if isinstance(n, ast.AugAssign) and isinstance(n.target, ast.Name) and n.target.id == name:
            raise TranslateError(f'{name} is modified after its definition')


def _module_assign(tree, name):
    hits = _assign_of(tree.body, name)
    if len(hits) != 1:
        raise TranslateError(f'{name}: expected exactly one module-level assignment, found {len(hits)}')
    _not_mutated(tree, name)
    return hits[0]


def _literal(node, what):
    """value of a constant expression (literal_eval; dict(...) / tuple(...) / list(...) of one)"""
    if isinstance(node, ast.Call) and isinstance(node.func, ast.Name) and \
            node.func.id in ('dict', 'tuple', 'list') and len(node.args) == 1 and not node.keywords:
        v = _literal(node.args[0], what)
        return {'dict': dict, 'tuple': tuple, 'list': list}[node.func.id](v)
    try:
        return ast.literal_eval(node)
    except (ValueError, TypeError, SyntaxError, MemoryError, RecursionError):
        raise TranslateError(f'{what} is not a literal')


def _class(tree, name):
    cl = [n for n in tree.body if isinstance(n, ast.ClassDef) and n.name == name]
    if len(cl) != 1:
        raise TranslateError(f'class {name} not found')
    return cl[0]


def _method(cls, name):
    ms = [n for n in cls.body if isinstance(n, ast.FunctionDef) and n.name == name]
    if len(ms) != 1:
        raise TranslateError(f'{cls.name}.{name}: expected one definition, found {len(ms)}')
    return ms[0]


def _body(fn):
    b = list(fn.body)
    if b and isinstance(b[0], ast.Expr) and isinstance(b[0].value, ast.Constant) and \
            isinstance(b[0].value.value, str):
        b = b[1:]
    return b


class _Alpha(ast.NodeTransformer):
    """rename every locally bound name (parameters, assignment / loop / comprehension targets)
    to v0, v1, ... in order of first binding: spelling of locals does not matter"""

    def __init__(self):
        self.map = {}

    def _bind(self, name):
        if name not in self.map:
            self.map[name] = 'v%d' % len(self.map)

    def visit_Name(self, n):
        return ast.copy_location(ast.Name(id=self.map.get(n.id, n.id), ctx=n.ctx), n)

    def visit_arg(self, n):
        return ast.copy_location(ast.arg(arg=self.map.get(n.arg, n.arg), annotation=None), n)


def _canon(node):
    node = copy.deepcopy(node)
    if isinstance(node, ast.FunctionDef):
        node.body = _body(node)
        node.decorator_list = []
        node.returns = None
    a = _Alpha()
    # bind in source order (parameters first, then stores in the order they are written)
    for n in ast.walk(node):
        if isinstance(n, ast.arg):
            a._bind(n.arg)
    stores = [n for n in ast.walk(node) if isinstance(n, ast.Name) and isinstance(n.ctx, ast.Store)]
    for n in sorted(stores, key=lambda n: (n.lineno, n.col_offset)):
        a._bind(n.id)
    return ast.dump(a.visit(node))


def _same(node, src):
    """equal up to the names of locals / parameters, docstrings and layout"""
    return _canon(node) == _canon(ast.parse(src).body[0])


# --------------------------------------------------------- symbolic evaluation
# values:  ('cols', [k...])  a 2-D array whose columns are columns k of the input row block
#          ('ident',)        the input array itself (any width)
#          ('const', v)      a Python constant
#          ('expr', dump)    an attribute / call chain kept symbolically (canonical text)
#          ('fa', v)         FEMAttribute(..., data=v)         ('shift', v, n)   v + n
class _Eval:
    def __init__(self, module, cls, width):
        self.module, self.cls, self.width = module, cls, width
        self.depth = 0

    # ---- constants
    def const_of_name(self, name):
        hits = _assign_of(self.module.body, name)
        if len(hits) == 1:
            _not_mutated(self.module, name)
            return _literal(hits[0].value, name)
        raise TranslateError(f'name {name} is not a module-level constant')

    def class_const(self, name):
        hits = _assign_of(self.cls.body, name) if self.cls is not None else []
        if len(hits) == 1:
            return _literal(hits[0].value, name)
        raise TranslateError(f'{name} is not a class-level constant')

    def const(self, node, env):
        if isinstance(node, ast.Name):
            if node.id in env:
                v = env[node.id]
                if v[0] == 'const':
                    return v[1]
                raise TranslateError(f'{node.id} is not a constant here')
            return self.const_of_name(node.id)
        if isinstance(node, ast.Attribute) and isinstance(node.value, ast.Name) and \
                node.value.id in ('self', 'cls', getattr(self.cls, 'name', '')):
            return self.class_const(node.attr)
        if isinstance(node, (ast.List, ast.Tuple)):
            return [self.const(e, env) for e in node.elts]
        if isinstance(node, ast.UnaryOp) and isinstance(node.op, ast.USub):
            return -self.const(node.operand, env)
        if isinstance(node, ast.BinOp) and isinstance(node.op, (ast.Add, ast.Sub)):
            a, b = self.const(node.left, env), self.const(node.right, env)
            if isinstance(a, int) and isinstance(b, int):
                return a + b if isinstance(node.op, ast.Add) else a - b
        return _literal(node, 'constant')

    # ---- expressions
    def cols_of(self, v):
        if v[0] == 'ident':
            return list(range(self.width))
        if v[0] == 'cols':
            return v[1]
        raise TranslateError('array expression expected')

    def index(self, base, sl, env):
        """base[:, sl] / base[..., sl]"""
        cols = self.cols_of(base)
        n = len(cols)
        if isinstance(sl, ast.Slice):
            if sl.step is not None:
                raise TranslateError('slice step')
            lo = 0 if sl.lower is None else self.const(sl.lower, env)
            hi = n if sl.upper is None else self.const(sl.upper, env)
            if not (isinstance(lo, int) and isinstance(hi, int)) or isinstance(lo, bool):
                raise TranslateError('slice bound is not an integer constant')
            return ('cols', cols[slice(lo, hi)])
        idx = self.const(sl, env)
        if isinstance(idx, (list, tuple)) and all(isinstance(k, int) and not isinstance(k, bool) for k in idx):
            out = []
            for k in idx:
                if not -n <= k < n:
                    raise TranslateError(f'column {k} out of range for width {n}')
                out.append(cols[k])
            return ('cols', out)
        raise TranslateError('column index is neither a slice nor a list of integer constants')

    def expr(self, node, env):
        if isinstance(node, ast.Name):
            if node.id in env:
                return env[node.id]
            return ('const', self.const_of_name(node.id))
        if isinstance(node, ast.Constant):
            return ('const', node.value)
        if isinstance(node, (ast.List, ast.Tuple)):
            try:
                return ('const', self.const(node, env))
            except TranslateError:
                pass
        if isinstance(node, ast.Attribute):
            base = None
            if isinstance(node.value, ast.Name) and node.value.id in env:
                base = env[node.value.id]
            if base is not None and base[0] == 'elem' and node.attr == 'data':
                return ('ident',)
            if isinstance(node.value, ast.Name) and node.value.id in ('self', 'cls') and \
                    self.cls is not None and _assign_of(self.cls.body, node.attr):
                return ('const', self.class_const(node.attr))
            return ('expr', self.sym(node, env))
        if isinstance(node, ast.Subscript):
            base = self.expr(node.value, env)
            if base[0] in ('ident', 'cols'):
                s = node.slice
                if isinstance(s, ast.Tuple) and len(s.elts) == 2:
                    r, c = s.elts
                    row_all = (isinstance(r, ast.Slice) and r.lower is None and r.upper is None
                               and r.step is None) or \
                              (isinstance(r, ast.Constant) and r.value is Ellipsis)
                    if row_all:
                        return self.index(base, c, env)
                raise TranslateError('array index is not [:, columns]')
            return ('expr', self.sym(node, env))
        if isinstance(node, ast.BinOp) and isinstance(node.op, ast.Add):
            a, b = self.expr(node.left, env), self.expr(node.right, env)
            if b[0] == 'const' and isinstance(b[1], int):
                return ('shift', a, b[1])
            if a[0] == 'const' and isinstance(a[1], int):
                return ('shift', b, a[1])
            return ('expr', self.sym(node, env))
        if isinstance(node, ast.Call):
            return self.call(node, env)
        if isinstance(node, ast.IfExp):
            raise _Branch(node)
        return ('expr', self.sym(node, env))

    def sym(self, node, env):
        """canonical text of an expression with the known locals substituted"""
        class Sub(ast.NodeTransformer):
            def visit_Name(s, n):
                v = env.get(n.id)
                if v is not None and v[0] == 'expr':
                    return ast.parse(v[1], mode='eval').body
                if v is not None and v[0] == 'sym':
                    return ast.Name(id=v[1], ctx=ast.Load())
                if v is not None and v[0] == 'const':
                    return ast.Constant(value=v[1]) if not isinstance(v[1], (list, tuple, dict)) \
                        else ast.parse(repr(v[1]), mode='eval').body
                return n
        return ast.unparse(Sub().visit(copy.deepcopy(node)))

    def call(self, node, env):
        f = node.func
        fname = ast.unparse(f)
        if fname in ('np.concatenate', 'numpy.concatenate', 'np.hstack', 'numpy.hstack',
                     'np.column_stack', 'numpy.column_stack'):
            kw = {k.arg: k.value for k in node.keywords}
            if fname.endswith('concatenate'):
                ax = kw.pop('axis', node.args[1] if len(node.args) == 2 else None)
                if ax is None or self.const(ax, env) not in (1, -1):
                    raise TranslateError('np.concatenate: axis is not 1 / -1')
                if len(node.args) not in (1, 2):
                    raise TranslateError('np.concatenate: arguments')
            elif len(node.args) != 1:
                raise TranslateError(fname + ': arguments')
            if kw or not isinstance(node.args[0], (ast.List, ast.Tuple)):
                raise TranslateError(fname + ': pieces are not a literal list')
            out = []
            for e in node.args[0].elts:
                out += self.cols_of(self.expr(e, env))
            return ('cols', out)
        if fname in ('FEMAttribute', 'fem_attribute.FEMAttribute'):
            kw = {k.arg: k.value for k in node.keywords}
            d = kw.get('data', node.args[2] if len(node.args) > 2 else None)
            if d is None:
                raise TranslateError('FEMAttribute(...) without data')
            return ('fa', self.expr(d, env))
        # a private helper of the same class / module: inline it
        target = None
        if isinstance(f, ast.Attribute) and isinstance(f.value, ast.Name) and self.cls is not None and \
                f.value.id in ('self', 'cls', self.cls.name):
            ms = [n for n in self.cls.body if isinstance(n, ast.FunctionDef) and n.name == f.attr]
            if len(ms) == 1:
                target, bound = ms[0], True
                deco = [ast.unparse(d) for d in ms[0].decorator_list]
                if 'staticmethod' in deco:
                    bound = False
        elif isinstance(f, ast.Name):
            ms = [n for n in self.module.body if isinstance(n, ast.FunctionDef) and n.name == f.id]
            if len(ms) == 1:
                target, bound = ms[0], False
        if target is None:
            return ('expr', self.sym(node, env))
        return self.inline(target, bound, node, env)

    def inline(self, fn, bound, call, env):
        self.depth += 1
        if self.depth > 6:
            raise TranslateError('helper calls nested too deeply')
        params = [a.arg for a in fn.args.args]
        if fn.args.vararg or fn.args.kwarg or fn.args.posonlyargs:
            raise TranslateError(f'{fn.name}: unsupported parameters')
        new = {}
        if bound:
            new[params[0]] = env.get('self', ('sym', 'self'))
            params = params[1:]
        defaults = dict(zip(params[len(params) - len(fn.args.defaults):], fn.args.defaults))
        kwonly = [a.arg for a in fn.args.kwonlyargs]
        for a, d in zip(fn.args.kwonlyargs, fn.args.kw_defaults):
            if d is not None:
                defaults[a.arg] = d
        if len(call.args) > len(params):
            raise TranslateError(f'{fn.name}: too many arguments')
        for p, a in zip(params, call.args):
            new[p] = self.expr(a, env)
        for k in call.keywords:
            if k.arg is None or k.arg not in params + kwonly or k.arg in new:
                raise TranslateError(f'{fn.name}: keyword argument')
            new[k.arg] = self.expr(k.value, env)
        for p in params + kwonly:
            if p not in new:
                if p not in defaults:
                    raise TranslateError(f'{fn.name}: missing argument {p}')
                new[p] = self.expr(defaults[p], {})
        trees = self.run(_body(fn), new)
        self.depth -= 1
        if trees[0] != 'leaf':
            raise _Tree(trees, call)
        return trees[1]

    # ---- conditions: atoms with a truth value decided by the caller's assignment
    def cond(self, node, env):
        """-> (atom, positive) ; atom is a hashable canonical description"""
        if isinstance(node, ast.UnaryOp) and isinstance(node.op, ast.Not):
            a, pos = self.cond(node.operand, env)
            return a, not pos
        if isinstance(node, ast.Compare) and len(node.ops) == 1:
            op, l, r = node.ops[0], node.left, node.comparators[0]
            lv = self.expr(l, env)
            # a string-valued parameter compared with constants
            if lv[0] == 'sym' and isinstance(op, (ast.Eq, ast.NotEq, ast.In, ast.NotIn)):
                c = self.const(r, env)
                vals = frozenset([c] if isinstance(op, (ast.Eq, ast.NotEq)) else c)
                if not all(isinstance(x, str) for x in vals):
                    raise TranslateError('comparison with a non-string constant')
                return ('is_in', lv[1], vals), isinstance(op, (ast.Eq, ast.In))
            if isinstance(op, (ast.Is, ast.IsNot)) and isinstance(r, ast.Constant) and r.value is None:
                if lv == ('const', None):
                    return ('true',), isinstance(op, ast.Is)
                return ('is_none', lv[1] if lv[0] in ('sym', 'expr') else repr(lv)), isinstance(op, ast.Is)
            # rank tests: len(X.shape) / X.ndim  against an integer constant
            rk = self.rank_of(l, env)
            if rk is not None and isinstance(op, (ast.Lt, ast.LtE, ast.Gt, ast.GtE)):
                c = self.const(r, env)
                if isinstance(c, int) and not isinstance(c, bool):
                    if isinstance(op, ast.Lt):
                        return ('rank_lt', rk, c), True
                    if isinstance(op, ast.LtE):
                        return ('rank_lt', rk, c + 1), True
                    if isinstance(op, ast.GtE):
                        return ('rank_lt', rk, c), False
                    return ('rank_lt', rk, c + 1), False
        v = self.expr(node, env)
        if v[0] == 'const':
            return ('true',), bool(v[1])
        if v[0] in ('expr', 'sym'):
            return ('truth', v[1]), True
        raise TranslateError('condition not understood: ' + ast.unparse(node))

    def rank_of(self, node, env):
        if isinstance(node, ast.Call) and isinstance(node.func, ast.Name) and node.func.id == 'len' and \
                len(node.args) == 1 and isinstance(node.args[0], ast.Attribute) and node.args[0].attr == 'shape':
            return self.sym(node.args[0].value, env)
        if isinstance(node, ast.Attribute) and node.attr == 'ndim':
            return self.sym(node.value, env)
        return None

    # ---- statements: path enumeration -> decision tree of returned values
    #      tree = ('leaf', value) | ('if', atom, tree_true, tree_false) | ('unread', reason)
    def run(self, stmts, env):
        env = dict(env)
        for i, st in enumerate(stmts):
            rest = stmts[i + 1:]
            try:
                if isinstance(st, ast.Expr) and isinstance(st.value, ast.Constant):
                    continue
                if isinstance(st, ast.Pass):
                    continue
                if isinstance(st, ast.Assign) and len(st.targets) == 1 and isinstance(st.targets[0], ast.Name):
                    env[st.targets[0].id] = self.expr(st.value, env)
                    continue
                if isinstance(st, ast.Return):
                    if st.value is None:
                        return ('leaf', ('const', None))
                    return ('leaf', self.expr(st.value, env))
                if isinstance(st, ast.If):
                    atom, pos = self.cond(st.test, env)
                    t = self._guarded(list(st.body) + rest, env)
                    f = self._guarded(list(st.orelse) + rest, env)
                    if atom == ('true',):
                        return t if pos else f
                    return ('if', atom, t, f) if pos else ('if', atom, f, t)
                if isinstance(st, ast.Raise):
                    return ('leaf', ('raise',))
                raise TranslateError('statement not understood: ' + type(st).__name__)
            except _Branch as b:
                # a conditional expression inside the statement: split the path on its test
                atom, pos = self.cond(b.node.test, env)
                t = self._guarded([_replace(st, b.node, b.node.body)] + rest, env)
                f = self._guarded([_replace(st, b.node, b.node.orelse)] + rest, env)
                if atom == ('true',):
                    return t if pos else f
                return ('if', atom, t, f) if pos else ('if', atom, f, t)
            except _Tree as tr:
                if isinstance(st, ast.Return) and tr.call is st.value:
                    return tr.tree          # return helper(...): the helper's decision tree
                raise TranslateError('a helper that branches is used inside an expression')
        return ('leaf', ('const', None))

    def _guarded(self, stmts, env):
        try:
            return self.run(stmts, env)
        except TranslateError as e:
            return ('unread', str(e))


class _Branch(Exception):
    def __init__(self, node):
        self.node = node


class _Tree(Exception):
    def __init__(self, tree, call):
        self.tree, self.call = tree, call


def _replace(stmt, old, new):
    """copy of stmt with the sub-expression `old` (by identity) replaced by `new`"""
    class R(ast.NodeTransformer):
        def generic_visit(s, n):
            if n is old:
                return new
            return super().generic_visit(n)

        def visit(s, n):
            if n is old:
                return new
            return super().visit(n)
    memo = {id(old): old, id(new): new}      # keep the identity of old / new through the copy
    return R().visit(copy.deepcopy(stmt, memo))


def _leaves(tree, want_atom_kind, path=()):
    """[(assignment of atoms along the path, leaf)]"""
    if tree[0] == 'if':
        if tree[1][0] not in want_atom_kind:
            raise TranslateError('decision on something else: ' + repr(tree[1]))
        return _leaves(tree[2], want_atom_kind, path + ((tree[1], True),)) + \
            _leaves(tree[3], want_atom_kind, path + ((tree[1], False),))
    return [(path, tree)]


# ----------------------------------------------------------------- the regions
def _perm_region(module, cls, fname, elem_param_kind, width):
    """the per-type node permutation of _to_meshio / _from_meshio:
    -> (sorted list of permuted type names, column list)"""
    fn = _method(cls, fname)
    ev = _Eval(module, cls, width)
    params = [a.arg for a in fn.args.args]
    if len(params) != 3:
        raise TranslateError(f'{fname}: expected (self|cls, cell_type, data)')
    env = {params[0]: ('sym', 'self'), params[1]: ('sym', 'cell_type')}
    env[params[2]] = ('elem',) if elem_param_kind == 'element' else ('ident',)
    tree = ev.run(_body(fn), env)
    permuted, cols, default_ident = set(), None, False
    for path, leaf in _leaves(tree, ('is_in',)):
        if leaf[0] != 'leaf':
            raise TranslateError(f'{fname}: ' + (leaf[1] if leaf[0] == 'unread' else 'no value'))
        v = leaf[1]
        if elem_param_kind == 'data':          # _from_meshio returns FEMAttribute(name, ids, cell + 1)
            if not (v[0] == 'fa' and v[1][0] == 'shift' and v[1][2] == 1):
                raise TranslateError(f'{fname}: result is not FEMAttribute(..., data=cell + 1)')
            v = v[1][1]
        # the set of type names that reach this leaf
        inc, exc = None, set()
        for (kind, who, vals), truth in path:
            if who != 'cell_type':
                raise TranslateError(f'{fname}: decision on {who}')
            if truth:
                inc = set(vals) if inc is None else inc & set(vals)
            else:
                exc |= set(vals)
        if inc is not None:
            names = inc - exc
            if not names:
                continue                    # unreachable leaf
            if v[0] == 'ident':
                continue
            if v[0] != 'cols':
                raise TranslateError(f'{fname}: value for {sorted(names)} is not a column selection')
            if cols is not None and cols != v[1]:
                raise TranslateError(f'{fname}: more than one node permutation')
            cols = v[1]
            permuted |= names
        else:                               # every other type
            if v[0] != 'ident':
                raise TranslateError(f'{fname}: the other types are not passed through unchanged')
            default_ident = True
    if not default_ident:
        raise TranslateError(f'{fname}: no pass-through branch')
    if cols is None:
        return [], list(range(width))
    return sorted(permuted), cols


def _point_data_region(mod_attrs, cls_attrs, mod_attr, src_attr):
    """FEMAttributes.to_meshio(ids) on a nodal table ->
    rank bound, and the value exported for a variable: 'positional' | 'by_id_loc' | 'by_id_current'
    for the call with ids and the call without"""
    fn = _method(cls_attrs, 'to_meshio')
    params = [a.arg for a in fn.args.args]
    if len(params) not in (1, 2) or fn.args.vararg or fn.args.kwarg or fn.args.kwonlyargs:
        raise TranslateError('FEMAttributes.to_meshio: parameters')
    has_ids = len(params) == 2
    if has_ids and not (len(fn.args.defaults) == 1 and isinstance(fn.args.defaults[0], ast.Constant)
                        and fn.args.defaults[0].value is None):
        raise TranslateError('FEMAttributes.to_meshio: ids has no default None')
    ev = _DictEval(mod_attrs, cls_attrs, 0)
    env = {params[0]: ('sym', 'self')}
    if has_ids:
        env[params[1]] = ('sym', 'ids')
    tree = ev.run(_body(fn), env)
    # the nodal branch: self.is_elemental false
    res = {}
    for ids_none in (False, True):
        entries = None
        for path, leaf in _leaves(tree, ('truth', 'is_none')):
            ok = True
            for atom, truth in path:
                if atom == ('truth', 'self.is_elemental'):
                    ok &= (truth is False)
                elif atom == ('is_none', 'ids'):
                    ok &= (truth == ids_none)
                else:
                    raise TranslateError('FEMAttributes.to_meshio: decision on ' + repr(atom))
            if ok:
                if leaf[0] != 'leaf':
                    raise TranslateError('FEMAttributes.to_meshio (nodal): ' + str(leaf[1]))
                if leaf[1][0] != 'dict':
                    raise TranslateError('FEMAttributes.to_meshio (nodal) does not return a dict it built')
                entries = leaf[1]
        if entries is None:
            raise TranslateError('FEMAttributes.to_meshio: no nodal branch')
        res[ids_none] = _classify_entries(entries, ids_none)
    if res[False][0] != res[True][0]:
        raise TranslateError('rank bound depends on ids')
    values_of_ok = None
    if 'by_id_current' in (res[False][1], res[True][1]):
        want = ('def values_of(self, ids):\n'
                '    indices = self._data_frame.index.get_indexer(ids)\n'
                '    if np.any(indices < 0):\n'
                '        raise KeyError(f"{self.name} has no row for some of the IDs")\n'
                '    return self.data[indices]')
        vo = _method(_class(mod_attr, 'FEMAttribute'), 'values_of')
        if not _same(vo, want):
            raise TranslateError('FEMAttribute.values_of is not the id -> position lookup into self.data')
        values_of_ok = _sha(src_attr, vo)
    return {'point_data_rank_bound': res[False][0],
            'pd_value': {'with_ids': res[False][1], 'without_ids': res[True][1]}}, values_of_ok


class _DictEval(_Eval):
    """adds: a dict built by a comprehension or by a loop over self.items()
    value ('dict', iter_text, key_var, attr_var, tree_of_entry) where the entry tree has leaves
    ('leaf', ('entry', key_value, value_value)) | ('leaf', ('none',))"""

    def expr(self, node, env):
        if isinstance(node, ast.DictComp):
            if len(node.generators) != 1 or node.generators[0].is_async:
                raise TranslateError('dict comprehension with several loops')
            g = node.generators[0]
            body = [ast.Assign(targets=[ast.Subscript(value=ast.Name(id='__d', ctx=ast.Load()),
                                                      slice=node.key, ctx=ast.Store())],
                               value=node.value, lineno=0)]
            for c in reversed(g.ifs):
                body = [ast.If(test=c, body=body, orelse=[])]
            return self.loop(g.target, g.iter, body, '__d', env)
        if isinstance(node, ast.Dict) and not node.keys:
            return ('emptydict',)
        return super().expr(node, env)

    def loop(self, target, it, body, dname, env):
        it_txt = self.sym(it, env)
        e2 = dict(env)
        if isinstance(target, ast.Tuple) and len(target.elts) == 2 and \
                all(isinstance(x, ast.Name) for x in target.elts):
            if it_txt != 'self.items()':
                raise TranslateError('loop over ' + it_txt)
            e2[target.elts[0].id] = ('sym', 'KEY')
            e2[target.elts[1].id] = ('sym', 'ATTR')
        elif isinstance(target, ast.Name):
            if it_txt == 'self.values()':
                e2[target.id] = ('sym', 'ATTR')
            elif it_txt in ('self.keys()', 'self'):
                e2[target.id] = ('sym', 'KEY')
            else:
                raise TranslateError('loop over ' + it_txt)
        else:
            raise TranslateError('loop target')
        return ('dict', self.body_tree(body, e2, dname))

    def body_tree(self, stmts, env, dname):
        """one iteration: -> tree with leaves ('entry', key, value) / ('none',)"""
        env = dict(env)
        for i, st in enumerate(stmts):
            rest = stmts[i + 1:]
            try:
                if isinstance(st, ast.Continue):
                    return ('leaf', ('none',))
                if isinstance(st, (ast.Pass,)) or (isinstance(st, ast.Expr) and isinstance(st.value, ast.Constant)):
                    continue
                if isinstance(st, ast.If):
                    atom, pos = self.cond(st.test, env)
                    t = self.body_tree(list(st.body) + rest, env, dname)
                    f = self.body_tree(list(st.orelse) + rest, env, dname)
                    if atom == ('true',):
                        return t if pos else f
                    return ('if', atom, t, f) if pos else ('if', atom, f, t)
                kv = None
                if isinstance(st, ast.Assign) and len(st.targets) == 1:
                    tg = st.targets[0]
                    if isinstance(tg, ast.Subscript) and isinstance(tg.value, ast.Name) and tg.value.id == dname:
                        kv = (tg.slice, st.value)
                    elif isinstance(tg, ast.Name) and tg.id != dname:
                        env[tg.id] = self.expr(st.value, env)
                        continue
                if isinstance(st, ast.Expr) and isinstance(st.value, ast.Call) and \
                        isinstance(st.value.func, ast.Attribute) and st.value.func.attr == 'update' and \
                        isinstance(st.value.func.value, ast.Name) and st.value.func.value.id == dname and \
                        len(st.value.args) == 1 and not st.value.keywords and \
                        isinstance(st.value.args[0], ast.Dict) and len(st.value.args[0].keys) == 1 and \
                        st.value.args[0].keys[0] is not None:
                    kv = (st.value.args[0].keys[0], st.value.args[0].values[0])
                if kv is None:
                    raise TranslateError('loop statement not understood: ' + ast.unparse(st)[:60])
                if any(not isinstance(s, (ast.Pass, ast.Continue)) for s in rest):
                    raise TranslateError('statements after the entry is stored')
                return ('leaf', ('entry', self.expr(kv[0], env), self.expr(kv[1], env)))
            except _Branch as b:
                atom, pos = self.cond(b.node.test, env)
                t = self.body_tree([_replace(st, b.node, b.node.body)] + rest, env, dname)
                f = self.body_tree([_replace(st, b.node, b.node.orelse)] + rest, env, dname)
                if atom == ('true',):
                    return t if pos else f
                return ('if', atom, t, f) if pos else ('if', atom, f, t)
        return ('leaf', ('none',))

    def run(self, stmts, env):
        """as _Eval.run plus:  d = {} ; for k, a in self.items(): ... ; return d"""
        env = dict(env)
        for i, st in enumerate(stmts):
            if isinstance(st, ast.For) and not st.orelse:
                dn = [k for k, v in env.items() if v == ('emptydict',)]
                filled = None
                for d in dn:
                    try:
                        filled = (d, self.loop(st.target, st.iter, list(st.body), d, env))
                        break
                    except TranslateError as e:
                        err = e
                if filled is None:
                    return ('unread', 'loop not understood' + (': ' + str(err) if dn else ''))
                env[filled[0]] = filled[1]
                return self.run_rest(stmts[i + 1:], env)
            if isinstance(st, (ast.If, ast.Return)) or \
                    (isinstance(st, ast.Assign) and isinstance(st.value, ast.IfExp)):
                return super().run(stmts[i:], env)
            if isinstance(st, ast.Assign) and len(st.targets) == 1 and isinstance(st.targets[0], ast.Name):
                try:
                    env[st.targets[0].id] = self.expr(st.value, env)
                except _Branch:
                    return super().run(stmts[i:], env)
                continue
            return super().run(stmts[i:], env)
        return ('leaf', ('const', None))

    def run_rest(self, stmts, env):
        return self.run(stmts, env)


def _classify_entries(d, ids_none):
    """('dict', tree) -> (rank bound, value kind)   for the given truth of `ids is None`"""
    bound, kind = None, None
    for path, leaf in _leaves(d[1], ('rank_lt', 'is_none')):
        ok = True
        rank_truth = None
        for atom, truth in path:
            if atom[0] == 'is_none':
                if atom[1] != 'ids':
                    raise TranslateError('decision on ' + repr(atom))
                ok &= (truth == ids_none)
            else:
                if atom[1] != 'ATTR.data':
                    raise TranslateError('rank of ' + atom[1])
                if bound is not None and bound != atom[2]:
                    raise TranslateError('two rank bounds')
                bound = atom[2]
                rank_truth = truth
        if not ok:
            continue
        if leaf[0] != 'leaf':
            raise TranslateError('point data entry: ' + str(leaf[1]))
        e = leaf[1]
        if rank_truth is None:
            raise TranslateError('an entry is stored / skipped without a rank test')
        if rank_truth is False:
            if e[0] != 'none':
                raise TranslateError('a variable of high rank is exported')
            continue
        if e[0] != 'entry':
            raise TranslateError('a variable of low rank is skipped')
        key, val = e[1], e[2]
        if key != ('sym', 'KEY'):
            raise TranslateError('point data is not keyed by the name the variable is stored under: '
                                 + repr(key))
        if val == ('expr', 'ATTR.data'):
            k = 'positional'
        elif val == ('expr', 'ATTR.values_of(ids)') and not ids_none:
            k = 'by_id_current'
        elif val == ('expr', 'ATTR.loc[ids].data') and not ids_none:
            k = 'by_id_loc'
        else:
            raise TranslateError('exported value not understood: ' + repr(val))
        if kind is not None and kind != k:
            raise TranslateError('two kinds of exported value')
        kind = k
    if bound is None or kind is None:
        raise TranslateError('no point data entry')
    return bound, kind


def _fem_data_region(mod, cls):
    """FEMData.to_meshio -> are the node ids handed to the nodal export; everything else pinned
    by meaning: meshio.Mesh(points=self.nodes.data, cells=self.elements.to_meshio(self.nodes),
    point_data=self.nodal_data.to_meshio([self.nodes.ids]), cell_data=self.elemental_data.to_meshio())"""
    fn = _method(cls, 'to_meshio')
    if [a.arg for a in fn.args.args] != ['self'] or fn.args.vararg or fn.args.kwarg or fn.args.kwonlyargs:
        raise TranslateError('FEMData.to_meshio: parameters')
    ev = _Eval(mod, None, 0)
    tree = ev.run(_body(fn), {'self': ('sym', 'self')})
    if tree[0] != 'leaf' or tree[1][0] != 'expr':
        raise TranslateError('FEMData.to_meshio: not a single straight-line return')
    call = ast.parse(tree[1][1], mode='eval').body
    if not (isinstance(call, ast.Call) and ast.unparse(call.func) == 'meshio.Mesh'):
        raise TranslateError('FEMData.to_meshio does not return meshio.Mesh(...)')
    names = ['points', 'cells', 'point_data', 'cell_data']
    got = {}
    for n, a in zip(names, call.args):
        got[n] = ast.unparse(a)
    if len(call.args) > 4:
        raise TranslateError('meshio.Mesh: arguments')
    for k in call.keywords:
        if k.arg not in names or k.arg in got:
            raise TranslateError(f'meshio.Mesh: keyword {k.arg}')
        got[k.arg] = ast.unparse(k.value)
    want = {'points': ['self.nodes.data'], 'cells': ['self.elements.to_meshio(self.nodes)',
                                                      'self.elements.to_meshio(nodes=self.nodes)'],
            'cell_data': ['self.elemental_data.to_meshio()']}
    for k, w in want.items():
        if got.get(k) not in w:
            raise TranslateError(f'meshio.Mesh: {k} is {got.get(k)}')
    pd = got.get('point_data')
    if pd in ('self.nodal_data.to_meshio(self.nodes.ids)', 'self.nodal_data.to_meshio(ids=self.nodes.ids)'):
        return {'pd_ids_passed': True}
    if pd in ('self.nodal_data.to_meshio()', 'self.nodal_data.to_meshio(None)',
              'self.nodal_data.to_meshio(ids=None)'):
        return {'pd_ids_passed': False}
    raise TranslateError(f'meshio.Mesh: point_data is {pd}')


def read_regions(repo):
    """-> (values: region -> dict, consumed: name -> sha256, unread: region -> reason)"""
    repo = Path(repo)
    values, consumed, unread = {}, {}, {}
    src, tree = {}, {}
    for key, fname in (('c', 'config.py'), ('e', 'fem_elemental_attribute.py'), ('a', 'fem_attributes.py'),
                       ('d', 'fem_data.py'), ('t', 'fem_attribute.py')):
        try:
            src[key] = (repo / 'femio' / fname).read_text()
            tree[key] = ast.parse(src[key])
        except (OSError, SyntaxError) as e:
            src[key], tree[key] = '', None
            unread['file:' + fname] = f'{type(e).__name__}: {e}'

    def region(name, fn):
        try:
            values[name] = fn() or {}
        except (TranslateError, KeyError, AttributeError, TypeError, ValueError, IndexError,
                RecursionError) as e:
            unread[name] = f'{type(e).__name__}: {e}'

    def need(key):
        if tree[key] is None:
            raise TranslateError('file could not be parsed')
        return tree[key]

    def r_table():
        a = _module_assign(need('c'), 'DICT_FEMIO_ELEMENT_TO_MESHIO_ELEMENT')
        d = _literal(a.value, 'DICT_FEMIO_ELEMENT_TO_MESHIO_ELEMENT')
        if not (isinstance(d, dict) and all(isinstance(k, str) and isinstance(v, str) for k, v in d.items())):
            raise TranslateError('DICT_FEMIO_ELEMENT_TO_MESHIO_ELEMENT is not a dict str -> str')
        consumed['config.py:DICT_FEMIO_ELEMENT_TO_MESHIO_ELEMENT'] = _sha(src['c'], a)
        return {'table': [[k, v] for k, v in d.items()]}

    def r_inverse():
        inv = _module_assign(need('c'), 'DICT_MESHIO_ELEMENT_TO_FEMIO_ELEMENT')
        if _same(inv, 'DICT_MESHIO_ELEMENT_TO_FEMIO_ELEMENT = {\n'
                      '    v: k for k, v in DICT_FEMIO_ELEMENT_TO_MESHIO_ELEMENT.items()}'):
            return {}
        try:                                    # or the literal inverse
            d = _literal(inv.value, 'inverse')
            t = dict(values['table']['table'])
            if d == {v: k for k, v in t.items()}:
                return {}
        except (TranslateError, KeyError):
            pass
        raise TranslateError('DICT_MESHIO_ELEMENT_TO_FEMIO_ELEMENT is not the inverse of the type table')

    def r_types():
        cls = _class(need('e'), 'FEMElementalAttribute')
        et = _assign_of(cls.body, 'ELEMENT_TYPES')
        if len(et) != 1:
            raise TranslateError('FEMElementalAttribute.ELEMENT_TYPES: not one class-level assignment')
        v = _literal(et[0].value, 'ELEMENT_TYPES')
        if not (isinstance(v, (list, tuple)) and all(isinstance(x, str) for x in v)):
            raise TranslateError('ELEMENT_TYPES is not a list of strings')
        _not_mutated(need('e'), 'ELEMENT_TYPES')
        consumed['fem_elemental_attribute.py:ELEMENT_TYPES'] = _sha(src['e'], et[0])
        return {'element_types': list(v)}

    def r_iteration():
        cls = _class(need('e'), 'FEMElementalAttribute')
        forms = {'keys': ['return [t for t in self.ELEMENT_TYPES if t in self]'],
                 'values': ['return [self[t] for t in self.ELEMENT_TYPES if t in self]'],
                 'items': ['return [(t, self[t]) for t in self.ELEMENT_TYPES if t in self]',
                           'return [(t, self[t]) for t in self.keys()]',
                           'return list(zip(self.keys(), self.values()))']}
        for nm, srcs in forms.items():
            m = _method(cls, nm)
            b = _body(m)
            if len(b) != 1 or not any(_same(b[0], s) for s in srcs):
                raise TranslateError(f'FEMElementalAttribute.{nm} does not iterate ELEMENT_TYPES by membership')
            consumed['fem_elemental_attribute.py:' + nm] = _sha(src['e'], m)

    def r_export():
        cls = _class(need('e'), 'FEMElementalAttribute')
        sp, cols = _perm_region(need('e'), cls, '_to_meshio', 'element', TET2_WIDTH)
        consumed['fem_elemental_attribute.py:_to_meshio'] = _sha(src['e'], _method(cls, '_to_meshio'))
        return {'export_permuted_types': sp, 'tet2_to_meshio': cols}

    def r_import():
        cls = _class(need('e'), 'FEMElementalAttribute')
        sp, cols = _perm_region(need('e'), cls, '_from_meshio', 'data', TET2_WIDTH)
        consumed['fem_elemental_attribute.py:_from_meshio'] = _sha(src['e'], _method(cls, '_from_meshio'))
        return {'import_permuted_types': sp, 'tet2_from_meshio': cols}

    def r_cells():
        cls = _class(need('e'), 'FEMElementalAttribute')
        m = _method(cls, '_to_indices')
        b = _body(m)
        if len(b) != 1 or not _same(b[0], 'return {\n element_type: nodes.ids2indices(element_data.data)\n'
                                          ' for element_type, element_data in self.items()}'):
            raise TranslateError('_to_indices is not {type: nodes.ids2indices(data) for ... in self.items()}')
        consumed['fem_elemental_attribute.py:_to_indices'] = _sha(src['e'], m)
        m = _method(cls, 'to_meshio')
        want = ("def to_meshio(self, nodes):\n"
                "    tmp_elements = FEMElementalAttribute('ELEMENT', {\n k: FEMAttribute(k, v.ids, self._to_meshio(k, v))\n"
                "     for k, v in self.items()})\n"
                "    return {\n config.DICT_FEMIO_ELEMENT_TO_MESHIO_ELEMENT[k]: v\n for k, v in"
                " tmp_elements._to_indices(nodes).items()}")
        if not _same(m, want):
            raise TranslateError('FEMElementalAttribute.to_meshio has an unexpected shape')
        consumed['fem_elemental_attribute.py:to_meshio'] = _sha(src['e'], m)

    def r_point_data():
        cla = _class(need('a'), 'FEMAttributes')
        v, vo_sha = _point_data_region(need('a'), cla, need('t'), src['t'])
        consumed['fem_attributes.py:to_meshio'] = _sha(src['a'], _method(cla, 'to_meshio'))
        if vo_sha:
            consumed['fem_attribute.py:values_of'] = vo_sha
        return v

    def r_fem_data():
        cls = _class(need('d'), 'FEMData')
        v = _fem_data_region(need('d'), cls)
        consumed['fem_data.py:to_meshio'] = _sha(src['d'], _method(cls, 'to_meshio'))
        return v

    for name, fn in (('table', r_table), ('inverse', r_inverse), ('types', r_types),
                     ('iteration', r_iteration), ('export_perm', r_export), ('import_perm', r_import),
                     ('cells', r_cells), ('point_data', r_point_data), ('fem_data', r_fem_data)):
        region(name, fn)
    return values, consumed, unread


# functions of the export path the hand model mirrors but the translator does not read: their
# canonical form (locals alpha-renamed, docstrings / layout dropped) is hashed; a hash that differs
# from the baseline's means "the body changed: search deeper" (widened correspondence), never a
# violation by itself
WATCHED = (('fem_attribute.py', 'FEMAttribute', 'ids2indices'),
           ('fem_attribute.py', 'FEMAttribute', '_update_id2index'),
           ('fem_attribute.py', 'FEMAttribute', 'values_of'),
           ('fem_attributes.py', 'FEMAttributes', 'items'),
           # the public in-place edits of a table (rows overwritten / appended, ids assigned) and
           # what keeps id2index / the owner in step with them
           ('fem_attribute.py', 'FEMAttribute', 'update'),
           ('fem_attribute.py', 'FEMAttribute', 'ids'),
           ('fem_attribute.py', 'FEMAttribute', 'data'),
           ('fem_attribute.py', 'FEMAttribute', 'data_frame'),
           ('fem_attribute.py', 'FEMAttribute', '_update_parent'))


def watched_hashes(repo):
    """-> {file:Class.method: sha256 of the canonical ast | 'missing: ...'}"""
    repo = Path(repo)
    out, trees = {}, {}
    for fname, cname, mname in WATCHED:
        key = f'{fname}:{cname}.{mname}'
        try:
            if fname not in trees:
                trees[fname] = ast.parse((repo / 'femio' / fname).read_text())
            defs = [n for n in _class(trees[fname], cname).body
                    if isinstance(n, ast.FunctionDef) and n.name == mname]     # property: getter + setter
            if not defs:
                raise TranslateError(f'{cname}.{mname} not found')
            out[key] = hashlib.sha256('\n'.join(
                ','.join(ast.unparse(d) for d in n.decorator_list) + _canon(n) for n in defs).encode()).hexdigest()
        except (TranslateError, OSError, SyntaxError) as e:
            out[key] = f'missing: {e}'
    # the branch of FEMData.write that produces the file
    try:
        if 'fem_data.py' not in trees:
            trees['fem_data.py'] = ast.parse((repo / 'femio' / 'fem_data.py').read_text())
        w = _method(_class(trees['fem_data.py'], 'FEMData'), 'write')
        br = [n for n in ast.walk(w) if isinstance(n, ast.If) and isinstance(n.test, ast.Compare)
              and any(isinstance(c, ast.Constant) and c.value == 'vtk' for c in n.test.comparators)]
        out['fem_data.py:FEMData.write[vtk]'] = hashlib.sha256(
            '\n'.join(ast.dump(x) for b in br for x in b.body).encode()).hexdigest() if br else 'missing: no vtk branch'
    except (TranslateError, OSError, SyntaxError) as e:
        out['fem_data.py:FEMData.write[vtk]'] = f'missing: {e}'
    return out


def changed_bodies(repo, baseline):
    now = watched_hashes(repo)
    base = baseline.get('watched', {})
    return sorted(k for k in now if now[k] != base.get(k))


def load_baseline():
    return json.loads(BASELINE.read_text())


def combine(values, unread, baseline):
    """flat table of generated values: translated regions, baseline for the unread ones;
    derives the two flags of the nodal export"""
    t = {}
    for r in REGIONS:
        src = values[r] if r in values else {k: baseline[k] for k in REGION_KEYS[r]}
        t.update(src)
    kind = t['pd_value']['with_ids'] if t['pd_ids_passed'] else t['pd_value']['without_ids']
    t['point_data_by_id'] = kind in ('by_id_loc', 'by_id_current')
    # attribute.loc[ids] reads the pandas frame, which in-place edits of attribute.data
    # (attr.data[...] = v) do not refresh: the export depends on the history
    t['point_data_current_values'] = kind != 'by_id_loc'
    t['table'] = [tuple(x) for x in t['table']]
    return t


def translate(repo):
    """fail-closed entry (every region must be readable) - kept for the command line / replay"""
    values, consumed, unread = read_regions(repo)
    if unread:
        raise TranslateError('; '.join(f'{k}: {v}' for k, v in unread.items()))
    return combine(values, unread, {}), consumed


def emit(t, unread=None):
    sl = lambda xs: '[' + '; '.join(coq_str(x) for x in xs) + ']'          # noqa
    nl = lambda xs: '[' + '; '.join(str(x) for x in xs) + ']'              # noqa
    L = ['(* GENERATED by translate/c06_tables.py from femio/config.py,',
         '   femio/fem_elemental_attribute.py, femio/fem_attributes.py -- do not edit. *)']
    if unread:
        L += ['(* regions the translator could not read on this tree (values from the committed baseline',
              '   coq/C06/gen_baseline/tables.json, tied by the widened correspondence): '
              + ', '.join(sorted(unread)) + ' *)']
    L += ['From Coq Require Import String List.', 'Import ListNotations.', 'Open Scope string_scope.', '',
          '(* config.DICT_FEMIO_ELEMENT_TO_MESHIO_ELEMENT, in dict order *)',
          'Definition femio_to_meshio : list (string * string) :=',
          '  [' + ';\n   '.join(f'({coq_str(k)}, {coq_str(v)})' for k, v in t['table']) + '].', '',
          '(* FEMElementalAttribute.ELEMENT_TYPES: the order in which items() yields the blocks *)',
          f'Definition element_types : list string :=\n  {sl(t["element_types"])}.', '',
          '(* element types whose nodes are re-ordered on export / meshio cell types on import *)',
          f'Definition export_permuted_types : list string := {sl(t["export_permuted_types"])}.',
          f'Definition import_permuted_types : list string := {sl(t["import_permuted_types"])}.', '',
          '(* _to_meshio_tet2 / _from_meshio_tet2: result[k] = data[list[k]] *)',
          f'Definition tet2_to_meshio : list nat := {nl(t["tet2_to_meshio"])}.',
          f'Definition tet2_from_meshio : list nat := {nl(t["tet2_from_meshio"])}.', '',
          '(* FEMAttributes.to_meshio exports the variables with len(shape) < this *)',
          f'Definition point_data_rank_bound : nat := {t["point_data_rank_bound"]}.',
          '(* FEMData.to_meshio hands the node ids to it (values looked up by id) or not (positional) *)',
          f'Definition point_data_by_id : bool := {str(t["point_data_by_id"]).lower()}.',
          '(* the exported rows are the CURRENT values (attribute.data); false = read through the pandas',
          '   frame (.loc), which an in-place edit `attribute.data[...] = v` leaves stale *)',
          f'Definition point_data_current_values : bool := {str(t["point_data_current_values"]).lower()}.']
    return '\n'.join(L) + '\n'


if __name__ == '__main__':
    import sys
    values, consumed, unread = read_regions(sys.argv[1] if len(sys.argv) > 1 else '/repo')
    if len(sys.argv) > 2 and sys.argv[2] == '--baseline':
        if unread:
            sys.exit('cannot write a baseline: ' + json.dumps(unread))
        flat = {}
        for r in REGIONS:
            flat.update(values[r])
        flat['watched'] = watched_hashes(sys.argv[1])
        sys.stdout.write(json.dumps(flat, indent=1) + '\n')
    else:
        sys.stderr.write('unread: ' + json.dumps(unread, indent=1) + '\n')
        sys.stdout.write(emit(combine(values, unread, load_baseline() if unread else {}), unread))
