"""C04 translator (fail-closed): reads from the tree under test
  * FEMElementalAttribute.ELEMENT_TYPES            (fem_elemental_attribute.py)
  * how UCDWriter.write binds nodal / elemental data rows to ids (write_ucd.py):
      positional  -- index=<mesh ids>, data=np.concatenate([v.data for v in D.values() ...], axis=1)
      by id       -- every column block goes through the helper
                     `self._align_to_ids(<ids>, <data>, <the very expression used as index=>)`
                     whose body is `return pd.DataFrame(data, index=ids).loc[target_ids].values`
and emits coq/C04/gen/UcdCfg.v.  Any other shape raises TranslateError."""
import ast
import hashlib
from pathlib import Path


class TranslateError(Exception):
    pass


def _sha(s):
    return hashlib.sha256(s.encode()).hexdigest()


def _src(node, text):
    return ast.get_source_segment(text, node)


def element_types(repo):
    p = Path(repo) / 'femio' / 'fem_elemental_attribute.py'
    text = p.read_text()
    tree = ast.parse(text)
    for cls in tree.body:
        if isinstance(cls, ast.ClassDef) and cls.name == 'FEMElementalAttribute':
            for st in cls.body:
                if isinstance(st, ast.Assign) and len(st.targets) == 1 and \
                        isinstance(st.targets[0], ast.Name) and st.targets[0].id == 'ELEMENT_TYPES':
                    if not isinstance(st.value, ast.List) or not all(
                            isinstance(e, ast.Constant) and isinstance(e.value, str)
                            for e in st.value.elts):
                        raise TranslateError('ELEMENT_TYPES is not a list of string literals')
                    return [e.value for e in st.value.elts], _sha(_src(st, text))
    raise TranslateError('FEMElementalAttribute.ELEMENT_TYPES not found')


def _dump(n):
    return ast.dump(n, annotate_fields=False, include_attributes=False)


ALIGN_BODY = _dump(ast.parse(
    'def _align_to_ids(self, ids, data, target_ids):\n'
    '    return pd.DataFrame(data, index=ids).loc[target_ids].values\n').body[0].body[0])


def _strip_doc(body):
    if body and isinstance(body[0], ast.Expr) and isinstance(body[0].value, ast.Constant) \
            and isinstance(body[0].value.value, str):
        return body[1:]
    return body


def _frames(fn):
    """all pd.DataFrame(index=..., data=...) calls of the write method, in order"""
    out = []
    for n in ast.walk(fn):
        if isinstance(n, ast.Call) and isinstance(n.func, ast.Attribute) and n.func.attr == 'DataFrame' \
                and isinstance(n.func.value, ast.Name) and n.func.value.id == 'pd':
            kw = {k.arg: k.value for k in n.keywords}
            if n.args or set(kw) != {'index', 'data'}:
                raise TranslateError('unexpected pd.DataFrame call shape in UCDWriter.write')
            out.append((n.lineno, kw['index'], kw['data']))
    out.sort(key=lambda x: x[0])
    return out


def _mode(index, data, helper_ok, what):
    """classify one data frame: 'pos' | 'id'"""
    if not (isinstance(data, ast.Call) and isinstance(data.func, ast.Attribute)
            and data.func.attr == 'concatenate' and len(data.args) == 1
            and isinstance(data.args[0], ast.ListComp)
            and [k.arg for k in data.keywords] == ['axis']
            and isinstance(data.keywords[0].value, ast.Constant) and data.keywords[0].value.value == 1):
        raise TranslateError(f'{what}: data= is not np.concatenate([... for ...], axis=1)')
    lc = data.args[0]
    if len(lc.generators) != 1:
        raise TranslateError(f'{what}: more than one generator')
    elt = lc.elt
    # positional: the element is `<var>.data`
    if isinstance(elt, ast.Attribute) and elt.attr == 'data' and isinstance(elt.value, ast.Name):
        return 'pos'
    if isinstance(elt, ast.Call) and isinstance(elt.func, ast.Attribute) \
            and elt.func.attr == '_align_to_ids' and isinstance(elt.func.value, ast.Name) \
            and elt.func.value.id == 'self' and len(elt.args) == 3 and not elt.keywords:
        if not helper_ok:
            raise TranslateError(f'{what}: _align_to_ids used but its body is not the recognised one')
        if _dump(elt.args[2]) != _dump(index):
            raise TranslateError(f'{what}: rows are aligned to something else than the index= expression')
        # the (ids, data) pair handed to the helper must be the variable's own
        gen = lc.generators[0]
        pair = (ast.unparse(gen.target), ast.unparse(gen.iter).split('.')[-1],
                ast.unparse(elt.args[0]), ast.unparse(elt.args[1]))
        if pair not in (('v', 'values()', 'v.ids', 'v.data'),
                        ('(k, v)', 'items()', 'self.fem_data.elemental_data[k].ids', 'v'),
                        ('k, v', 'items()', 'self.fem_data.elemental_data[k].ids', 'v')):
            raise TranslateError(f'{what}: unrecognised (ids, data) arguments of _align_to_ids: {pair}')
        return 'id'
    raise TranslateError(f'{what}: unrecognised column expression')


def writer_modes(repo):
    p = Path(repo) / 'femio' / 'formats' / 'ucd' / 'write_ucd.py'
    text = p.read_text()
    tree = ast.parse(text)
    cls = [c for c in tree.body if isinstance(c, ast.ClassDef) and c.name == 'UCDWriter']
    if len(cls) != 1:
        raise TranslateError('class UCDWriter not found')
    fns = {f.name: f for f in cls[0].body if isinstance(f, ast.FunctionDef)}
    if 'write' not in fns:
        raise TranslateError('UCDWriter.write not found')
    helper_ok = False
    if '_align_to_ids' in fns:
        h = fns['_align_to_ids']
        body = _strip_doc(h.body)
        if [a.arg for a in h.args.args] == ['self', 'ids', 'data', 'target_ids'] \
                and len(body) == 1 and _dump(body[0]) == ALIGN_BODY:
            helper_ok = True
        else:
            raise TranslateError('_align_to_ids has an unrecognised body')
    fr = _frames(fns['write'])
    # node table, one per element block (inside the loop: one call), nodal data, elemental data
    if len(fr) != 4:
        raise TranslateError(f'expected 4 pd.DataFrame calls in UCDWriter.write, found {len(fr)}')
    want_idx = ['self.fem_data.nodes.ids', 'element.ids', 'self.fem_data.nodes.ids',
                'self.fem_data.elements.ids']
    for (ln, idx, _), w in zip(fr, want_idx):
        if _src(idx, text) != w:
            raise TranslateError(f'line {ln}: index= is {_src(idx, text)!r}, expected {w!r}')
    nodal = _mode(fr[2][1], fr[2][2], helper_ok, 'nodal data frame')
    elemental = _mode(fr[3][1], fr[3][2], helper_ok, 'elemental data frame')
    return {'nodal_by_id': nodal == 'id', 'elemental_by_id': elemental == 'id'}, \
        _sha(_src(fns['write'], text) + (_src(fns['_align_to_ids'], text) if '_align_to_ids' in fns else ''))


# The file layer both readers (UCD, FrontISTR) go through.  The models take
# "the lines of the file as it is now" as input; that is only true when
# StringSeries.read_file really opens the file on every call and read_files
# only concatenates / lists what read_file returns.  Expected bodies, compared
# as ASTs (docstrings ignored, no decorator other than classmethod, no other
# module-level function or cache in between).
READ_FILE_SRC = '''
@classmethod
def read_file(cls, file_name, *, pattern_ignore=None):
    print(f"Reading file: {file_name}")
    s = pd.read_csv(
        file_name, header=None, index_col=None, sep='@', dtype=str)[0]
    if pattern_ignore is None:
        return cls(s)
    else:
        return cls(s).find_match(
            pattern_ignore, negative_match=True)
'''
READ_FILES_SRC = '''
@classmethod
def read_files(cls, file_names, *, pattern_ignore=None, separate=False):
    if separate:
        list_string_series = ListStringSeries([
            cls.read_file(file_name, pattern_ignore=pattern_ignore)
            for file_name in file_names])
        if len(list_string_series) == 1:
            return list_string_series[0]
        else:
            return list_string_series
    else:
        return cls(pd.concat([
            cls.read_file(file_name, pattern_ignore=pattern_ignore)
            for file_name in file_names]))
'''


def _norm_fn(fn):
    fn = ast.parse(ast.unparse(fn)).body[0]      # detach from the file
    fn.body = _strip_doc(fn.body)
    return _dump(fn)


def file_layer(repo):
    """fail-closed check that the readers see the current content of the file"""
    p = Path(repo) / 'femio' / 'util' / 'string_parser.py'
    text = p.read_text()
    tree = ast.parse(text)
    cls = [c for c in tree.body if isinstance(c, ast.ClassDef) and c.name == 'StringSeries']
    if len(cls) != 1:
        raise TranslateError('class StringSeries not found')
    fns = {f.name: f for f in cls[0].body if isinstance(f, ast.FunctionDef)}
    for name, src in (('read_file', READ_FILE_SRC), ('read_files', READ_FILES_SRC)):
        if name not in fns:
            raise TranslateError(f'StringSeries.{name} not found')
        want = _norm_fn(ast.parse(src.strip()).body[0])
        if _norm_fn(fns[name]) != want:
            raise TranslateError(
                f'StringSeries.{name} is not the recognised body (it must read the file on every call: '
                f'print; pd.read_csv(file_name, header=None, index_col=None, sep="@", dtype=str)[0]; cls(s))')
    # nothing at module level may memoise (functools caches, module dicts used as caches)
    for n in ast.walk(tree):
        if isinstance(n, (ast.Import, ast.ImportFrom)):
            names = [a.name for a in n.names] + ([n.module] if isinstance(n, ast.ImportFrom) and n.module else [])
            if any(x and x.split('.')[0] == 'functools' for x in names):
                raise TranslateError('string_parser imports functools (memoised file reading is not modelled)')
        if isinstance(n, (ast.FunctionDef, ast.ClassDef)) and any(
                'cache' in ast.unparse(d) for d in n.decorator_list):
            raise TranslateError(f'{n.name} is decorated with a cache')
    return _sha(ast.unparse(fns['read_file']) + ast.unparse(fns['read_files']))


def translate(repo):
    et, s1 = element_types(repo)
    modes, s2 = writer_modes(repo)
    s3 = file_layer(repo)
    return {'element_types': et, **modes, 'reads_file_every_call': True}, {
        'femio/fem_elemental_attribute.py:ELEMENT_TYPES': s1,
        'femio/formats/ucd/write_ucd.py:UCDWriter.write': s2,
        'femio/util/string_parser.py:StringSeries.read_file+read_files': s3}


def emit(cfg):
    def cs(s):
        assert all(32 <= ord(c) < 127 and c != '"' for c in s), s
        return f'S "{s}"'
    b = lambda x: 'true' if x else 'false'
    return (
        '(* generated by translate/c04_cfg.py from the tree under test; do not edit *)\n'
        'From Coq Require Import String List.\nImport ListNotations.\n'
        'From FV.C04 Require Import Text Model.\nOpen Scope string_scope.\n'
        'Definition element_types : list str :=\n  [' + '; '.join(cs(t) for t in cfg['element_types']) + '].\n'
        f"Definition cfg : wcfg := {{| nodal_by_id := {b(cfg['nodal_by_id'])}; "
        f"elemental_by_id := {b(cfg['elemental_by_id'])} |}}.\n"
        '(* StringSeries.read_file / read_files have the recognised bodies: the file is read on every call *)\n'
        f"Definition reads_file_every_call : bool := {b(cfg.get('reads_file_every_call', False))}.\n")


if __name__ == '__main__':
    import sys
    c, s = translate(sys.argv[1] if len(sys.argv) > 1 else '/repo')
    print(c)
    print(emit(c))
