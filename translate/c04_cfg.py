"""C04 translator (fail-closed): reads from the tree under test
  * FEMElementalAttribute.ELEMENT_TYPES            (fem_elemental_attribute.py)
  * how UCDWriter.write binds nodal / elemental data rows to ids (write_ucd.py):
      positional  -- index=<mesh ids>, data=np.concatenate([v.data for v in D.values() ...], axis=1)
      by id       -- every column block goes through the helper
                     `self._align_to_ids(<ids>, <data>, <the very expression used as index=>)`
                     whose body is `return pd.DataFrame(data, index=ids).loc[target_ids].values`
and emits coq/C04/gen/UcdCfg.v.  Any other shape raises TranslateError."""
import ast
import hashlib
from pathlib import Path


class TranslateError(Exception):
    pass


def _sha(s):
    return hashlib.sha256(s.encode()).hexdigest()


def _src(node, text):
    return ast.get_source_segment(text, node)


def element_types(repo):
    p = Path(repo) / 'femio' / 'fem_elemental_attribute.py'
    text = p.read_text()
    tree = ast.parse(text)
    for cls in tree.body:
        if isinstance(cls, ast.ClassDef) and cls.name == 'FEMElementalAttribute':
            for st in cls.body:
                if isinstance(st, ast.Assign) and len(st.targets) == 1 and \
                        isinstance(st.targets[0], ast.Name) and st.targets[0].id == 'ELEMENT_TYPES':
                    # by meaning: any constant expression that evaluates to a sequence of strings
                    try:
                        val = ast.literal_eval(st.value)
                    except (ValueError, SyntaxError, TypeError):
                        raise TranslateError('ELEMENT_TYPES is not a constant expression')
                    if not isinstance(val, (list, tuple)) or not val or not all(isinstance(e, str) for e in val):
                        raise TranslateError('ELEMENT_TYPES is not a sequence of strings')
                    return list(val), _sha(repr(list(val)))
    raise TranslateError('FEMElementalAttribute.ELEMENT_TYPES not found')


def _dump(n):
    return ast.dump(n, annotate_fields=False, include_attributes=False)


def _strip_doc(body):
    if body and isinstance(body[0], ast.Expr) and isinstance(body[0].value, ast.Constant) \
            and isinstance(body[0].value.value, str):
        return body[1:]
    return body


# ---------------------------------------------------------------------------
# UCDWriter.write read by MEANING (round 5): a small abstract interpreter.
#
# Abstract values (tuples):
#   ('node_ids',) / ('elem_ids',)        self.fem_data.nodes.ids / self.fem_data.elements.ids
#   ('node_data',)                       self.fem_data.nodes.data
#   ('dict', sec, domain, item)          a mapping variable name -> item; sec in nodal|elemental;
#                                        domain 'written' (exactly the variables the writer exports,
#                                        in export order) or 'all'; item = abstract value at the
#                                        symbolic key of the section
#   ('key', sec)                         the symbolic variable name
#   ('attr', sec)                        the attribute of that variable: .ids -> ('ids', sec),
#                                        .data -> ('data', sec)
#   ('rawattr', sec)                     fem_data.elemental_data[k]: .ids -> ('ids', sec); its .data
#                                        is NOT the converted 2-D array -> unknown
#   ('data', sec)                        the 2-D array of that variable
#   ('frame', index, data)               pd.DataFrame(data, index=index)
#   ('loc', frame, target)               frame.loc[target]
#   ('align', ids, data, target)         rows of data (given for ids) in the order of target
#   ('cols', elt, dict)                  [elt for <var> in dict]  concatenated along axis 1
#   ('unknown', why)
# Private helpers of the class are entered (statement-level calls: their body is walked with the
# parameters bound to the abstract values of the arguments; expression-level calls: their single
# return expression is evaluated), so that extracting a helper from `write` or inlining one into it
# does not change what is read.  Spelling that does not matter: local names, keyword vs positional
# arguments of internal calls, d.values() / d.items() / d.keys() / d[k], dict comprehension in
# between, np.concatenate(axis=1) / np.hstack / np.column_stack, .values / .to_numpy().
# ---------------------------------------------------------------------------
UNK = 'unknown'


def _unk(why):
    return (UNK, why)


BASE_ATTRS = {
    'self.fem_data.nodes.ids': ('node_ids',),
    'self.fem_data.elements.ids': ('elem_ids',),
    'self.fem_data.nodes.data': ('node_data',),
    'self.fem_data.elemental_data': ('dict', 'elemental', 'all', ('rawattr', 'elemental')),
}
NODAL_DICT = ('dict', 'nodal', 'written', ('attr', 'nodal'))
ELEM_ARRAYS = ('dict', 'elemental', 'written', ('data', 'elemental'))


class _Interp:
    def __init__(self, fns):
        self.fns = fns
        self.frames = []      # abstract values of every <X>.to_csv(...) handed to f.write, in order
        self.depth = 0

    # ---- expressions
    def bind_call(self, fn, call, env):
        """parameter name -> abstract value for a call of a method of the class"""
        params = [a.arg for a in fn.args.args]
        if params and params[0] == 'self':
            params = params[1:]
        if fn.args.vararg or fn.args.kwarg or any(isinstance(a, ast.Starred) for a in call.args) \
                or any(k.arg is None for k in call.keywords):
            return None
        out = {}
        if len(call.args) > len(params):
            return None
        for p, a in zip(params, call.args):
            out[p] = self.ev(a, env)
        kwonly = [a.arg for a in fn.args.kwonlyargs]
        for k in call.keywords:
            if k.arg not in params + kwonly or k.arg in out:
                return None
            out[k.arg] = self.ev(k.value, env)
        # defaults
        defaults = dict(zip(params[len(params) - len(fn.args.defaults):], fn.args.defaults))
        defaults.update({a: d for a, d in zip(kwonly, fn.args.kw_defaults) if d is not None})
        for p in params + kwonly:
            if p not in out:
                if p not in defaults:
                    return None
                out[p] = self.ev(defaults[p], {})
        return out

    def self_method(self, node):
        if isinstance(node, ast.Call) and isinstance(node.func, ast.Attribute) \
                and isinstance(node.func.value, ast.Name) and node.func.value.id == 'self':
            return node.func.attr
        return None

    def ev(self, e, env):
        src = ast.unparse(e)
        if src in BASE_ATTRS:
            return BASE_ATTRS[src]
        if isinstance(e, ast.Name):
            return env.get(e.id, _unk(f'name {e.id}'))
        if isinstance(e, ast.Constant):
            return ('const', e.value)
        if isinstance(e, ast.List) and not e.elts:
            return ('emptylist',)
        if isinstance(e, ast.Attribute):
            v = self.ev(e.value, env)
            if v[0] in ('attr', 'rawattr') and e.attr == 'ids':
                return ('ids', v[1])
            if v[0] == 'attr' and e.attr in ('data', 'values'):
                return ('data', v[1])
            if v[0] == 'data' and e.attr == 'data':       # ndarray.data (memoryview): same shape
                return v
            if v[0] == 'loc' and e.attr == 'values':
                fr = v[1]
                return ('align', fr[1], fr[2], v[2])
            if v[0] == 'frame' and e.attr == 'loc':
                return ('locof', v)
            return _unk(f'attribute {src}')
        if isinstance(e, ast.Subscript):
            v = self.ev(e.value, env)
            k = self.ev(e.slice, env)
            if v[0] == 'dict' and k == ('key', v[1]):
                return v[3]
            if v[0] == 'locof':
                return ('loc', v[1], k)
            return _unk(f'subscript {src}')
        if isinstance(e, ast.Call):
            m = self.self_method(e)
            if m == 'try_convert_to_2d':
                kw = {k.arg: k.value for k in e.keywords}
                mode = e.args[0] if e.args else kw.get('mode', ast.Constant('nodal'))
                if isinstance(mode, ast.Constant) and mode.value == 'nodal' and len(e.args) + len(kw) <= 1:
                    return NODAL_DICT
                return _unk(src)
            if m == '_convert_objectdict2arraydict':
                if len(e.args) == 1 and not e.keywords and ast.unparse(e.args[0]) == 'self.fem_data.elemental_data':
                    return ELEM_ARRAYS
                return _unk(src)
            if m is not None and m in self.fns and self.depth < 3:
                fn = self.fns[m]
                body = _strip_doc(fn.body)
                b = self.bind_call(fn, e, env)
                if b is None or len(body) != 1 or not isinstance(body[0], ast.Return) or body[0].value is None:
                    return _unk(f'helper {m} is not a single return expression')
                self.depth += 1
                try:
                    return self.ev(body[0].value, b)
                finally:
                    self.depth -= 1
            f = e.func
            fs = ast.unparse(f)
            kw = {k.arg: k.value for k in e.keywords}
            if fs in ('pd.DataFrame', 'pandas.DataFrame'):
                args = list(e.args)
                data = args[0] if args else kw.get('data')
                index = args[1] if len(args) > 1 else kw.get('index')
                if data is None or index is None or len(args) > 2 or set(kw) - {'data', 'index'} \
                        or len(args) + len(kw) != 2:
                    return _unk(f'DataFrame call {src}')
                return ('frame', self.ev(index, env), self.ev(data, env))
            if fs in ('np.concatenate', 'numpy.concatenate', 'np.hstack', 'numpy.hstack',
                      'np.column_stack', 'numpy.column_stack'):
                if fs.endswith('concatenate'):
                    ax = kw.get('axis', e.args[1] if len(e.args) > 1 else None)
                    if not (isinstance(ax, ast.Constant) and ax.value in (1, -1)) or len(e.args) + len(kw) != 2:
                        return _unk(f'concatenate not along axis 1: {src}')
                elif len(e.args) != 1 or kw:
                    return _unk(src)
                seq = e.args[0]
                if isinstance(seq, ast.Call) and ast.unparse(seq.func) in ('list', 'tuple') and len(seq.args) == 1:
                    seq = seq.args[0]
                if isinstance(seq, ast.Name) and env.get(seq.id, ('',))[0] == 'cols':
                    return env[seq.id]
                if isinstance(seq, (ast.ListComp, ast.GeneratorExp)):
                    return self.comp(seq, env)
                return _unk(f'columns are not a comprehension over the variables: {src}')
            if isinstance(f, ast.Attribute) and f.attr in ('values', 'items', 'keys') and not e.args and not kw:
                v = self.ev(f.value, env)
                if v[0] == 'dict':
                    return (f.attr, v)
                return _unk(src)
            if isinstance(f, ast.Attribute) and f.attr == 'to_numpy' and not e.args and not kw:
                v = self.ev(f.value, env)
                if v[0] == 'loc':
                    return ('align', v[1][1], v[1][2], v[2])
                return _unk(src)
            return _unk(f'call {src}')
        if isinstance(e, ast.DictComp):
            b = self.generators(e.generators, env)
            if b is None:
                return _unk(f'dict comprehension {src}')
            env2, d = b
            if self.ev(e.key, env2) != ('key', d[1]):
                return _unk(f'dict comprehension re-keys the variables: {src}')
            return ('dict', d[1], d[2], self.ev(e.value, env2))
        if isinstance(e, (ast.ListComp, ast.GeneratorExp)):
            return self.comp(e, env)
        return _unk(src)

    def always_true(self, cond, env):
        """filters that cannot drop a variable: the written variables are 2-D by construction"""
        if isinstance(cond, ast.Compare) and len(cond.ops) == 1 and isinstance(cond.ops[0], ast.Eq) \
                and isinstance(cond.comparators[0], ast.Constant) and cond.comparators[0].value == 2:
            l = cond.left
            x = None
            if isinstance(l, ast.Call) and ast.unparse(l.func) == 'len' and len(l.args) == 1 \
                    and isinstance(l.args[0], ast.Attribute) and l.args[0].attr == 'shape':
                x = l.args[0].value
            elif isinstance(l, ast.Attribute) and l.attr == 'ndim':
                x = l.value
            if x is not None and self.ev(x, env)[0] == 'data':
                return True
        return False

    def generators(self, gens, env):
        """one generator over the variables of a section -> (env with the targets bound, dict)"""
        if len(gens) != 1 or gens[0].is_async:
            return None
        g = gens[0]
        it = self.ev(g.iter, env)
        if it[0] == 'dict':
            it = ('keys', it)
        if it[0] not in ('values', 'items', 'keys'):
            return None
        d = it[1]
        if d[2] != 'written':
            return None
        key, item = ('key', d[1]), d[3]
        env2 = dict(env)
        t = g.target
        if it[0] == 'items':
            if not (isinstance(t, ast.Tuple) and len(t.elts) == 2 and all(isinstance(x, ast.Name) for x in t.elts)):
                return None
            env2[t.elts[0].id], env2[t.elts[1].id] = key, item
        else:
            if not isinstance(t, ast.Name):
                return None
            env2[t.id] = key if it[0] == 'keys' else item
        if not all(self.always_true(c, env2) for c in g.ifs):
            return None
        return env2, d

    def comp(self, e, env):
        b = self.generators(e.generators, env)
        if b is None:
            return _unk(f'comprehension is not over the exported variables: {ast.unparse(e)}')
        env2, d = b
        return ('cols', self.ev(e.elt, env2), d)

    # ---- statements
    def walk(self, body, env):
        for st in body:
            if isinstance(st, ast.Assign) and len(st.targets) == 1:
                t = st.targets[0]
                if isinstance(t, ast.Name):
                    env[t.id] = self.ev(st.value, env)
                elif isinstance(t, ast.Tuple):
                    for x in t.elts:
                        if isinstance(x, ast.Name):
                            env[x.id] = _unk('tuple assignment')
                self.scan(st.value, env)
            elif isinstance(st, ast.Expr):
                m = self.self_method(st.value)
                if m is not None and m in self.fns and self.depth < 3 and \
                        not any(isinstance(n, ast.Return) and n.value is not None
                                for n in ast.walk(self.fns[m])):
                    b = self.bind_call(self.fns[m], st.value, env)
                    if b is None:
                        raise TranslateError(f'cannot bind the arguments of self.{m}(...)')
                    self.depth += 1
                    self.walk(_strip_doc(self.fns[m].body), b)
                    self.depth -= 1
                else:
                    c = st.value
                    if isinstance(c, ast.Call) and isinstance(c.func, ast.Attribute) \
                            and isinstance(c.func.value, ast.Name) and c.func.value.id in env \
                            and env[c.func.value.id][0] in ('cols', 'emptylist', 'dict'):
                        # any other method call on a tracked list / dict may change it
                        env[c.func.value.id] = _unk(f'modified by {ast.unparse(c)[:60]}')
                    self.scan(st.value, env)
            elif isinstance(st, ast.For):
                # loop-append form of the column list: xs = []; for ... in D...: xs.append(elt)
                #   (simple local assignments may precede the append inside the body)
                last = st.body[-1]
                if isinstance(last, ast.Expr) and not st.orelse and all(
                        isinstance(x, ast.Assign) and len(x.targets) == 1 and isinstance(x.targets[0], ast.Name)
                        for x in st.body[:-1]):
                    c = last.value
                    if isinstance(c, ast.Call) and isinstance(c.func, ast.Attribute) and c.func.attr == 'append' \
                            and isinstance(c.func.value, ast.Name) and env.get(c.func.value.id) == ('emptylist',) \
                            and len(c.args) == 1 and not c.keywords:
                        gen = ast.comprehension(target=st.target, iter=st.iter, ifs=[], is_async=0)
                        b = self.generators([gen], env)
                        if b is not None:
                            env2 = b[0]
                            for x in st.body[:-1]:
                                env2[x.targets[0].id] = self.ev(x.value, env2)
                            env[c.func.value.id] = ('cols', self.ev(c.args[0], env2), b[1])
                            continue
                for n in ast.walk(st.target):
                    if isinstance(n, ast.Name):
                        env[n.id] = _unk('loop variable')
                self.walk(st.body, env)
                self.walk(st.orelse, env)
            elif isinstance(st, ast.With):
                self.walk(st.body, env)
            elif isinstance(st, ast.If):
                self.walk(st.body, env)
                self.walk(st.orelse, env)
            elif isinstance(st, ast.Try):
                self.walk(st.body, env)
                for h in st.handlers:
                    self.walk(h.body, env)
                self.walk(st.orelse, env)
                self.walk(st.finalbody, env)
            elif isinstance(st, (ast.AugAssign, ast.AnnAssign)):
                if isinstance(st.target, ast.Name):
                    env[st.target.id] = _unk('augmented')

    def scan(self, e, env):
        """record every <X>.to_csv(...) in an expression statement (what is written as a table)"""
        for n in ast.walk(e):
            if isinstance(n, ast.Call) and isinstance(n.func, ast.Attribute) and n.func.attr == 'to_csv':
                self.frames.append((n.lineno, self.ev(n.func.value, env)))


def _classify(fr, sec, what):
    """('frame', index, data) of a data section -> 'pos' | 'id'"""
    want_idx = ('node_ids',) if sec == 'nodal' else ('elem_ids',)
    if fr[0] != 'frame':
        raise TranslateError(f'{what}: what is written is not pd.DataFrame(index=..., data=...): {fr}')
    _, index, data = fr
    if index != want_idx:
        raise TranslateError(f'{what}: index= is not the mesh id list ({index})')
    if data[0] != 'cols':
        raise TranslateError(f'{what}: data= is not a concatenation over the exported variables ({data})')
    _, elt, d = data
    if d[1] != sec or d[2] != 'written':
        raise TranslateError(f'{what}: columns do not run over the exported {sec} variables')
    if elt == ('data', sec):
        return 'pos'
    if elt == ('align', ('ids', sec), ('data', sec), want_idx):
        return 'id'
    raise TranslateError(f'{what}: unrecognised column expression {elt}')


def writer_modes(repo):
    p = Path(repo) / 'femio' / 'formats' / 'ucd' / 'write_ucd.py'
    text = p.read_text()
    tree = ast.parse(text)
    cls = [c for c in tree.body if isinstance(c, ast.ClassDef) and c.name == 'UCDWriter']
    if len(cls) != 1:
        raise TranslateError('class UCDWriter not found')
    fns = {f.name: f for f in cls[0].body if isinstance(f, ast.FunctionDef)}
    if 'write' not in fns:
        raise TranslateError('UCDWriter.write not found')
    it = _Interp(fns)
    it.walk(_strip_doc(fns['write'].body), {})
    fr = [v for _, v in it.frames]
    # node table, one per element block (inside the loop: one call), nodal data, elemental data
    if len(fr) != 4:
        raise TranslateError(f'expected 4 tables written with to_csv in UCDWriter.write, found {len(fr)}')
    if fr[0] != ('frame', ('node_ids',), ('node_data',)):
        raise TranslateError(f'node table is not pd.DataFrame(index=nodes.ids, data=nodes.data): {fr[0]}')
    if fr[1][0] != 'frame':
        raise TranslateError(f'element table is not a pd.DataFrame: {fr[1]}')
    nodal = _classify(fr[2], 'nodal', 'nodal data frame')
    elemental = _classify(fr[3], 'elemental', 'elemental data frame')
    used = ''.join(_src(fns[n], text) for n in sorted(fns) if n != '__init__')
    return {'nodal_by_id': nodal == 'id', 'elemental_by_id': elemental == 'id'}, _sha(used)


# The file layer both readers (UCD, FrontISTR) go through.  The models take
# "the lines of the file as it is now" as input; that is only true when
# StringSeries.read_file really opens the file on every call and read_files
# only concatenates / lists what read_file returns.  Expected bodies, compared
# as ASTs (docstrings ignored, no decorator other than classmethod, no other
# module-level function or cache in between).
READ_FILE_SRC = '''
@classmethod
def read_file(cls, file_name, *, pattern_ignore=None):
    print(f"Reading file: {file_name}")
    s = pd.read_csv(
        file_name, header=None, index_col=None, sep='@', dtype=str)[0]
    if pattern_ignore is None:
        return cls(s)
    else:
        return cls(s).find_match(
            pattern_ignore, negative_match=True)
'''
READ_FILES_SRC = '''
@classmethod
def read_files(cls, file_names, *, pattern_ignore=None, separate=False):
    if separate:
        list_string_series = ListStringSeries([
            cls.read_file(file_name, pattern_ignore=pattern_ignore)
            for file_name in file_names])
        if len(list_string_series) == 1:
            return list_string_series[0]
        else:
            return list_string_series
    else:
        return cls(pd.concat([
            cls.read_file(file_name, pattern_ignore=pattern_ignore)
            for file_name in file_names]))
'''


def _norm_fn(fn):
    fn = ast.parse(ast.unparse(fn)).body[0]      # detach from the file
    fn.body = _strip_doc(fn.body)
    return _dump(fn)


def file_layer(repo):
    """fail-closed check that the readers see the current content of the file"""
    p = Path(repo) / 'femio' / 'util' / 'string_parser.py'
    text = p.read_text()
    tree = ast.parse(text)
    cls = [c for c in tree.body if isinstance(c, ast.ClassDef) and c.name == 'StringSeries']
    if len(cls) != 1:
        raise TranslateError('class StringSeries not found')
    fns = {f.name: f for f in cls[0].body if isinstance(f, ast.FunctionDef)}
    for name, src in (('read_file', READ_FILE_SRC), ('read_files', READ_FILES_SRC)):
        if name not in fns:
            raise TranslateError(f'StringSeries.{name} not found')
        want = _norm_fn(ast.parse(src.strip()).body[0])
        if _norm_fn(fns[name]) != want:
            raise TranslateError(
                f'StringSeries.{name} is not the recognised body (it must read the file on every call: '
                f'print; pd.read_csv(file_name, header=None, index_col=None, sep="@", dtype=str)[0]; cls(s))')
    # nothing at module level may memoise (functools caches, module dicts used as caches)
    for n in ast.walk(tree):
        if isinstance(n, (ast.Import, ast.ImportFrom)):
            names = [a.name for a in n.names] + ([n.module] if isinstance(n, ast.ImportFrom) and n.module else [])
            if any(x and x.split('.')[0] == 'functools' for x in names):
                raise TranslateError('string_parser imports functools (memoised file reading is not modelled)')
        if isinstance(n, (ast.FunctionDef, ast.ClassDef)) and any(
                'cache' in ast.unparse(d) for d in n.decorator_list):
            raise TranslateError(f'{n.name} is decorated with a cache')
    return _sha(ast.unparse(fns['read_file']) + ast.unparse(fns['read_files']))


# The model of each translated region as it was last read successfully from the registered tree
# (/repo 38049d8); committed copy: coq/C04/gen_baseline/UcdCfg.v.  Used as the HAND model of a region
# the translator cannot read (policy round 5: degrade T -> H with a widened correspondence instead of
# raising an alarm without a failing input).
BASELINE = {
    'element_types': ['line', 'line2', 'spring', 'tri', 'tri2', 'quad', 'quad2', 'polygon', 'tet', 'tet2',
                      'pyr', 'pyr2', 'prism', 'prism2', 'hex', 'hex2', 'hexprism', 'polyhedron', 'unknown'],
    'nodal_by_id': True, 'elemental_by_id': True, 'reads_file_every_call': True}

REGIONS = {
    'femio/fem_elemental_attribute.py:ELEMENT_TYPES': 'element_types',
    'femio/formats/ucd/write_ucd.py:UCDWriter.write': 'writer',
    'femio/util/string_parser.py:StringSeries.read_file+read_files': 'file_layer'}


def translate(repo, degrade=False):
    """degrade=False: fail closed (TranslateError).  degrade=True: a region that cannot be read is
    replaced by its BASELINE model and reported in the third component [(region, reason), ...]."""
    cfg, consumed, degraded = {}, {}, []

    def region(key, f, fill):
        try:
            fill(*f(repo))
        except (TranslateError, SyntaxError, OSError, RecursionError) as e:
            if not degrade:
                raise e if isinstance(e, TranslateError) else TranslateError(str(e))
            degraded.append((key, f'{type(e).__name__}: {e}'))
            for k in fill.keys:
                cfg[k] = BASELINE[k]

    def fill_et(et, sha):
        cfg['element_types'] = et
        consumed['femio/fem_elemental_attribute.py:ELEMENT_TYPES'] = sha
    fill_et.keys = ['element_types']

    def fill_modes(modes, sha):
        cfg.update(modes)
        consumed['femio/formats/ucd/write_ucd.py:UCDWriter.write'] = sha
    fill_modes.keys = ['nodal_by_id', 'elemental_by_id']

    def fill_fl(sha):
        cfg['reads_file_every_call'] = True
        consumed['femio/util/string_parser.py:StringSeries.read_file+read_files'] = sha
    fill_fl.keys = ['reads_file_every_call']

    region('femio/fem_elemental_attribute.py:ELEMENT_TYPES', element_types, fill_et)
    region('femio/formats/ucd/write_ucd.py:UCDWriter.write', writer_modes, fill_modes)
    region('femio/util/string_parser.py:StringSeries.read_file+read_files', lambda r: (file_layer(r),), fill_fl)
    if degrade:
        return cfg, consumed, degraded
    return cfg, consumed


def emit(cfg):
    def cs(s):
        assert all(32 <= ord(c) < 127 and c != '"' for c in s), s
        return f'S "{s}"'
    b = lambda x: 'true' if x else 'false'
    return (
        '(* generated by translate/c04_cfg.py from the tree under test; do not edit *)\n'
        'From Coq Require Import String List.\nImport ListNotations.\n'
        'From FV.C04 Require Import Text Model.\nOpen Scope string_scope.\n'
        'Definition element_types : list str :=\n  [' + '; '.join(cs(t) for t in cfg['element_types']) + '].\n'
        f"Definition cfg : wcfg := {{| nodal_by_id := {b(cfg['nodal_by_id'])}; "
        f"elemental_by_id := {b(cfg['elemental_by_id'])} |}}.\n"
        '(* StringSeries.read_file / read_files have the recognised bodies: the file is read on every call *)\n'
        f"Definition reads_file_every_call : bool := {b(cfg.get('reads_file_every_call', False))}.\n")


if __name__ == '__main__':
    import sys
    c, s, dg = translate(sys.argv[1] if len(sys.argv) > 1 else '/repo', degrade=True)
    print(c)
    print('degraded:', dg)
    print(emit(c))
