"""C08 — read from FEMElementalAttribute._unique_element_ids how the ids of a
block are shifted: in place on the array `block.ids` returns
(`self[t].ids += offset`: works only where that array is writable - it is not
under pandas 3) or by assigning a new array (`self[t].ids = self[t].ids +
offset`: works everywhere).  Result: 'inplace' | 'assign'.  The body must be
the registered loop (offset = 0; for t in self.keys(): <shift>; offset +=
len(self[t])); anything else raises TranslateError and the harness falls back
to probing the environment only (tie H for this decision)."""
import ast
from pathlib import Path


class TranslateError(Exception):
    pass


def translate(repo):
    src = (Path(repo) / 'femio' / 'fem_elemental_attribute.py').read_text()
    tree = ast.parse(src)
    cls = [n for n in tree.body if isinstance(n, ast.ClassDef) and n.name == 'FEMElementalAttribute']
    if len(cls) != 1:
        raise TranslateError('class FEMElementalAttribute not found exactly once')
    fns = [n for n in cls[0].body if isinstance(n, ast.FunctionDef) and n.name == '_unique_element_ids']
    if len(fns) != 1:
        raise TranslateError('_unique_element_ids not found exactly once')
    body = [s for s in fns[0].body if not (isinstance(s, ast.Expr) and isinstance(s.value, ast.Constant))]
    if body and isinstance(body[-1], ast.Return) and body[-1].value is None:
        body = body[:-1]
    if len(body) != 2 or ast.dump(body[0]) != ast.dump(ast.parse('offset = 0').body[0]) \
            or not isinstance(body[1], ast.For):
        raise TranslateError('_unique_element_ids: unrecognised body')
    loop = body[1]
    if not isinstance(loop.target, ast.Name) or ast.dump(loop.iter) != ast.dump(ast.parse('self.keys()').body[0].value) \
            or loop.orelse or len(loop.body) != 2:
        raise TranslateError('_unique_element_ids: unrecognised loop')
    t = loop.target.id
    if ast.dump(loop.body[1]) != ast.dump(ast.parse(f'offset += len(self[{t}])').body[0]):
        raise TranslateError('_unique_element_ids: unrecognised offset update')
    sh = ast.dump(loop.body[0])
    if sh == ast.dump(ast.parse(f'self[{t}].ids += offset').body[0]):
        return 'inplace'
    if sh in (ast.dump(ast.parse(f'self[{t}].ids = self[{t}].ids + offset').body[0]),
              ast.dump(ast.parse(f'self[{t}].ids = offset + self[{t}].ids').body[0])):
        return 'assign'
    raise TranslateError('_unique_element_ids: unrecognised shift statement')


if __name__ == '__main__':
    import sys
    print(translate(sys.argv[1] if len(sys.argv) > 1 else '/repo'))
