"""Fail-closed translator for C19: the inventory of memo caches, in-mesh result
slots, in-place modifiers, writers and derivations of femio's FEMData, emitted
as coq/C19/gen/CacheCfg.v (a `config` of coq/C19/Model.v).

What is read from the source (Python ast, nothing is executed):
  * universe = methods of FEMData and its mixins (first definition in MRO order)
  * per method, by walking its body:
      - reads / writes of mesh fields: self.nodes, self.elements (and the
        id->index dicts) = core; self.nodal_data / self.elemental_data with the
        literal key when the access names one ('k' in T, T['k'],
        T.get_attribute_data('k'), T.update({'k': ..}), T.update_data(ids,
        {'k': ..}), T.pop('k'), del T['k']), else the whole table; any other
        self.<attr> is a table of its own;  local aliases `x = self.a.b` are
        followed (x[...] = v, x.update(..) count as writes of a)
      - calls self.m(...) of universe methods (edges of the call graph), with
        whether the call passes the by-pass argument of a slot query
      - decorators functools.lru_cache / lru_cache (maxsize literal)
      - the slot idiom  `if <arg> is None: if 'k' in self.elemental_data:
        return ...get_attribute_data('k')...`  -> slot k, its by-pass argument,
        the arguments tested on the way (slot key), and by def-use the
        arguments that can influence the returned value (relevant)
      - `self.m.cache_clear()` -> clears m;  T.pop('k') / del T['k'] on a slot
        key -> clears that slot
      - FEMData(...) constructor calls -> derivation; shares the slot table
        when elemental_data=<self.elemental_data> is passed
  * writers: the classes FEMData.write instantiates with `self`, analysed with
    self.fem_data as the mesh; plus meshio export through self.to_meshio()
  * `FEMElementalAttribute.data` setter = the connectivity assignment modifier
reads/writes are closed over the call graph.  Anything outside these forms
(getattr on the mesh, the mesh escaping into an unknown call, recursion
between different methods, an unknown decorator mentioning `cache`) raises
TranslateError: the tie is broken, never guessed.
"""
import ast
import hashlib
from pathlib import Path


class TranslateError(Exception):
    pass


CORE_ATTR = {'nodes': 'nodes', 'elements': 'elements',
             'dict_node_id2index': 'nodes', 'dict_element_id2index': 'elements'}
VAR_TABLES = ('nodal_data', 'elemental_data')
# methods of femio's attribute containers that change the container
MUTATORS = {'update', 'update_data', 'overwrite', 'pop', 'reset', 'set_attribute_data',
            'update_time_series', 'setdefault', 'clear', 'append', 'extend', 'popitem',
            '__setitem__', '__delitem__', 'sort', 'fill', 'resize', 'itemset', 'put',
            'partition', 'setfield', 'setdiag', 'eliminate_zeros', 'sum_duplicates', 'sort_indices',
            'prune', 'setflags'}
ARRAY_MUTATORS = {'sort', 'fill', 'resize', 'itemset', 'put', 'partition', 'setfield', 'setdiag',
                  'eliminate_zeros', 'sum_duplicates', 'sort_indices', 'prune', 'setflags'}
# numpy functions that change their first argument in place
INPLACE_FUNCS = {'copyto', 'put', 'place', 'putmask', 'fill_diagonal', 'shuffle', 'put_along_axis'}
# wrappers whose result may share memory with their (first) argument / receiver
VIEW_FUNCS = {'asarray', 'asanyarray', 'ascontiguousarray', 'atleast_1d', 'atleast_2d', 'squeeze', 'ravel',
              'reshape', 'transpose', 'csr_matrix', 'csc_matrix', 'coo_matrix'}
VIEW_METHODS = {'view', 'reshape', 'ravel', 'squeeze', 'transpose', 'tocsr', 'tocoo', 'tocsc'}
VIEW_ATTRS = {'T', 'data', 'flat', 'real', 'imag', 'indices', 'indptr', 'values', 'loc', 'iloc'}
KEYED_READERS = {'get_attribute_data', 'get_attribute_ids', 'get_data_length',
                 'get_attribute_id2index', 'get_attribute_time_series', 'get'}
MESH_CLASSES = ['FEMData', 'GraphProcessorMixin', 'GeometryProcessorMixin',
                'SignalProcessorMixin']
MESH_FILES = ['femio/fem_data.py', 'femio/graph_processor.py', 'femio/geometry_processor.py',
              'femio/signal_processor.py']


def sha(b):
    return hashlib.sha256(b if isinstance(b, bytes) else b.encode()).hexdigest()


def parents_of(tree):
    par = {}
    for n in ast.walk(tree):
        for c in ast.iter_child_nodes(n):
            par[c] = n
    return par


class Facts:
    def __init__(self, name):
        self.name = name
        self.reads = set()      # (table, key|None)
        self.writes = set()
        self.inplace = set()    # subset of writes: stored arrays / containers changed in place
        self.calls = []         # (callee, bypass: bool, lineno)
        self.clears = set()     # method names
        self.clears_all = False # the "for name in dir(type(self)): ... .cache_clear()" idiom
        self.slot_pops = set()  # literal keys removed from elemental_data
        self.lru = None         # ('n', int) | ('inf',) | None
        self.slot = None        # (slotname, bypass_arg, key_args, relevant_args)
        self.args = []
        self.ctor = None        # {'shares': bool} when the body builds a FEMData
        self.lineno = 0


def const_str(n):
    return n.value if isinstance(n, ast.Constant) and isinstance(n.value, str) else None


def dict_keys(n):
    """literal keys of a dict display, or None when not all are literal"""
    if isinstance(n, ast.Dict) and n.keys and all(k is not None and const_str(k) is not None for k in n.keys):
        return [const_str(k) for k in n.keys]
    return None


class Analyzer:
    """analyses one function body; `is_root(expr)` says whether expr denotes the mesh"""

    def __init__(self, fn, universe, root_kind, where, siblings=None, mut=None, mut_universe=None):
        self.fn = fn
        self.universe = universe
        # methods reached as self.<m>(...) / <mesh>.<m>(...) and the parameters they change in place
        self.siblings = siblings if siblings is not None else (universe if root_kind == 'self' else {})
        self.mut = mut or {}
        self.mut_universe = mut_universe if mut_universe is not None else (self.mut if root_kind == 'self' else {})
        self.root_kind = root_kind      # 'self' | 'self.fem_data'
        self.where = where
        self.par = parents_of(fn)
        self.facts = Facts(fn.name)
        self.facts.lineno = fn.lineno
        self.alias = {}                 # local name -> set of ('root',) | ('field', table, key)
        self.param_copies = {}          # local name -> parameter it copies (x = param)
        a_ = fn.args
        params_ = {x.arg for x in a_.posonlyargs + a_.args + a_.kwonlyargs}
        for n_ in ast.walk(fn):
            if isinstance(n_, ast.Assign) and len(n_.targets) == 1 and isinstance(n_.targets[0], ast.Name) \
                    and isinstance(n_.value, ast.Name) and n_.value.id in params_:
                self.param_copies[n_.targets[0].id] = n_.value.id
        self.loop_consts = {}           # loop variable -> literal strings it ranges over
        for n_ in ast.walk(fn):
            if isinstance(n_, ast.For) and isinstance(n_.target, ast.Name) and \
                    isinstance(n_.iter, (ast.Tuple, ast.List)) and n_.iter.elts and \
                    all(const_str(x) is not None for x in n_.iter.elts):
                self.loop_consts[n_.target.id] = [const_str(x) for x in n_.iter.elts]
        self.view_aliases = set()       # names bound to a computed value / element of a field
        self.child_names = set()        # names bound to FEMData(...) results
        self.child_shared = set()       # tables the child shares with the parent

    def err(self, node, msg):
        raise TranslateError(f'{self.where}:{getattr(node, "lineno", "?")}: {self.fn.name}: {msg}')

    def key_of(self, e):
        """literal key, or '?<param>' when the key is a parameter of the method"""
        k = const_str(e)
        if k is not None:
            return k
        if isinstance(e, ast.Name):
            if e.id in self.loop_consts:
                return tuple(self.loop_consts[e.id])      # several literal keys
            a = self.fn.args
            params = {x.arg for x in a.posonlyargs + a.args + a.kwonlyargs}
            if e.id in params:
                return '?' + e.id
            src = self.param_copies.get(e.id)
            if src is not None:
                return '?' + src
        return None

    @staticmethod
    def expand(k):
        return list(k) if isinstance(k, tuple) else [k]

    def dict_keys(self, n):
        """keys of a dict display (literal or '?param'), or None when one is neither"""
        if isinstance(n, ast.Dict) and n.keys and all(k is not None and self.key_of(k) is not None
                                                      for k in n.keys):
            out = []
            for k in n.keys:
                out += self.expand(self.key_of(k))
            return out
        return None

    # ---- what does an expression denote
    def is_root(self, e):
        if self.root_kind == 'self':
            if isinstance(e, ast.Name) and e.id == 'self':
                return True
        else:
            if isinstance(e, ast.Attribute) and e.attr == 'fem_data' and \
                    isinstance(e.value, ast.Name) and e.value.id == 'self':
                return True
        if isinstance(e, ast.Name) and ('root',) in self.alias.get(e.id, ()):
            return True
        return False

    def denotes(self, e):
        """set of ('field', table, key|None) an access chain may denote; empty if none"""
        out = set()
        if isinstance(e, ast.Name):
            for a in self.alias.get(e.id, ()):
                if a[0] == 'field':
                    out.add(a)
            return out
        if isinstance(e, ast.Attribute):
            if self.is_root(e.value):
                if e.attr in self.universe:
                    return out
                t = CORE_ATTR.get(e.attr, e.attr)
                out.add(('field', t, None))
                return out
            if isinstance(e.value, ast.Name) and e.value.id in self.child_names and \
                    e.attr in self.child_shared:
                out.add(('field', e.attr, None))
                return out
            return self.denotes(e.value)
        if isinstance(e, ast.Subscript):
            base = self.denotes(e.value)
            res = set()
            for k in self.expand(self.key_of(e.slice)):
                for (_, t, key) in base:
                    if t not in ('nodes', 'elements') and key is None and k is not None:
                        res.add(('field', t, k))
                    else:
                        res.add(('field', t, key))
            return res
        if isinstance(e, ast.Call):
            # value of a reader call on a table keeps denoting the table entry
            if isinstance(e.func, ast.Attribute) and e.func.attr in KEYED_READERS:
                base = self.denotes(e.func.value)
                ks = self.expand(self.key_of(e.args[0]) if e.args else None)
                return {('field', t, (k if (t not in ('nodes', 'elements') and key is None) else key))
                        for (_, t, key) in base for k in ks}
            # wrappers whose result may share memory with the stored array
            f = e.func
            if isinstance(f, ast.Attribute) and (f.attr in VIEW_METHODS or (f.attr == 'astype' and _copy_false(e))):
                return self.denotes(f.value)
            fname = f.attr if isinstance(f, ast.Attribute) else (f.id if isinstance(f, ast.Name) else '')
            if e.args and (fname in VIEW_FUNCS or (fname == 'array' and _copy_false(e))) and \
                    not (isinstance(f, ast.Attribute) and self.denotes(f.value)):
                return self.denotes(e.args[0])
            return out
        if isinstance(e, ast.IfExp):
            return self.denotes(e.body) | self.denotes(e.orelse)
        return out

    # ---- passes
    def collect_aliases(self):
        changed = True
        n_iter = 0
        while changed and n_iter < 10:
            changed = False
            n_iter += 1
            for n in ast.walk(self.fn):
                if isinstance(n, ast.Assign) and len(n.targets) == 1 and isinstance(n.targets[0], ast.Name):
                    nm = n.targets[0].id
                    vals = set()
                    if self.is_root(n.value):
                        vals.add(('root',))
                    vals |= self.denotes(n.value)
                    if isinstance(n.value, (ast.Subscript, ast.Call, ast.Dict, ast.DictComp)):
                        self.view_aliases.add(nm)
                    if isinstance(n.value, ast.Call) and isinstance(n.value.func, ast.Name) \
                            and n.value.func.id == 'FEMData':
                        if nm not in self.child_names:
                            self.child_names.add(nm)
                            changed = True
                    if vals - self.alias.get(nm, set()):
                        self.alias.setdefault(nm, set()).update(vals)
                        changed = True
            # elements of a loop over a field (for k, e in self.elements.items(): ...)
            for tgt, it in _all_loops(self.fn):
                for nm, src in _loop_bindings(tgt, it):
                    vals = {(f_, t_, None if t_ in ('nodes', 'elements') else k_) for (f_, t_, k_) in self.denotes(src)}
                    if vals:
                        self.view_aliases.add(nm)
                    if vals - self.alias.get(nm, set()):
                        self.alias.setdefault(nm, set()).update(vals)
                        changed = True

    def ctor_calls(self):
        for n in ast.walk(self.fn):
            if isinstance(n, ast.Call) and isinstance(n.func, ast.Name) and n.func.id == 'FEMData':
                shares = False
                for kw in n.keywords:
                    if kw.arg in VAR_TABLES:
                        d = self.denotes(kw.value)
                        if any(t == kw.arg for (_, t, _) in d):
                            self.child_shared.add(kw.arg)
                            if kw.arg == 'elemental_data':
                                shares = True
                for i, a in enumerate(n.args):
                    if self.denotes(a) and i >= 2:
                        self.err(n, 'positional table argument to FEMData(...)')
                if self.facts.ctor is None:
                    self.facts.ctor = {'shares': shares, 'tables': set()}
                else:
                    self.facts.ctor['shares'] = self.facts.ctor['shares'] or shares
                self.facts.ctor['tables'] |= set(self.child_shared)

    def decorators(self):
        for d in self.fn.decorator_list:
            src = ast.dump(d)
            f = d.func if isinstance(d, ast.Call) else d
            nm = f.attr if isinstance(f, ast.Attribute) else (f.id if isinstance(f, ast.Name) else '')
            if nm == 'lru_cache':
                if isinstance(d, ast.Call):
                    ms = None
                    got = False
                    for kw in d.keywords:
                        if kw.arg == 'maxsize':
                            ms, got = kw.value, True
                    if d.args:
                        ms, got = d.args[0], True
                    if not got:
                        self.facts.lru = ('n', 128)
                    elif isinstance(ms, ast.Constant) and ms.value is None:
                        self.facts.lru = ('inf',)
                    elif isinstance(ms, ast.Constant) and isinstance(ms.value, int):
                        self.facts.lru = ('n', ms.value)
                    else:
                        self.err(d, 'lru_cache maxsize is not a literal')
                else:
                    self.facts.lru = ('n', 128)
            elif nm == 'cache' or nm == 'cached_property':
                self.facts.lru = ('inf',)
            elif nm in ('classmethod', 'staticmethod', 'njit', 'jit', 'property', 'abstractmethod'):
                pass
            elif 'cache' in src.lower() or 'memo' in src.lower():
                self.err(d, 'unknown memoising decorator')
            else:
                self.err(d, f'unknown decorator {nm}')

    @staticmethod
    def stored_array(d):
        """core arrays, or one named variable (not a table as a container)"""
        return {x for x in d if x[1] in ('nodes', 'elements') or x[2] is not None}

    def callee_of(self, call):
        """(FunctionDef, mutated parameter set) of a call to a sibling / mesh method, else None"""
        f = call.func
        if not isinstance(f, ast.Attribute):
            return None
        if self.is_root(f.value) and f.attr in self.universe:
            return self.universe[f.attr], self.mut_universe.get(f.attr, set())
        if isinstance(f.value, ast.Name) and f.value.id == 'self' and f.attr in self.siblings:
            return self.siblings[f.attr], self.mut.get(f.attr, set())
        return None

    def inplace_use(self, n, p):
        """the value n (which denotes stored data of the mesh) is changed in place here, in a way
        the plain store / mutator rules do not see: handed to a method that changes that
        parameter in place, `out=n`, first argument of an in-place numpy function"""
        if isinstance(p, ast.keyword):
            call = self.par.get(p)
            if p.arg == 'out':
                return True
            if isinstance(call, ast.Call):
                c = self.callee_of(call)
                if c is not None and p.arg in c[1]:
                    return True
            return False
        if isinstance(p, ast.Tuple) and isinstance(self.par.get(p), ast.keyword) and self.par.get(p).arg == 'out':
            return True
        if isinstance(p, ast.Call) and n in p.args:
            f = p.func
            fname = f.attr if isinstance(f, ast.Attribute) else (f.id if isinstance(f, ast.Name) else '')
            if fname in INPLACE_FUNCS and p.args[0] is n:
                return True
            c = self.callee_of(p)
            if c is not None:
                prm = call_param_of(p, n, c[0])
                if prm is not None and prm in c[1]:
                    return True
        return False

    def add(self, kind, den):
        tgt = self.facts.reads if kind == 'r' else (self.facts.writes if kind == 'w' else self.facts.inplace)
        for (_, t, k) in den:
            tgt.add((t, k))

    def accesses(self):
        F = self.facts
        a = self.fn.args
        F.args = [x.arg for x in a.posonlyargs + a.args + a.kwonlyargs if x.arg != 'self']
        if a.vararg or a.kwarg:
            F.args.append('*')
        ignored = set()
        for n in ast.walk(self.fn):
            if isinstance(n, ast.Assert) and n.msg is not None:
                ignored |= set(ast.walk(n.msg))
            if isinstance(n, ast.Raise) and n.exc is not None:
                ignored |= set(ast.walk(n.exc))
        for n in ast.walk(self.fn):
            if n in ignored and not self.is_root(n):
                continue
            # --- the mesh itself
            if self.is_root(n) and not (isinstance(n, ast.Name) and isinstance(n.ctx, ast.Store)):
                p = self.par.get(n)
                if isinstance(p, ast.Attribute) and p.value is n:
                    if p.attr in self.universe:
                        self.method_ref(p)
                    continue
                if self.root_kind == 'self.fem_data' and isinstance(n, ast.Attribute):
                    # `self.fem_data = fem_data` in __init__ / comparison etc.
                    if isinstance(n.ctx, ast.Store):
                        continue
                if isinstance(p, ast.Return) or isinstance(p, ast.Assign) and n is p.value \
                        and all(isinstance(t, ast.Name) for t in p.targets):
                    continue            # `return self`, `x = self` (alias, handled)
                if isinstance(p, ast.Call) and isinstance(p.func, ast.Name) and p.func.id in \
                        ('isinstance', 'type', 'id', 'print', 'len', 'hasattr'):
                    continue
                if isinstance(p, ast.Call) and isinstance(p.func, ast.Name) and p.func.id.endswith('Writer'):
                    F.calls.append(('@writer:' + p.func.id, False, None))
                    continue
                if isinstance(p, ast.Compare):
                    continue
                if isinstance(p, ast.Call) and isinstance(p.func, ast.Name) and p.func.id == 'getattr':
                    self.err(n, 'getattr on the mesh object')
                self.err(n, 'the mesh object escapes (' + type(p).__name__ + ')')
            # --- fields
            if isinstance(n, ast.Call):
                den = self.stored_array(self.denotes(n))
                if den and self.inplace_use(n, self.par.get(n)):
                    self.add('w', den)
                    self.add('r', den)
                    self.add('i', den)
                continue
            if isinstance(n, (ast.Attribute, ast.Subscript, ast.Name)):
                den = self.denotes(n)
                if not den:
                    continue
                p = self.par.get(n)
                # (only stored arrays - core data or one named variable: a table handed to a helper
                # as a container is a keyed store the helper's own analysis does not resolve)
                arr = self.stored_array(den)
                if arr and not (isinstance(n, ast.Name) and isinstance(n.ctx, ast.Store)) and self.inplace_use(n, p):
                    self.add('w', arr)
                    self.add('r', arr)
                    self.add('i', arr)
                    continue
                if isinstance(n, ast.Attribute) and isinstance(p, ast.Call) and p.func is n \
                        and self.denotes(n.value):
                    continue            # the method name of a call on a field: see the receiver
                # only the outermost node of a chain is classified
                if isinstance(p, (ast.Attribute, ast.Subscript)) and p.value is n and self.denotes(p):
                    gp = self.par.get(p)
                    is_method_call = isinstance(p, ast.Attribute) and isinstance(gp, ast.Call) \
                        and gp.func is p
                    if not is_method_call:
                        continue
                if isinstance(n, ast.Name) and isinstance(n.ctx, ast.Store):
                    continue
                self.classify(n, p, den)

    def method_ref(self, attr_node):
        F = self.facts
        p = self.par.get(attr_node)
        m = attr_node.attr
        if isinstance(p, ast.Attribute) and p.value is attr_node:
            if p.attr == 'cache_clear':
                F.clears.add(m)
                return
            if p.attr in ('cache_info', '__wrapped__', '__name__', '__doc__'):
                F.calls.append((m, False, None))
                return
            self.err(attr_node, f'attribute {p.attr} of method {m}')
        bypass = False
        if isinstance(p, ast.Call) and p.func is attr_node:
            bypass = any(kw.arg == 'elements' for kw in p.keywords)
            ca = self.universe[m].args
            pos = [x.arg for x in ca.posonlyargs + ca.args if x.arg != 'self']
            if 'elements' in pos and len(p.args) > pos.index('elements'):
                bypass = True
        F.calls.append((m, bypass, p if isinstance(p, ast.Call) and p.func is attr_node else None))

    def classify(self, n, p, den):
        ctx = getattr(n, 'ctx', None)
        stored_array = self.stored_array
        if isinstance(ctx, (ast.Store, ast.Del)):
            self.add('w', den)
            if isinstance(n, ast.Subscript) and isinstance(ctx, ast.Store):
                self.add('i', stored_array(self.denotes(n.value)))   # x[...] = v on a stored array
            if isinstance(ctx, ast.Del):
                for (_, t, k) in den:
                    if t == 'elemental_data' and k is not None:
                        self.facts.slot_pops.add(k)
            return
        if isinstance(p, ast.AugAssign) and p.target is n:
            self.add('w', den)
            self.add('r', den)
            self.add('i', stored_array(den))
            return
        if isinstance(p, ast.Attribute) and p.value is n:
            # n.<something>: attribute store, mutator call, keyed reader, other
            if isinstance(p.ctx, (ast.Store, ast.Del)):
                self.add('w', den)
                return
            gp = self.par.get(p)
            if isinstance(gp, ast.AugAssign) and gp.target is p:
                self.add('w', den)
                self.add('r', den)
                return
            if isinstance(gp, ast.Subscript) and gp.value is p and isinstance(gp.ctx, (ast.Store, ast.Del)):
                self.add('w', den)      # n.data[i] = v
                self.add('i', den)
                return
            if isinstance(gp, ast.Call) and gp.func is p:
                meth = p.attr
                if meth in MUTATORS and isinstance(n, ast.Name) and n.id in self.view_aliases \
                        and meth not in ARRAY_MUTATORS:
                    self.add('r', den)  # container method on a computed value: not the field itself
                    return
                if meth in ARRAY_MUTATORS:
                    self.add('i', den)
                if meth in MUTATORS:
                    keys = None
                    if meth in ('update', 'update_time_series') and gp.args:
                        keys = self.dict_keys(gp.args[0])
                    elif meth == 'update_data' and len(gp.args) >= 2:
                        keys = self.dict_keys(gp.args[1])
                    elif meth in ('overwrite', 'pop', 'set_attribute_data', 'setdefault', '__setitem__',
                                  '__delitem__') and gp.args:
                        k = self.key_of(gp.args[0])
                        keys = self.expand(k) if k is not None else None
                    for (_, t, key) in den:
                        if t not in ('nodes', 'elements') and key is None and keys is not None:
                            for k in keys:
                                self.facts.writes.add((t, k))
                                if meth in ('pop', '__delitem__') and t == 'elemental_data':
                                    self.facts.slot_pops.add(k)
                        else:
                            self.facts.writes.add((t, key))
                    return
                if meth in KEYED_READERS:
                    for k in self.expand(self.key_of(gp.args[0]) if gp.args else None):
                        for (_, t, key) in den:
                            self.facts.reads.add((t, k if (t not in ('nodes', 'elements') and key is None) else key))
                    return
            self.add('r', den)
            return
        if isinstance(p, ast.Compare) and n in p.comparators and len(p.ops) == 1 and \
                isinstance(p.ops[0], (ast.In, ast.NotIn)):
            for k in self.expand(self.key_of(p.left)):
                for (_, t, key) in den:
                    self.facts.reads.add((t, k if (t not in ('nodes', 'elements') and key is None) else key))
            return
        self.add('r', den)

    # ---- the slot idiom
    def slot_idiom(self):
        fn = self.fn
        for outer in fn.body:
            if not isinstance(outer, ast.If):
                continue
            t = outer.test
            byp = None
            if isinstance(t, ast.Compare) and isinstance(t.left, ast.Name) and len(t.ops) == 1 and \
                    isinstance(t.ops[0], ast.Is) and isinstance(t.comparators[0], ast.Constant) and \
                    t.comparators[0].value is None:
                byp = t.left.id
            for chain in self.inner_ifs(outer, []):
                tests, body = chain
                last = tests[-1]
                slot = None
                for c in ast.walk(last):
                    if isinstance(c, ast.Compare) and len(c.ops) == 1 and isinstance(c.ops[0], ast.In) and \
                            const_str(c.left) is not None and \
                            any(t2 == 'elemental_data' for (_, t2, _) in self.denotes(c.comparators[0])):
                        slot = const_str(c.left)
                if slot is None:
                    continue
                if not (len(body) >= 1 and isinstance(body[-1], ast.Return)):
                    continue
                if slot not in ast.dump(body[-1]):
                    continue
                names = set()
                for tt in tests:
                    for c in ast.walk(tt):
                        if isinstance(c, ast.Name):
                            names.add(c.id)
                key_args = sorted((names & set(self.facts.args)) - ({byp} if byp else set()))
                if self.facts.slot is not None:
                    self.err(outer, 'two slot idioms in one method')
                routing = set()
                if byp:
                    routing.add(byp)
                    for s in outer.body:
                        for c in ast.walk(s):
                            if isinstance(c, ast.Assign):
                                for tg in c.targets:
                                    if isinstance(tg, ast.Name) and tg.id in self.facts.args:
                                        routing.add(tg.id)
                rel = sorted(self.relevant_args() - routing)
                self.facts.slot = (slot, byp, key_args, rel)

    def inner_ifs(self, node, tests):
        """chains of nested If tests (first branch only) with the innermost body"""
        tests = tests + [node.test]
        yield (tests, node.body)
        for s in node.body:
            if isinstance(s, ast.If):
                yield from self.inner_ifs(s, tests)

    def relevant_args(self):
        """arguments that can influence the returned value / a raise (def-use fixpoint)"""
        R = set()
        fn = self.fn

        def names(e):
            """names an expression's value can depend on; a keyword handed to a mesh method
            counts only when that parameter can influence the callee's returned value"""
            out = set()

            def visit(n):
                if isinstance(n, ast.Name):
                    out.add(n.id)
                    return
                if isinstance(n, ast.Call) and isinstance(n.func, ast.Attribute) and \
                        self.is_root(n.func.value) and n.func.attr in self.universe:
                    rel = callee_relevant(self.universe, n.func.attr, self.where)
                    for x in n.args:
                        visit(x)
                    for kw in n.keywords:
                        if kw.arg is None or rel is None or kw.arg in rel:
                            visit(kw.value)
                    return
                for c in ast.iter_child_nodes(n):
                    visit(c)
            visit(e)
            return out

        def assigned(s):
            out = set()
            for c in ast.walk(s):
                if isinstance(c, (ast.Assign, ast.AugAssign, ast.AnnAssign)):
                    tgts = c.targets if isinstance(c, ast.Assign) else [c.target]
                    for tg in tgts:
                        for d in ast.walk(tg):
                            if isinstance(d, ast.Name):
                                out.add(d.id)
            return out

        changed = True
        while changed:
            changed = False
            before = len(R)
            for n in ast.walk(fn):
                if isinstance(n, ast.Return) and n.value is not None:
                    R |= names(n.value)
                elif isinstance(n, ast.Raise):
                    pass
                elif isinstance(n, (ast.Assign, ast.AugAssign, ast.AnnAssign)):
                    tgts = n.targets if isinstance(n, ast.Assign) else [n.target]
                    tn = set()
                    for tg in tgts:
                        tn |= names(tg)
                    if tn & R and n.value is not None:
                        R |= names(n.value)
                elif isinstance(n, (ast.If, ast.While, ast.For)):
                    inner = n.body + n.orelse
                    hit = False
                    for s in inner:
                        for c in ast.walk(s):
                            if isinstance(c, (ast.Return, ast.Raise)):
                                hit = True
                        if assigned(s) & R:
                            hit = True
                    if hit:
                        R |= names(n.test if not isinstance(n, ast.For) else n.iter)
            changed = len(R) != before
        return R & set(self.facts.args)

    def clear_all_idiom(self):
        """for name in dir(type(self)): m = getattr(type(self), name, ...); if hasattr(m,
        'cache_clear'): m.cache_clear()   -> every memoised method is cleared"""
        def is_type_of_root(e):
            return isinstance(e, ast.Call) and isinstance(e.func, ast.Name) and e.func.id == 'type' \
                and len(e.args) == 1 and self.is_root(e.args[0])
        for loop in ast.walk(self.fn):
            if not (isinstance(loop, ast.For) and isinstance(loop.target, ast.Name)):
                continue
            it = loop.iter
            if not (isinstance(it, ast.Call) and isinstance(it.func, ast.Name) and it.func.id == 'dir'
                    and len(it.args) == 1 and is_type_of_root(it.args[0])):
                continue
            var = loop.target.id
            bound = set()
            for n in ast.walk(loop):
                if isinstance(n, ast.Assign) and len(n.targets) == 1 and isinstance(n.targets[0], ast.Name) \
                        and isinstance(n.value, ast.Call) and isinstance(n.value.func, ast.Name) \
                        and n.value.func.id == 'getattr' and len(n.value.args) >= 2 \
                        and is_type_of_root(n.value.args[0]) and isinstance(n.value.args[1], ast.Name) \
                        and n.value.args[1].id == var:
                    bound.add(n.targets[0].id)
            for n in ast.walk(loop):
                if isinstance(n, ast.Call) and isinstance(n.func, ast.Attribute) and n.func.attr == 'cache_clear' \
                        and isinstance(n.func.value, ast.Name) and n.func.value.id in bound:
                    # the call must not be filtered by anything but hasattr(m, 'cache_clear')
                    p = self.par.get(self.par.get(n))
                    ok = isinstance(p, ast.If) and isinstance(p.test, ast.Call) and \
                        isinstance(p.test.func, ast.Name) and p.test.func.id == 'hasattr' and \
                        len(p.test.args) == 2 and const_str(p.test.args[1]) == 'cache_clear'
                    if ok or isinstance(p, ast.For):
                        self.facts.clears_all = True
                    else:
                        self.err(n, 'cache_clear() under a condition that is not understood')

    def run(self):
        self.decorators()
        self.clear_all_idiom()
        self.collect_aliases()
        self.ctor_calls()
        self.collect_aliases()
        self.accesses()
        self.slot_idiom()
        return self.facts


# ---- parameters a method changes in place ------------------------------------------------
def _fn_params(fn):
    a = fn.args
    return [x.arg for x in a.posonlyargs + a.args + a.kwonlyargs if x.arg != 'self']


def _view_root(e, alias):
    """the parameter whose storage the value of e may share (through views), else None"""
    if isinstance(e, ast.Name):
        return alias.get(e.id)
    if isinstance(e, ast.Attribute):
        # an attribute of an object handed in (elements.data, attr.ids, ...) belongs to it
        return _view_root(e.value, alias)
    if isinstance(e, ast.Subscript):
        return _view_root(e.value, alias)
    if isinstance(e, ast.Starred):
        return _view_root(e.value, alias)
    if isinstance(e, ast.IfExp):
        return _view_root(e.body, alias) or _view_root(e.orelse, alias)
    if isinstance(e, ast.Call):
        f = e.func
        if isinstance(f, ast.Attribute) and (f.attr in VIEW_METHODS or f.attr in KEYED_READERS or
                                             (f.attr == 'astype' and _copy_false(e))):
            return _view_root(f.value, alias)
        fname = f.attr if isinstance(f, ast.Attribute) else (f.id if isinstance(f, ast.Name) else '')
        if e.args and (fname in VIEW_FUNCS or (fname == 'array' and _copy_false(e))):
            return _view_root(e.args[0], alias)
    return None


def _loop_bindings(target, it):
    """(name, expression it is an element of) for the targets of `for target in it`"""
    out = []
    if isinstance(it, ast.Call) and isinstance(it.func, ast.Attribute) and it.func.attr in ('items', 'values') \
            and not it.args:
        src = it.func.value
        if it.func.attr == 'items' and isinstance(target, (ast.Tuple, ast.List)) and len(target.elts) == 2:
            target = target.elts[1]
        elif it.func.attr == 'items':
            return out
        if isinstance(target, ast.Name):
            out.append((target.id, src))
        return out
    if isinstance(it, ast.Call) and isinstance(it.func, ast.Attribute) and it.func.attr == 'keys':
        return out
    if isinstance(it, ast.Call) and isinstance(it.func, ast.Name) and it.func.id == 'enumerate' and it.args \
            and isinstance(target, (ast.Tuple, ast.List)) and len(target.elts) == 2:
        return _loop_bindings(target.elts[1], it.args[0])
    if isinstance(it, ast.Call) and isinstance(it.func, ast.Name) and it.func.id == 'zip' \
            and isinstance(target, (ast.Tuple, ast.List)) and len(target.elts) == len(it.args):
        for t, a in zip(target.elts, it.args):
            out += _loop_bindings(t, a)
        return out
    if isinstance(target, ast.Name) and not isinstance(it, ast.Call):
        out.append((target.id, it))
    return out


def _all_loops(fn):
    for n in ast.walk(fn):
        if isinstance(n, ast.For):
            yield n.target, n.iter
        elif isinstance(n, ast.comprehension):
            yield n.target, n.iter


def call_param_of(call, arg_node, callee_fn):
    """name of the callee parameter that receives arg_node at this call, else None"""
    if callee_fn is None:
        return None
    a = callee_fn.args
    pos = [x.arg for x in a.posonlyargs + a.args if x.arg != 'self']
    for i, x in enumerate(call.args):
        if x is arg_node:
            if any(isinstance(y, ast.Starred) for y in call.args[:i + 1]):
                return None
            return pos[i] if i < len(pos) else None
    for kw in call.keywords:
        if kw.value is arg_node:
            return kw.arg
    return None


def mutated_params(fns):
    """for every method: the parameters whose storage it may change in place - subscript /
    attribute stores, augmented assignments, in-place array and container methods, `out=`,
    numpy's in-place functions, applied to the parameter or to a view of it (an alias, an
    attribute such as .data, a slice, asarray / reshape / ..., an element of a loop over it),
    or the parameter handed on to a sibling method that does so.  A copy (`.copy()`,
    `np.array(x)`, arithmetic) ends the chain."""
    info = {}
    for nm, fn in fns.items():
        alias = {p: p for p in _fn_params(fn)}
        changed = True
        while changed:
            changed = False
            for n in ast.walk(fn):
                if isinstance(n, ast.Assign) and len(n.targets) == 1 and isinstance(n.targets[0], ast.Name):
                    r = _view_root(n.value, alias)
                    if r is not None and n.targets[0].id not in alias:
                        alias[n.targets[0].id] = r
                        changed = True
            for tgt, it in _all_loops(fn):
                for name, src in _loop_bindings(tgt, it):
                    r = _view_root(src, alias)
                    if r is not None and name not in alias:
                        alias[name] = r
                        changed = True
        info[nm] = alias
    mut = {nm: set() for nm in fns}
    # a name rebound to a fresh value by a top-level statement of the body (x = x.copy()) no
    # longer shares the parameter's storage in the statements after it
    kill = {}
    for nm, fn in fns.items():
        kill[nm] = {}
        for st in fn.body:
            if isinstance(st, ast.Assign) and len(st.targets) == 1 and isinstance(st.targets[0], ast.Name) \
                    and st.targets[0].id in info[nm] and _view_root(st.value, info[nm]) is None:
                kill[nm].setdefault(st.targets[0].id, st.end_lineno or st.lineno)

    def _base_name(e):
        while isinstance(e, (ast.Attribute, ast.Subscript, ast.Starred)):
            e = e.value
        return e.id if isinstance(e, ast.Name) else None
    changed = True
    while changed:
        changed = False
        for nm, fn in fns.items():
            alias = info[nm]

            def hit(e, _nm=nm, _alias=alias):
                b = _base_name(e)
                if b is not None and b in kill[_nm] and getattr(e, 'lineno', 0) > kill[_nm][b]:
                    return False
                r = _view_root(e, alias)
                if r is not None and r not in mut[nm]:
                    mut[nm].add(r)
                    return True
                return False
            for n in ast.walk(fn):
                if isinstance(n, (ast.Assign, ast.AnnAssign, ast.Delete)):
                    tg = n.targets if isinstance(n, (ast.Assign, ast.Delete)) else [n.target]
                    for t in tg:
                        for t2 in (t.elts if isinstance(t, (ast.Tuple, ast.List)) else [t]):
                            if isinstance(t2, (ast.Subscript, ast.Attribute)):
                                changed |= hit(t2.value)
                elif isinstance(n, ast.AugAssign):
                    changed |= hit(n.target if isinstance(n.target, ast.Name) else n.target.value)
                elif isinstance(n, ast.Call):
                    f = n.func
                    if isinstance(f, ast.Attribute) and f.attr in MUTATORS:
                        changed |= hit(f.value)
                    fname = f.attr if isinstance(f, ast.Attribute) else (f.id if isinstance(f, ast.Name) else '')
                    if fname in INPLACE_FUNCS and n.args:
                        changed |= hit(n.args[0])
                    for kw in n.keywords:
                        if kw.arg == 'out':
                            for x in (kw.value.elts if isinstance(kw.value, ast.Tuple) else [kw.value]):
                                changed |= hit(x)
                    if isinstance(f, ast.Attribute) and isinstance(f.value, ast.Name) and f.value.id == 'self' \
                            and f.attr in fns and f.attr != nm:
                        for x in list(n.args) + [kw.value for kw in n.keywords]:
                            prm = call_param_of(n, x, fns[f.attr])
                            if prm is not None and prm in mut[f.attr]:
                                changed |= hit(x)
    return mut


_REL_MEMO = {}
_REL_BUSY = set()


def callee_relevant(universe, name, where):
    """parameters of a mesh method that can influence its returned value, or None (unknown)"""
    key = (id(universe), name)
    if key in _REL_MEMO:
        return _REL_MEMO[key]
    if key in _REL_BUSY or len(_REL_BUSY) > 6:
        return None
    _REL_BUSY.add(key)
    try:
        a = Analyzer(universe[name], universe, 'self', where)
        fa = universe[name].args
        a.facts.args = [x.arg for x in fa.posonlyargs + fa.args + fa.kwonlyargs if x.arg != 'self']
        if fa.vararg or fa.kwarg:
            res = None
        else:
            res = a.relevant_args()
    finally:
        _REL_BUSY.discard(key)
    _REL_MEMO[key] = res
    return res


# ---- values obtained from memoised queries must not be changed in place ------------------
ALIAS_FUNCS = {'csr_matrix', 'csc_matrix', 'coo_matrix', 'lil_matrix', 'asarray', 'asanyarray',
               'ascontiguousarray', 'atleast_1d', 'atleast_2d', 'squeeze', 'ravel', 'reshape', 'transpose'}
ALIAS_METHODS = {'tocsr', 'tocoo', 'tocsc', 'asformat', 'view', 'reshape', 'ravel', 'squeeze', 'transpose'}
ALIAS_ATTRS = {'T', 'data', 'indices', 'indptr', 'real', 'imag', 'flat'}
INPLACE_METHODS = {'setdiag', 'eliminate_zeros', 'sum_duplicates', 'sort_indices', 'prune', 'resize',
                   'fill', 'sort', 'put', 'itemset', 'partition', 'setfield', 'append', 'extend',
                   'update', 'pop', 'clear', 'insert', 'remove', 'reverse'}


def _copy_false(call):
    return any(kw.arg == 'copy' and isinstance(kw.value, ast.Constant) and kw.value.value is False
               for kw in call.keywords)


def alias_root(e, tainted, cached, is_self):
    """name of the memoised-result source an expression may alias, else None"""
    if isinstance(e, ast.Name):
        return tainted.get(e.id)
    if isinstance(e, ast.Call):
        f = e.func
        if isinstance(f, ast.Attribute) and is_self(f.value) and f.attr in cached:
            return f.attr
        if isinstance(f, ast.Attribute) and (f.attr in ALIAS_METHODS or (f.attr == 'astype' and _copy_false(e))):
            return alias_root(f.value, tainted, cached, is_self)
        fname = f.attr if isinstance(f, ast.Attribute) else (f.id if isinstance(f, ast.Name) else '')
        if e.args and (fname in ALIAS_FUNCS or (fname == 'array' and _copy_false(e))):
            return alias_root(e.args[0], tainted, cached, is_self)
        return None
    if isinstance(e, ast.Attribute) and e.attr in ALIAS_ATTRS:
        return alias_root(e.value, tainted, cached, is_self)
    if isinstance(e, ast.Subscript):
        return alias_root(e.value, tainted, cached, is_self)
    if isinstance(e, ast.IfExp):
        return alias_root(e.body, tainted, cached, is_self) or alias_root(e.orelse, tainted, cached, is_self)
    if isinstance(e, ast.Starred):
        return alias_root(e.value, tainted, cached, is_self)
    return None


def taint_of(fn, cached):
    def is_self(x):
        return isinstance(x, ast.Name) and x.id == 'self'
    tainted = {}
    changed = True
    while changed:
        changed = False
        for n in ast.walk(fn):
            if isinstance(n, ast.Assign):
                src = alias_root(n.value, tainted, cached, is_self)
                if src is None:
                    continue
                for t in n.targets:
                    names = [t] if isinstance(t, ast.Name) else \
                        ([x for x in t.elts if isinstance(x, ast.Name)] if isinstance(t, (ast.Tuple, ast.List)) else [])
                    for x in names:
                        if x.id not in tainted:
                            tainted[x.id] = src
                            changed = True
    return tainted, is_self


def check_no_inplace_on_cached(universe, where, memoised):
    """fail closed on `x = self.<memoised>(...)` (possibly through a wrapper that may share the
    buffers) followed by an in-place change of x: the cache entry itself would change"""
    cached = set(memoised)
    changed = True
    while changed:                      # methods that hand a cached object on
        changed = False
        for nm, fn in universe.items():
            if nm in cached:
                continue
            tainted, is_self = taint_of(fn, cached)
            for n in ast.walk(fn):
                if isinstance(n, ast.Return) and n.value is not None and \
                        alias_root(n.value, tainted, cached, is_self):
                    cached.add(nm)
                    changed = True
                    break
    for nm, fn in universe.items():
        tainted, is_self = taint_of(fn, cached)

        def bad(node, src, what):
            raise TranslateError(f'{where.get(nm, "?")}:{node.lineno}: {nm}: {what} changes in place a value '
                                 f'obtained from the memoised query {src} (no copy in between): the cache '
                                 f'entry itself would change; not modelled')
        for n in ast.walk(fn):
            if isinstance(n, ast.Call) and isinstance(n.func, ast.Attribute) and n.func.attr in INPLACE_METHODS:
                src = alias_root(n.func.value, tainted, cached, is_self)
                if src:
                    bad(n, src, '.' + n.func.attr + '()')
            tgts = []
            if isinstance(n, ast.Assign):
                tgts = [t for t in n.targets if isinstance(t, (ast.Subscript, ast.Attribute))]
            elif isinstance(n, ast.AugAssign):
                tgts = [n.target]
            for t in tgts:
                base = t.value if isinstance(t, (ast.Subscript, ast.Attribute)) else t
                src = alias_root(base, tainted, cached, is_self)
                if src:
                    bad(n, src, 'an assignment')
    return sorted(cached)


def load_classes(repo, files):
    classes = {}
    srcs = {}
    for rel in files:
        p = Path(repo) / rel
        if not p.exists():
            raise TranslateError(f'{rel} not found')
        b = p.read_bytes()
        srcs[rel] = b
        tree = ast.parse(b.decode(), filename=rel)
        for n in tree.body:
            if isinstance(n, ast.ClassDef):
                classes[n.name] = (n, rel)
    return classes, srcs


def class_methods(cls):
    return {n.name: n for n in cls.body if isinstance(n, (ast.FunctionDef, ast.AsyncFunctionDef))}


def subst_params(pats, callee_fn, call):
    """instantiate '?param' keys of a callee's patterns at one call site"""
    out = set()
    a = callee_fn.args if callee_fn is not None else None
    for (t, k) in pats:
        if k is None or not k.startswith('?'):
            out.add((t, k))
            continue
        prm = k[1:]
        val = None
        found = False
        if call is not None and a is not None:
            pos = [x.arg for x in a.posonlyargs + a.args if x.arg != 'self']
            for kw in call.keywords:
                if kw.arg == prm:
                    val, found = kw.value, True
                if kw.arg is None:
                    found, val = True, None
            if not found and prm in pos and len(call.args) > pos.index(prm) and \
                    not any(isinstance(x, ast.Starred) for x in call.args):
                val, found = call.args[pos.index(prm)], True
            if not found:
                # default value
                dflt = {}
                n_def = len(a.defaults)
                for x, d in zip((a.posonlyargs + a.args)[len(a.posonlyargs + a.args) - n_def:], a.defaults):
                    dflt[x.arg] = d
                for x, d in zip(a.kwonlyargs, a.kw_defaults):
                    if d is not None:
                        dflt[x.arg] = d
                if prm in dflt:
                    val, found = dflt[prm], True
        c = const_str(val) if val is not None else None
        if found and c is not None:
            out.add((t, c))
        elif found and isinstance(val, ast.Constant) and val.value is None:
            pass                        # the parameter is None: no variable is named
        else:
            out.add((t, None))
    return out


def yields_nothing(fn):
    """the method returns no value and never raises by itself: what it reads cannot flow into
    the value (or the outcome) of its caller - only what it writes matters"""
    if fn is None:
        return False
    for n in ast.walk(fn):
        if isinstance(n, ast.Return) and n.value is not None and \
                not (isinstance(n.value, ast.Constant) and n.value.value is None):
            return False
        if isinstance(n, (ast.Raise, ast.Assert, ast.Yield, ast.YieldFrom)):
            return False
    return True


def closure(facts, fns):
    """close reads / writes / clears / slot_pops over calls; returns dicts"""
    names = list(facts)
    silent = {m for m in names if yields_nothing(fns.get(m))}
    R = {m: set(facts[m].reads) for m in names}
    W = {m: set(facts[m].writes) for m in names}
    C = {m: set(facts[m].clears) for m in names}
    P = {m: set(facts[m].slot_pops) for m in names}
    I = {m: set(getattr(facts[m], 'inplace', ())) for m in names}
    changed = True
    while changed:
        changed = False
        for m in names:
            for (c, _, call) in facts[m].calls:
                if c in facts:
                    for A in (R, W, I):
                        if A is R and c in silent:
                            continue
                        add = subst_params(A[c], fns.get(c), call)
                        if not add <= A[m]:
                            A[m] |= add
                            changed = True
                    for A in (C, P):
                        if not A[c] <= A[m]:
                            A[m] |= A[c]
                            changed = True
    return R, W, C, P, I


def translate(repo):
    _REL_MEMO.clear()
    consumed = {}
    classes, srcs = load_classes(repo, MESH_FILES)
    for rel, b in srcs.items():
        consumed[rel] = sha(b)
    for c in MESH_CLASSES:
        if c not in classes:
            raise TranslateError(f'class {c} not found')
    bases = [ast.unparse(b) for b in classes['FEMData'][0].bases]
    if [b.split('.')[-1] for b in bases] != MESH_CLASSES[1:]:
        raise TranslateError(f'FEMData bases changed: {bases}')
    universe = {}
    where = {}
    for c in MESH_CLASSES:
        for nm, fn in class_methods(classes[c][0]).items():
            if nm not in universe:
                universe[nm] = fn
                where[nm] = classes[c][1]
    mut_universe = mutated_params(universe)
    facts = {}
    for nm, fn in universe.items():
        if any((isinstance(d, ast.Name) and d.id in ('classmethod', 'staticmethod')) or
               (isinstance(d, ast.Attribute) and d.attr in ('classmethod', 'staticmethod'))
               for d in fn.decorator_list):
            a = Analyzer(fn, universe, 'none', where[nm])
            a.decorators()
            if a.facts.lru is not None:
                raise TranslateError(f'{nm}: memoised class/static method')
            continue
        facts[nm] = Analyzer(fn, universe, 'self', where[nm], mut=mut_universe).run()

    check_no_inplace_on_cached(
        {nm: fn for nm, fn in universe.items() if nm in facts}, where,
        {nm for nm, f in facts.items() if f.lru is not None})

    # ---- writers
    writer_facts = {}
    wfn = universe.get('write')
    if wfn is None:
        raise TranslateError('FEMData.write not found')
    imports = {}
    for n in ast.walk(wfn):
        if isinstance(n, ast.ImportFrom):
            for al in n.names:
                imports[al.asname or al.name] = (n.module, n.level)
    fmts = []

    def fmt_of(test):
        if isinstance(test, ast.Compare) and isinstance(test.left, ast.Name) and test.left.id == 'file_type' \
                and len(test.ops) == 1:
            c = test.comparators[0]
            if isinstance(test.ops[0], ast.Eq) and const_str(c) is not None:
                return [const_str(c)]
            if isinstance(test.ops[0], ast.In) and isinstance(c, (ast.List, ast.Tuple)) and \
                    all(const_str(e) is not None for e in c.elts):
                return [const_str(e) for e in c.elts]
        return None

    node = None
    for s in wfn.body:
        if isinstance(s, ast.If) and fmt_of(s.test):
            node = s
    if node is None:
        raise TranslateError('FEMData.write: no dispatch on file_type')
    while node is not None:
        names = fmt_of(node.test)
        if names is None:
            raise TranslateError('FEMData.write: dispatch test not recognised')
        wcls = None
        uses = []
        for s in node.body:
            for c in ast.walk(s):
                if isinstance(c, ast.Call) and isinstance(c.func, ast.Name) and c.func.id in imports:
                    wcls = c.func.id
                if isinstance(c, ast.Call) and isinstance(c.func, ast.Attribute) and \
                        isinstance(c.func.value, ast.Name) and c.func.value.id == 'self' and \
                        c.func.attr in universe:
                    uses.append(c.func.attr)
        fmts.append((names, wcls, uses))
        nxt = node.orelse
        if len(nxt) == 1 and isinstance(nxt[0], ast.If):
            node = nxt[0]
        else:
            node = None
    writer_classes, wsrcs = load_classes(repo, ['femio/fem_writer.py'])
    consumed['femio/fem_writer.py'] = sha(wsrcs['femio/fem_writer.py'])
    if 'FEMWriter' not in writer_classes:
        raise TranslateError('FEMWriter not found')
    base_methods = class_methods(writer_classes['FEMWriter'][0])
    writers = []
    for names, wcls, uses in fmts:
        W = Facts('write_' + names[0])
        if wcls is not None:
            mod, level = imports[wcls]
            rel = 'femio/' + mod.replace('.', '/') + '.py'
            cl, s2 = load_classes(repo, [rel])
            consumed[rel] = sha(s2[rel])
            if wcls not in cl:
                raise TranslateError(f'{wcls} not found in {rel}')
            cdef = cl[wcls][0]
            cb = [ast.unparse(b).split('.')[-1] for b in cdef.bases]
            meths = dict(base_methods) if 'FEMWriter' in cb else {}
            if cb and cb != ['FEMWriter'] and cb != ['object']:
                raise TranslateError(f'{wcls}: unknown base {cb}')
            meths.update(class_methods(cdef))
            mut_w = mutated_params(meths)
            for mn, fn in meths.items():
                try:
                    f = Analyzer(fn, universe, 'self.fem_data', rel, siblings=meths, mut=mut_w,
                                 mut_universe=mut_universe).run()
                except TranslateError:
                    raise
                W.reads |= f.reads
                W.writes |= f.writes
                W.inplace |= f.inplace
                W.clears |= f.clears
                W.slot_pops |= f.slot_pops
                W.calls += f.calls
        for u in uses:
            W.calls.append((u, False, None))
        writers.append((names, W))

    # ---- connectivity assignment
    rel = 'femio/fem_elemental_attribute.py'
    cl, s3 = load_classes(repo, [rel])
    consumed[rel] = sha(s3[rel])
    if 'FEMElementalAttribute' not in cl:
        raise TranslateError('FEMElementalAttribute not found')
    setter = None
    for n in cl['FEMElementalAttribute'][0].body:
        if isinstance(n, ast.FunctionDef) and n.name == 'data' and \
                any(isinstance(d, ast.Attribute) and d.attr == 'setter' for d in n.decorator_list):
            setter = n
    if setter is None:
        raise TranslateError('FEMElementalAttribute.data setter not found')
    if 'cache_clear' in ast.dump(setter) or 'fem_data' in ast.dump(setter):
        raise TranslateError('FEMElementalAttribute.data setter refers to caches / the mesh: not modelled')

    # the owner hook: FEMData.__init__ does `self.elements.<H> = self.<M>` and the setter (directly
    # or through a method of its class) runs `getattr(self, '<H>', None)` when it is set
    hook_method = None
    init = universe.get('__init__')
    hooks = []
    if init is not None:
        for n in ast.walk(init):
            if isinstance(n, ast.Assign) and len(n.targets) == 1:
                t, v = n.targets[0], n.value
                if isinstance(t, ast.Attribute) and isinstance(t.value, ast.Attribute) and \
                        t.value.attr == 'elements' and isinstance(t.value.value, ast.Name) and \
                        t.value.value.id == 'self' and isinstance(v, ast.Attribute) and \
                        isinstance(v.value, ast.Name) and v.value.id == 'self' and v.attr in universe:
                    hooks.append((t.attr, v.attr))
    if len(hooks) > 1:
        raise TranslateError('more than one owner hook on self.elements')
    cmeths = class_methods(cl['FEMElementalAttribute'][0])

    def notifies(fn, H, depth=0, cm=None):
        cm = cmeths if cm is None else cm
        """the notification is a top-level statement of fn and no statement before it can leave
        fn normally without reaching it (a `return` on some path: raising is fine)"""
        bound = set()
        for st in fn.body:
            if any(isinstance(x, ast.Return) for x in ast.walk(st)) and st is not fn.body[-1]:
                # an early return before the notification: not every path notifies
                return False
            if isinstance(st, ast.Assign) and len(st.targets) == 1 and isinstance(st.targets[0], ast.Name) and \
                    isinstance(st.value, ast.Call) and isinstance(st.value.func, ast.Name) and \
                    st.value.func.id == 'getattr' and len(st.value.args) >= 2 and \
                    isinstance(st.value.args[0], ast.Name) and st.value.args[0].id == 'self' and \
                    const_str(st.value.args[1]) == H:
                bound.add(st.targets[0].id)
            calls = []
            if isinstance(st, ast.Expr) and isinstance(st.value, ast.Call):
                calls.append(st.value)
            if isinstance(st, ast.If) and not st.orelse and len(st.body) == 1 and \
                    isinstance(st.body[0], ast.Expr) and isinstance(st.body[0].value, ast.Call):
                t = st.test
                guard = None
                if isinstance(t, ast.Name):
                    guard = t.id
                if isinstance(t, ast.Compare) and isinstance(t.left, ast.Name) and len(t.ops) == 1 and \
                        isinstance(t.ops[0], ast.IsNot) and isinstance(t.comparators[0], ast.Constant) and \
                        t.comparators[0].value is None:
                    guard = t.left.id
                c = st.body[0].value
                if guard is not None and isinstance(c.func, ast.Name) and c.func.id == guard:
                    calls.append(c)
            for c in calls:
                if isinstance(c.func, ast.Name) and c.func.id in bound and not c.args and not c.keywords:
                    return True
                if isinstance(c.func, ast.Attribute) and isinstance(c.func.value, ast.Name) and \
                        c.func.value.id == 'self':
                    if c.func.attr == H and not c.args:
                        return True
                    if c.func.attr in cm and depth < 2 and notifies(cm[c.func.attr], H, depth + 1, cm):
                        return True
        return False
    if hooks and notifies(setter, hooks[0][0]):
        hook_method = hooks[0][1]
    # a mesh method that assigns self.elements.data runs the hook as well
    if hook_method is not None:
        for nm, fn in universe.items():
            if nm not in facts or nm == hook_method:
                continue
            for n in ast.walk(fn):
                if isinstance(n, ast.Assign):
                    for t in n.targets:
                        if isinstance(t, ast.Attribute) and t.attr == 'data' and \
                                isinstance(t.value, ast.Attribute) and t.value.attr == 'elements' and \
                                isinstance(t.value.value, ast.Name) and t.value.value.id == 'self':
                            facts[nm].calls.append((hook_method, False, None))

    # ---- re-indexing of the node table: FEMData.__init__ does `self.nodes.<H> = self.<M>`; the
    #      `ids` setter and the `data_frame` setter of FEMAttribute (the latter is what
    #      FEMAttribute.update assigns through) run the hook on every path
    rel_n = 'femio/fem_attribute.py'
    cln, s4 = load_classes(repo, [rel_n])
    consumed[rel_n] = sha(s4[rel_n])
    if 'FEMAttribute' not in cln:
        raise TranslateError('FEMAttribute not found')
    nmeths = {}
    nsetters = {}
    for n in cln['FEMAttribute'][0].body:
        if isinstance(n, ast.FunctionDef):
            if any(isinstance(d, ast.Attribute) and d.attr == 'setter' for d in n.decorator_list):
                nsetters[n.name] = n
            elif not n.decorator_list:
                nmeths[n.name] = n
    nhooks = set()
    if init is not None:
        for n in ast.walk(init):
            if isinstance(n, ast.Assign) and len(n.targets) == 1:
                t, v = n.targets[0], n.value
                if isinstance(t, ast.Attribute) and isinstance(t.value, ast.Attribute) and \
                        t.value.attr == 'nodes' and isinstance(t.value.value, ast.Name) and \
                        t.value.value.id == 'self' and isinstance(v, ast.Attribute) and \
                        isinstance(v.value, ast.Name) and v.value.id == 'self' and v.attr in universe:
                    nhooks.add((t.attr, v.attr))
    if len(nhooks) > 1:
        raise TranslateError('more than one owner hook on self.nodes')
    node_hook_method = None
    node_where = f'{rel_n} (ids / data_frame setters, update)'
    if 'ids' not in nsetters or 'update' not in nmeths:
        raise TranslateError('FEMAttribute.ids setter / update not found')

    def assigns_through(fn, prop):
        """`self.<prop> = ...` is a top-level statement of fn and nothing before it returns"""
        for st in fn.body:
            if any(isinstance(x, ast.Return) for x in ast.walk(st)) and st is not fn.body[-1]:
                return False
            if isinstance(st, ast.Assign) and any(
                    isinstance(t, ast.Attribute) and t.attr == prop and isinstance(t.value, ast.Name)
                    and t.value.id == 'self' for t in st.targets):
                return True
        return False
    if nhooks:
        H, M = next(iter(nhooks))
        ok_ids = notifies(nsetters['ids'], H, 0, nmeths)
        ok_upd = notifies(nmeths['update'], H, 0, nmeths) or (
            'data_frame' in nsetters and notifies(nsetters['data_frame'], H, 0, nmeths)
            and assigns_through(nmeths['update'], 'data_frame'))
        # every FEMData method that replaces self.nodes must install the hook on the new table
        reinstalled = True
        for nm, fn in universe.items():
            if nm == '__init__' or nm not in facts:
                continue
            repl = [n for n in ast.walk(fn) if isinstance(n, ast.Assign) and any(
                isinstance(t, ast.Attribute) and t.attr == 'nodes' and isinstance(t.value, ast.Name)
                and t.value.id == 'self' for t in n.targets)]
            inst = [n for n in ast.walk(fn) if isinstance(n, ast.Assign) and any(
                isinstance(t, ast.Attribute) and t.attr == H and isinstance(t.value, ast.Attribute)
                and t.value.attr == 'nodes' for t in n.targets)]
            if repl and not inst:
                reinstalled = False
        if ok_ids and ok_upd and reinstalled:
            node_hook_method = M
    if node_hook_method is not None:
        for nm, fn in universe.items():
            if nm not in facts or nm == node_hook_method:
                continue
            for n in ast.walk(fn):
                hit = False
                if isinstance(n, ast.Assign):
                    for t in n.targets:
                        if isinstance(t, ast.Attribute) and t.attr == 'ids' and \
                                isinstance(t.value, ast.Attribute) and t.value.attr == 'nodes' and \
                                isinstance(t.value.value, ast.Name) and t.value.value.id == 'self':
                            hit = True
                if isinstance(n, ast.Call) and isinstance(n.func, ast.Attribute) and n.func.attr == 'update' and \
                        isinstance(n.func.value, ast.Attribute) and n.func.value.attr == 'nodes' and \
                        isinstance(n.func.value.value, ast.Name) and n.func.value.value.id == 'self':
                    hit = True
                if hit:
                    facts[nm].calls.append((node_hook_method, False, None))

    # ---- assemble
    for nm, f in facts.items():
        for (c, _, ln) in f.calls:
            if c.startswith('@writer:'):
                if nm != 'write':
                    raise TranslateError(f'{nm}: the mesh is handed to a writer class outside write()')
    # a derivation reads the variable tables as payload for its child: the pseudo-key
    # '*payload' stands for "the variables, whichever they are" (overlaps whole-table writers,
    # not the literal by-product keys other queries add)
    for nm, f in facts.items():
        if f.ctor is not None:
            f.reads = {((t, '*payload') if (t in VAR_TABLES and k is None) else (t, k)) for (t, k) in f.reads}
    allfacts = dict(facts)
    for names, W in writers:
        allfacts['@' + W.name] = W
    R, Wr, C, P, Inp = closure(allfacts, universe)
    for m in facts:
        if yields_nothing(universe.get(m)):
            R[m] = set()                # no value: nothing to depend on
    # private helpers with parameter keys: their own entry uses the keys of their call sites
    for m in list(facts):
        if not m.startswith('_'):
            continue
        for A in (R, Wr):
            if not any(k is not None and k.startswith('?') for (_, k) in A[m]):
                continue
            sites = [call for f in allfacts.values() for (c, _, call) in f.calls if c == m]
            if sites and all(call is not None for call in sites) and \
                    all(k is not None for call in sites for (_, k) in subst_params(
                        {p for p in A[m] if p[1] is not None and p[1].startswith('?')}, universe.get(m), call)):
                # every call site names the key: the access is accounted for at the caller
                # (its own entry lists the literal key), the helper's entry keeps the rest
                A[m] = {p for p in A[m] if not (p[1] is not None and p[1].startswith('?'))}
    # the clear-everything idiom, closed over calls
    all_memo = {nm for nm, f in facts.items() if f.lru is not None}
    ca = {m for m in allfacts if getattr(allfacts[m], 'clears_all', False)}
    changed = True
    while changed:
        changed = False
        for m in allfacts:
            if m not in ca and any(c in ca for (c, _, _) in allfacts[m].calls):
                ca.add(m)
                changed = True
    for m in ca:
        C[m] |= all_memo
    slots = {f.slot[0]: nm for nm, f in facts.items() if f.slot}
    if len(slots) != sum(1 for f in facts.values() if f.slot):
        raise TranslateError('two methods use the same slot key')
    slot_pats = {('elemental_data', s) for s in slots}
    memo = {nm for nm, f in facts.items() if f.lru is not None or f.slot is not None}

    def is_core(p):
        return p[0] in ('nodes', 'elements')

    modifiers = sorted(nm for nm in facts if any(is_core(p) for p in Wr[nm])
                       and nm not in ('__init__', 'write') and nm not in memo
                       and not nm.startswith('_') and facts[nm].ctor is None)
    derivs = sorted(nm for nm in facts if facts[nm].ctor is not None and not nm.startswith('_'))
    # only modifiers that are public entry points or reached... keep all: more effects = stronger check

    # reachable set of methods that matter
    roots = set(memo) | set(modifiers) | set(derivs)
    for names, W in writers:
        for (c, _, _) in W.calls:
            if c in facts:
                roots.add(c)
    reach = set()
    stack = list(roots)
    while stack:
        m = stack.pop()
        if m in reach or m not in facts:
            continue
        reach.add(m)
        for (c, _, _) in facts[m].calls:
            if c in facts and c != m:
                stack.append(c)
    reach -= {'__init__', 'write'}
    # ranks (longest path).  A call that hands over a sub-block of elements
    # (by-pass call) and closes a cycle is recursion on a smaller input: part
    # of the body.  Any other recursion between methods is not modelled.
    dropped = set()

    def edges(m):
        return sorted({(c, byp) for (c, byp, _) in facts[m].calls
                       if c in reach and c != m and (m, c) not in dropped})

    def find_cycle():
        color = {}
        path = []

        def dfs(m):
            color[m] = 1
            for (c, byp) in edges(m):
                if color.get(c) == 1:
                    k = [x for x, _ in path].index(c) if c in [x for x, _ in path] else 0
                    return path[k:] + [(m, None)], (m, c, byp)
                if c not in color:
                    path.append((m, (c, byp)))
                    r = dfs(c)
                    if r:
                        return r
                    path.pop()
            color[m] = 2
            return None
        for m in sorted(reach):
            if m not in color:
                path.clear()
                r = dfs(m)
                if r:
                    return r
        return None

    for _ in range(200):
        cyc = find_cycle()
        if cyc is None:
            break
        pth, (m, c, byp) = cyc
        cand = [(a, e[0]) for (a, e) in pth if e is not None and e[1]]
        if byp:
            cand.append((m, c))
        if not cand:
            raise TranslateError('recursion through ' + ' -> '.join(a for a, _ in pth) + f' -> {c} is not modelled')
        dropped.add(sorted(cand)[0])
    else:
        raise TranslateError('call graph: too many cycles')
    rank = {}

    def rk(m, depth=0):
        if m in rank:
            return rank[m]
        if depth > 500:
            raise TranslateError('call graph too deep')
        r = 0
        for (c, _) in edges(m):
            r = max(r, rk(c, depth + 1) + 1)
        rank[m] = r
        return r
    for m in sorted(reach):
        rk(m)

    def pats(ps, drop_slots=True):
        out = set()
        for (t, k) in ps:
            if drop_slots and (t, k) in slot_pats:
                continue
            out.add((t, k))
        # a whole-table pattern subsumes the keyed ones
        return sorted((p for p in out if not (p[1] is not None and (p[0], None) in out)),
                      key=lambda p: (p[0], p[1] or ''))

    def with_inplace(m):
        """a stored array of a variable table changed in place is not a guarded store of a derived
        variable: whichever variable holds that name - possibly the user's - changes.  It is
        listed as a write of the whole table (never a by-product: clause FProtected)"""
        return set(Wr[m]) | {(t, None) for (t, k) in Inp.get(m, ()) if t in VAR_TABLES}

    queries = []
    core_helpers = {m for m in reach if any(is_core(p) for p in Wr[m]) and m not in memo
                    and facts[m].ctor is None}
    for m in sorted(reach, key=lambda x: (rank[x], x)):
        if m in modifiers or m in core_helpers:
            continue
        f = facts[m]
        deps = []
        for (c, byp, _) in f.calls:
            if c in reach and c != m and c not in modifiers and c not in core_helpers \
                    and (c, byp) not in deps \
                    and (m, c) not in dropped:
                deps.append((c, byp))
        queries.append({
            'name': m, 'rank': rank[m], 'lru': f.lru,
            'slot': (f.slot[0], f.slot[2]) if f.slot else None,
            'bypass_arg': f.slot[1] if f.slot else None,
            'relevant': f.slot[3] if f.slot else [a for a in f.args if a != '*'],
            'reads': pats(R[m]), 'writes': pats(with_inplace(m)), 'deps': deps,
            'args': f.args, 'where': f'{where[m]}:{f.lineno}',
            'calls_modifier': sorted({c for (c, _, _) in f.calls if c in modifiers}),
        })
    qnames = {q['name'] for q in queries}
    effects = []

    def pre_of(name):
        seen, out, st = set(), [], [name]
        while st:
            x = st.pop()
            for (c, _, _) in allfacts[x].calls:
                if c in qnames and c not in out:
                    out.append(c)
                if c in allfacts and c not in seen and c not in qnames:
                    seen.add(c)
                    st.append(c)
        return sorted(out)

    for m in modifiers:
        effects.append({'name': m, 'writer': False, 'pre': pre_of(m), 'writes': pats(Wr[m]),
                        'clears': sorted(c for c in C[m] if c in qnames),
                        'clears_slots': sorted(slots[s] for s in P[m] if s in slots),
                        'where': f'{where[m]}:{facts[m].lineno}'})
    if hook_method is not None and hook_method in allfacts:
        effects.append({'name': 'assign_connectivity', 'writer': False, 'pre': pre_of(hook_method),
                        'writes': [('elements', None)],
                        'clears': sorted(c for c in C[hook_method] if c in qnames),
                        'clears_slots': sorted(slots[s] for s in P[hook_method] if s in slots),
                        'where': f'{rel}:{setter.lineno} -> FEMData.{hook_method}'})
    else:
        effects.append({'name': 'assign_connectivity', 'writer': False, 'pre': [],
                        'writes': [('elements', None)], 'clears': [], 'clears_slots': [],
                        'where': f'{rel}:{setter.lineno}'})
    # fd.nodes.ids = ... / fd.nodes.update(...): the node table is re-indexed (ids re-labelled,
    # rows replaced / added / re-ordered)
    if node_hook_method is not None and node_hook_method in allfacts:
        effects.append({'name': 'reindex_nodes', 'writer': False, 'pre': pre_of(node_hook_method),
                        'writes': [('nodes', None)],
                        'clears': sorted(c for c in C[node_hook_method] if c in qnames),
                        'clears_slots': sorted(slots[s] for s in P[node_hook_method] if s in slots),
                        'where': f'{node_where} -> FEMData.{node_hook_method}'})
    else:
        effects.append({'name': 'reindex_nodes', 'writer': False, 'pre': [],
                        'writes': [('nodes', None)], 'clears': [], 'clears_slots': [],
                        'where': node_where})
    for names, W in writers:
        key = '@' + W.name
        for nm in names:
            effects.append({'name': 'write_' + nm, 'writer': True, 'pre': pre_of(key),
                            'writes': pats(with_inplace(key), False),
                            'clears': sorted(c for c in C[key] if c in qnames),
                            'clears_slots': sorted(slots[s] for s in P[key] if s in slots),
                            'where': 'FEMData.write'})
    dvs = []
    for m in derivs:
        dvs.append({'name': m, 'pre': [c for c in pre_of(m) if c != m],
                    'shares': bool(facts[m].ctor['shares']),
                    'tables': sorted(facts[m].ctor['tables']),
                    'parent_writes': pats(with_inplace(m)), 'where': f'{where[m]}:{facts[m].lineno}'})
    cfg = {'queries': queries, 'effects': effects, 'derivs': dvs,
           'slots': slots,
           # call graph of every mesh method (used by the harness to attribute a failure seen
           # through a non-memoised method to the memoised query it calls)
           'calls': {m: sorted({c for (c, _, _) in facts[m].calls if c in facts}) for m in facts}}
    return cfg, consumed


# ------------------------------------------------------------------ emission
def cs(s):
    assert all(32 <= ord(c) < 127 for c in s), s
    return '"' + s.replace('"', '""') + '"'


def cl(items):
    return '[' + '; '.join(items) + ']'


def cpat(p):
    return f'({cs(p[0])}, ' + ('None' if p[1] is None else f'Some {cs(p[1])}') + ')'


def emit(cfg):
    L = ['(* GENERATED by /verif/translate/c19_caches.py from /repo - do not edit. *)',
         'From Coq Require Import String List.', 'Import ListNotations.',
         'From FV.C19 Require Import Model.', 'Open Scope string_scope.', '']
    qn = []
    for i, q in enumerate(cfg['queries']):
        lru = 'None' if q['lru'] is None else ('(Some None)' if q['lru'][0] == 'inf'
                                               else f'(Some (Some {q["lru"][1]}))')
        slot = 'None' if q['slot'] is None else \
            f'(Some ({cs(q["slot"][0])}, {cl([cs(a) for a in q["slot"][1]])}))'
        deps = cl([f'mkdep {cs(d)} {"true" if b else "false"}' for d, b in q['deps']])
        L.append(f'(* {q["where"]} *)')
        L.append(f'Definition q{i} : qcfg := mkq {cs(q["name"])} {q["rank"]} {lru} {slot}\n'
                 f'  {cl([cs(a) for a in q["relevant"]])}\n'
                 f'  {cl([cpat(p) for p in q["reads"]])}\n'
                 f'  {cl([cpat(p) for p in q["writes"]])}\n'
                 f'  {deps}.')
        qn.append(f'q{i}')
    en = []
    for i, e in enumerate(cfg['effects']):
        L.append(f'(* {e["where"]} *)')
        L.append(f'Definition e{i} : ecfg := mke {cs(e["name"])} {"true" if e["writer"] else "false"} '
                 f'{cl([cs(a) for a in e["pre"]])}\n'
                 f'  {cl([cpat(p) for p in e["writes"]])}\n'
                 f'  {cl([cs(a) for a in e["clears"]])} {cl([cs(a) for a in e["clears_slots"]])}.')
        en.append(f'e{i}')
    dn = []
    for i, d in enumerate(cfg['derivs']):
        L.append(f'(* {d["where"]} *)')
        L.append(f'Definition d{i} : dcfg := mkd {cs(d["name"])} {cl([cs(a) for a in d["pre"]])} '
                 f'{"true" if d["shares"] else "false"} {cl([cpat(p) for p in d["parent_writes"]])} '
                 f'{cl([cs(t) for t in d["tables"]])}.')
        dn.append(f'd{i}')
    L.append('')
    L.append('Definition cfg : config := mkcfg\n  ' + cl(qn) + '\n  ' + cl(en) + '\n  ' + cl(dn) + '.')
    return '\n'.join(L) + '\n'


SELFTEST_SRC = '''
class W:
    def swap(self, d):
        d[:, [1, 2]] = d[:, [2, 1]]
        return d
    def swap_copy(self, d):
        e = d.copy()
        e[:, [1, 2]] = e[:, [2, 1]]
        return e
    def swap_rebound(self, d):
        d = np.array(d)
        d[:, [1, 2]] = d[:, [2, 1]]
        return d
    def absout(self, m, flag):
        if flag:
            np.abs(m, out=m)
        return m
    def absnew(self, m, flag):
        if flag:
            m = np.abs(m)
        return m
    def through(self, x):
        return self.swap(np.asarray(x))
    def rows(self, d):
        for row in d:
            row[0] = 1
    def aug(self, a):
        v = a.data
        v += 1
    def writer(self):
        for element_type, elements in self.fem_data.elements.items():
            data = self.swap(elements.data)
    def writer_ok(self):
        for element_type, elements in self.fem_data.elements.items():
            data = self.swap_copy(elements.data)
    def query(self):
        return self.absout(self.fem_data.elemental_data.get_attribute_data('metric'), True)
    def query_ok(self):
        return self.absnew(self.fem_data.elemental_data.get_attribute_data('metric'), True)
'''


def selftest():
    """translator validation: the in-place analysis on a fixed set of positive and negative
    forms; returns the list of failed expectations (empty = passed)"""
    cls = [n for n in ast.parse(SELFTEST_SRC).body if isinstance(n, ast.ClassDef)][0]
    meths = class_methods(cls)
    mut = mutated_params(meths)
    want = {'swap': {'d'}, 'swap_copy': set(), 'swap_rebound': set(), 'absout': {'m'}, 'absnew': set(),
            'through': {'x'}, 'rows': {'d'}, 'aug': {'a'}}
    bad = [f'mutated_params({k}) = {sorted(mut[k])}, expected {sorted(v)}' for k, v in want.items() if mut[k] != v]
    exp = {'writer': ({('elements', None)}, {('elements', None)}), 'writer_ok': (set(), set()),
           'query': ({('elemental_data', 'metric')}, {('elemental_data', 'metric')}), 'query_ok': (set(), set())}
    for k, (w, i) in exp.items():
        f = Analyzer(meths[k], {}, 'self.fem_data', 'selftest', siblings=meths, mut=mut, mut_universe={}).run()
        if f.writes != w or f.inplace != i:
            bad.append(f'{k}: writes {sorted(f.writes)} inplace {sorted(f.inplace)}, expected {sorted(w)} / {sorted(i)}')
    return bad


if __name__ == '__main__':
    import json
    import sys
    cfg, consumed = translate(sys.argv[1] if len(sys.argv) > 1 else '/repo')
    for q in cfg['queries']:
        if q['lru'] or q['slot']:
            print('Q', q['name'], q['rank'], q['lru'], q['slot'], 'rel', q['relevant'], 'R', q['reads'],
                  'W', q['writes'], 'deps', q['deps'])
    print('plain queries:', [q['name'] for q in cfg['queries'] if not (q['lru'] or q['slot'])])
    for e in cfg['effects']:
        print('E', json.dumps(e))
    for d in cfg['derivs']:
        print('D', json.dumps(d))
