"""C04 translator for the WRITER's text format (round 6, additive).

Reads from femio/formats/ucd/write_ucd.py of the tree under test, by evaluation / by meaning:
  * the keyword arguments of every DataFrame.to_csv call of class UCDWriter (sep, header, na_rep;
    evaluated with ast.literal_eval; all calls must agree),
  * the unit suffix of a variable-name line (the constant part of f"{name}, unit_unknown"),
  * the fields of the first line of the file (the f-string written first in `write`): each formatted
    value is resolved through the local assignments of `write` and classified by what it computes
    (node count, element count, total nodal width, total elemental width), constants are literals;
and emits coq/C04/gen/UcdFormat.v (prefix s_).  The per-run obligation C04_writer_format
(harness/c04.py) proves them equal to the constants Model.write_ucd is shown to use
(coq/C04/Format.v, prefix m_).  Anything else raises TranslateError; the format then stays tied by
the byte-for-byte comparison of every written file with the model's file (H)."""
import ast
import hashlib
from pathlib import Path


class TranslateError(Exception):
    pass


def _class(repo):
    p = Path(repo) / 'femio' / 'formats' / 'ucd' / 'write_ucd.py'
    text = p.read_text()
    tree = ast.parse(text)
    cls = [c for c in tree.body if isinstance(c, ast.ClassDef) and c.name == 'UCDWriter']
    if len(cls) != 1:
        raise TranslateError('class UCDWriter not found')
    return cls[0], text


def _csv_args(cls):
    found = []
    for n in ast.walk(cls):
        if isinstance(n, ast.Call) and isinstance(n.func, ast.Attribute) and n.func.attr == 'to_csv':
            if n.args:
                raise TranslateError('to_csv with positional arguments')
            try:
                kw = {k.arg: ast.literal_eval(k.value) for k in n.keywords}
            except (ValueError, SyntaxError):
                raise TranslateError('to_csv keyword that is not a constant')
            if None in kw:
                raise TranslateError('to_csv(**kwargs)')
            found.append(kw)
    if not found:
        raise TranslateError('no to_csv call in UCDWriter')
    if any(f != found[0] for f in found):
        raise TranslateError(f'to_csv calls with different arguments: {found}')
    kw = found[0]
    if set(kw) != {'sep', 'header', 'na_rep'}:
        raise TranslateError(f'to_csv keywords are {sorted(kw)}, expected sep, header, na_rep')
    if not (isinstance(kw['sep'], str) and isinstance(kw['na_rep'], str) and isinstance(kw['header'], bool)):
        raise TranslateError('to_csv argument types')
    return kw, len(found)


def _unit_suffix(cls):
    sufs = set()
    for n in ast.walk(cls):
        if isinstance(n, ast.JoinedStr) and len(n.values) == 2 and isinstance(n.values[0], ast.FormattedValue) \
                and isinstance(n.values[1], ast.Constant) and isinstance(n.values[1].value, str) \
                and isinstance(n.values[0].value, ast.Name) and n.values[0].conversion == -1 \
                and n.values[0].format_spec is None and n.values[1].value.startswith(','):
            sufs.add(n.values[1].value)
    if len(sufs) != 1:
        raise TranslateError(f'expected one "<name>, <unit>" f-string form, found {sorted(sufs)}')
    return sufs.pop()


def _resolve(e, env, depth=0):
    """substitute local single names by the expression they were assigned (source text)"""
    if depth > 6:
        raise TranslateError('local names too deep')

    class Sub(ast.NodeTransformer):
        def visit_Name(self, n):
            if isinstance(n.ctx, ast.Load) and n.id in env:
                return _resolve(env[n.id], env_without(env, n.id), depth + 1)
            return n
    import copy
    return Sub().visit(copy.deepcopy(e))


def env_without(env, k):
    d = dict(env)
    d.pop(k, None)
    return d


NODAL = "self.try_convert_to_2d(mode='nodal')"
ELEMENTAL = 'self._convert_objectdict2arraydict(self.fem_data.elemental_data)'


def _classify(e, env):
    src = ast.unparse(_resolve(e, env))
    if src == 'len(self.fem_data.nodes.ids)':
        return 'TNodes'
    if src == 'len(self.fem_data.elements.ids)':
        return 'TElements'
    for wrap in ('int(np.sum(%s))', 'np.sum(%s)', 'sum(%s)', 'int(sum(%s))'):
        for d, tag in ((NODAL, 'TNodalWidth'), (ELEMENTAL, 'TElementalWidth')):
            for var in ('v', 'value', 'data', 'd', 'a'):
                for acc in (f'{var}.data.shape[1]', f'{var}.shape[1]'):
                    if src == wrap % f'[{acc} for {var} in {d}.values()]':
                        return tag
    raise TranslateError(f'first line: cannot classify the formatted value {src}')


def _top_fields(cls, sep):
    fns = {f.name: f for f in cls.body if isinstance(f, ast.FunctionDef)}
    if 'write' not in fns:
        raise TranslateError('UCDWriter.write not found')
    env = {}
    target = None

    def walk(body):
        nonlocal target
        for st in body:
            if target is not None:
                return
            if isinstance(st, ast.Assign) and len(st.targets) == 1 and isinstance(st.targets[0], ast.Name):
                env[st.targets[0].id] = st.value
            elif isinstance(st, ast.With):
                walk(st.body)
            elif isinstance(st, ast.Expr) and isinstance(st.value, ast.Call) \
                    and isinstance(st.value.func, ast.Attribute) and st.value.func.attr == 'write' \
                    and len(st.value.args) == 1:
                a = st.value.args[0]
                if isinstance(a, ast.Name) and a.id in env:
                    a = env[a.id]
                if isinstance(a, ast.JoinedStr):
                    target = a
                else:
                    raise TranslateError('the first f.write of UCDWriter.write is not an f-string')
            elif isinstance(st, (ast.If, ast.For, ast.While, ast.Try)):
                # a raise-only guard (overwrite check) is fine; anything else before the header is not read
                if isinstance(st, ast.If) and all(isinstance(x, ast.Raise) for x in st.body) and not st.orelse:
                    continue
                raise TranslateError('control flow before the first line is written')
    walk(fns['write'].body)
    if target is None:
        raise TranslateError('first line not found')
    parts, tags = [], []
    for v in target.values:
        if isinstance(v, ast.Constant) and isinstance(v.value, str):
            parts.append(v.value)
        elif isinstance(v, ast.FormattedValue) and v.conversion == -1 and v.format_spec is None:
            parts.append('\x00%d\x00' % len(tags))
            tags.append(_classify(v.value, env))
        else:
            raise TranslateError('first line: formatted value with conversion / format spec')
    s = ''.join(parts)
    if not s.endswith('\n') or '\n' in s[:-1]:
        raise TranslateError('first line does not end with exactly one newline')
    fields = []
    for tok in s[:-1].split(sep):
        if tok.startswith('\x00') and tok.endswith('\x00') and tok.count('\x00') == 2:
            fields.append(tags[int(tok[1:-1])])
        elif '\x00' in tok or tok == '':
            raise TranslateError(f'first line: field {tok!r} mixes text and values')
        else:
            fields.append(('lit', tok))
    return fields


def translate(repo):
    cls, text = _class(repo)
    kw, n_calls = _csv_args(cls)
    out = {'sep': kw['sep'], 'header': kw['header'], 'na_rep': kw['na_rep'], 'n_to_csv': n_calls,
           'unit_suffix': _unit_suffix(cls), 'top_fields': _top_fields(cls, kw['sep'])}
    return out, hashlib.sha256(ast.get_source_segment(text, cls).encode()).hexdigest()


# what the registered tree translates to (written to gen/UcdFormat.v when the region cannot be read, so
# that the generated file never depends on a previous run; the obligation is then not claimed)
BASELINE = {'sep': ' ', 'header': False, 'na_rep': 'NaN', 'n_to_csv': 4, 'unit_suffix': ', unit_unknown',
            'top_fields': ['TNodes', 'TElements', 'TNodalWidth', 'TElementalWidth', ('lit', '0')]}


def emit(out):
    def cs(s):
        if not all(32 <= ord(c) < 127 and c != '"' for c in s):
            raise TranslateError(f'constant {s!r} is not printable ASCII')
        return f'(S "{s}")'
    fs = '; '.join(f if isinstance(f, str) else f'TLit {cs(f[1])}' for f in out['top_fields'])
    return ('(* generated by translate/c04_format.py from femio/formats/ucd/write_ucd.py of the tree under test;\n'
            '   do not edit *)\n'
            'From Coq Require Import String List.\nImport ListNotations.\n'
            'From FV.C04 Require Import Text Model Format.\nOpen Scope string_scope.\n'
            f"Definition s_sep : str := {cs(out['sep'])}.\n"
            f"Definition s_csv_header : bool := {'true' if out['header'] else 'false'}.\n"
            f"Definition s_na_rep : str := {cs(out['na_rep'])}.\n"
            f"Definition s_unit_suffix : str := {cs(out['unit_suffix'])}.\n"
            f"Definition s_top_fields : list top_field := [{fs}].\n")


if __name__ == '__main__':
    import sys
    o, s = translate(sys.argv[1] if len(sys.argv) > 1 else '/repo')
    print(o)
    print(emit(o), end='')
