"""Fail-closed translator: FEMData.write + every format writer -> the effect
program of coq/C07/Model.v (Guard / Create / Append / If / Loop / Call ...).

Abstract interpretation over the Python AST.  Abstract values:
  ('P', pexp)  a path expression over the name the caller typed
  ('S', str)   a constant string
  ('O',)       anything else
Rules (anything outside them raises TranslateError = the tie is broken):
  * `if not overwrite and <P>.exists(): raise ...`        -> Guard P
  * open(P, 'w'|'a'|'r')                                  -> Create/Append/-
  * self.m(...) with m defined in the class (or FEMWriter) -> inlined Call
  * any other call that is handed a path value            -> Create (it may
    write the file); whitelisted read-only uses: str, Path, print, exists,
    mkdir, f-strings, exceptions
  * if / for / while around effects                        -> If / Loop
"""
import ast
import hashlib
import sys
from pathlib import Path


class TranslateError(Exception):
    pass


O = ('O',)
READONLY_FUNCS = {'str', 'Path', 'print', 'ValueError', 'isinstance', 'len',
                  'NotImplementedError', 'int', 'list', 'repr'}
READONLY_METHODS = {'exists', 'mkdir', 'is_file', 'is_dir'}


def coq_str(s):
    return '"' + s.replace('"', '""') + '"'


def pexp_coq(p):
    k = p[0]
    if k == 'PName':
        return 'PName'
    return f'({k} {coq_str(p[1])} {pexp_coq(p[2])})'


def prog_coq(p, ind=2):
    k = p[0]
    pad = ' ' * ind
    if k in ('Skip', 'Return', 'Raise'):
        return pad + k
    if k in ('Guard', 'Create', 'Append'):
        return pad + f'({k} {pexp_coq(p[1])})'
    if k == 'Seq':
        return pad + '(Seq\n' + prog_coq(p[1], ind + 1) + '\n' + prog_coq(p[2], ind + 1) + ')'
    if k == 'If':
        return pad + '(If\n' + prog_coq(p[1], ind + 1) + '\n' + prog_coq(p[2], ind + 1) + ')'
    if k in ('Loop', 'Call'):
        return pad + f'({k}\n' + prog_coq(p[1], ind + 1) + ')'
    raise AssertionError(k)


def seq(ps):
    ps = [p for p in ps if p[0] != 'Skip']
    if not ps:
        return ('Skip',)
    out = ps[-1]
    for p in reversed(ps[:-1]):
        out = ('Seq', p, out)
    return out


def has_effect(p):
    k = p[0]
    if k in ('Guard', 'Create', 'Append', 'Return', 'Raise'):
        return True
    if k in ('Seq', 'If'):
        return has_effect(p[1]) or has_effect(p[2])
    if k in ('Loop', 'Call'):
        return has_effect(p[1])
    return False


ADD_EXT_SHAPE = (
    "FunctionDef(name='add_extension_if_needed', args=arguments(posonlyargs=[], "
    "args=[arg(arg='self'), arg(arg='file_name'), arg(arg='ext')], kwonlyargs=[], "
    "kw_defaults=[], defaults=[]), body=[If(test=Call(func=Attribute(value=Call("
    "func=Name(id='str', ctx=Load()), args=[Name(id='file_name', ctx=Load())], "
    "keywords=[]), attr='endswith', ctx=Load()), args=[Name(id='ext', ctx=Load())], "
    "keywords=[]), body=[Return(value=Name(id='file_name', ctx=Load()))], orelse=["
    "Return(value=Call(func=Name(id='Path', ctx=Load()), args=[BinOp(left=BinOp("
    "left=Call(func=Name(id='str', ctx=Load()), args=[Name(id='file_name', ctx=Load())], "
    "keywords=[]), op=Add(), right=Constant(value='.')), op=Add(), right=Name(id='ext', "
    "ctx=Load()))], keywords=[]))])], decorator_list=[]")


class ClassInfo:
    def __init__(self, repo, relpath, clsname):
        self.path = Path(repo) / relpath
        self.src = self.path.read_text()
        self.tree = ast.parse(self.src)
        self.cls = None
        for n in self.tree.body:
            if isinstance(n, ast.ClassDef) and n.name == clsname:
                self.cls = n
        if self.cls is None:
            raise TranslateError(f'class {clsname} not found in {relpath}')
        self.methods = {n.name: n for n in self.cls.body
                        if isinstance(n, ast.FunctionDef)}
        self.bases = [ast.unparse(b) for b in self.cls.bases]


class Interp:
    def __init__(self, repo):
        self.repo = Path(repo)
        self.consumed = {}        # file -> sha256 of consumed text
        self.depth = 0
        self.fem_writer = None

    def note(self, path, text):
        self.consumed[str(path)] = hashlib.sha256(text.encode()).hexdigest()

    # ---------------------------------------------------------------- values
    def ev(self, e, env, cls):
        """abstract value of expression e; effects of calls inside e are
        collected by stmt-level scanning (calls()) - here only the value"""
        if isinstance(e, ast.Constant):
            if isinstance(e.value, str):
                return ('S', e.value)
            return O
        if isinstance(e, ast.Name):
            return env.get(e.id, O)
        if isinstance(e, ast.Attribute):
            key = self.attr_key(e)
            if key is not None and key in env:
                return env[key]
            base = self.ev(e.value, env, cls)
            if base[0] == 'P':
                if e.attr == 'parent':
                    return ('D', base[1])      # a directory, not a file
                if e.attr in ('name', 'stem', 'suffix'):
                    return O
                raise TranslateError(f'unknown path attribute .{e.attr} line {e.lineno}')
            return O
        if isinstance(e, ast.BinOp):
            l = self.ev(e.left, env, cls)
            r = self.ev(e.right, env, cls)
            if isinstance(e.op, ast.Add):
                if l[0] == 'S' and r[0] == 'S':
                    return ('S', l[1] + r[1])
                if l[0] == 'P' and r[0] == 'S':
                    if l[1][0] == 'PSuffix':
                        return ('P', ('PSuffix', l[1][1] + r[1], l[1][2]))
                    return ('P', ('PSuffix', r[1], l[1]))
                if l[0] == 'P' or r[0] == 'P':
                    raise TranslateError(f'path concatenated with non-constant, line {e.lineno}')
                return O
            if isinstance(e.op, ast.Div):
                if l[0] == 'D' and r[0] == 'S':
                    return ('P', ('PSibling', r[1], l[1]))
                if l[0] in ('P', 'D') or r[0] in ('P', 'D'):
                    raise TranslateError(f'unsupported path join, line {e.lineno}')
                return O
            if l[0] in ('P', 'D') or r[0] in ('P', 'D'):
                raise TranslateError(f'unsupported operator on a path, line {e.lineno}')
            return O
        if isinstance(e, ast.Call):
            f = e.func
            if isinstance(f, ast.Name) and f.id in ('str', 'Path') and len(e.args) == 1 \
                    and not e.keywords:
                return self.ev(e.args[0], env, cls)
            if isinstance(f, ast.Attribute) and f.attr == 'add_extension_if_needed' \
                    and isinstance(f.value, ast.Name) and f.value.id == 'self':
                self.check_add_ext(cls)
                a = self.ev(e.args[0], env, cls)
                b = self.ev(e.args[1], env, cls)
                if a[0] != 'P' or b[0] != 'S':
                    raise TranslateError(f'add_extension_if_needed on unknown args, line {e.lineno}')
                return ('P', ('PAddExt', b[1], a[1]))
            return O
        if isinstance(e, ast.JoinedStr):
            return O
        return O

    def attr_key(self, e):
        if isinstance(e.value, ast.Name) and e.value.id == 'self':
            return 'self.' + e.attr
        return None

    def check_add_ext(self, cls):
        m = cls.methods.get('add_extension_if_needed')
        if m is None:
            raise TranslateError('add_extension_if_needed not found')
        if not ast.dump(m).startswith(ADD_EXT_SHAPE):
            raise TranslateError('add_extension_if_needed has an unrecognised body')

    # ---------------------------------------------------------------- calls
    def path_args(self, call, env, cls):
        vals = []
        for a in list(call.args) + [k.value for k in call.keywords]:
            v = self.ev(a, env, cls)
            if v[0] == 'P':
                vals.append(v[1])
            elif v[0] == 'D':
                vals.append(None)
        return vals

    def call_effects(self, call, env, cls):
        """effect program of one call expression (arguments first)"""
        out = []
        for a in list(call.args) + [k.value for k in call.keywords]:
            out.append(self.expr_effects(a, env, cls))
        f = call.func
        if isinstance(f, ast.Attribute):
            out.append(self.expr_effects(f.value, env, cls))
        # open()
        if isinstance(f, ast.Name) and f.id == 'open':
            v = self.ev(call.args[0], env, cls) if call.args else O
            mode = 'r'
            if len(call.args) > 1:
                mv = self.ev(call.args[1], env, cls)
                if mv[0] != 'S':
                    raise TranslateError(f'open() with non-constant mode, line {call.lineno}')
                mode = mv[1]
            for k in call.keywords:
                if k.arg == 'mode':
                    mv = self.ev(k.value, env, cls)
                    if mv[0] != 'S':
                        raise TranslateError(f'open() with non-constant mode, line {call.lineno}')
                    mode = mv[1]
            if v[0] != 'P':
                if 'r' in mode and '+' not in mode:
                    return seq(out)
                raise TranslateError(f'open() for writing on an unknown path, line {call.lineno}')
            if 'w' in mode or 'x' in mode:
                out.append(('Create', v[1]))
            elif 'a' in mode or '+' in mode:
                out.append(('Append', v[1]))
            return seq(out)
        # self.method(...)  -> inline
        if isinstance(f, ast.Attribute) and isinstance(f.value, ast.Name) \
                and f.value.id == 'self':
            if f.attr == 'add_extension_if_needed':
                return seq(out)
            m, owner = self.lookup_method(cls, f.attr)
            if m is not None:
                out.append(self.inline(m, owner, call, env, self_env=env))
                return seq(out)
            # unknown self method: could touch self.* paths
            if any(k.startswith('self.') and v[0] in ('P', 'D') for k, v in env.items()) \
                    or self.path_args(call, env, cls):
                raise TranslateError(f'call of unknown method self.{f.attr} line {call.lineno}')
            return seq(out)
        # read-only uses
        if isinstance(f, ast.Name) and f.id in READONLY_FUNCS:
            return seq(out)
        if isinstance(f, ast.Attribute) and f.attr in READONLY_METHODS:
            return seq(out)
        # any other call handed a file path may write it
        for p in self.path_args(call, env, cls):
            if p is None:
                raise TranslateError(f'directory handed to unknown call, line {call.lineno}')
            out.append(('Create', p))
        # a method call *on* a path value (p.write_text, p.touch, p.open, ...)
        if isinstance(f, ast.Attribute):
            v = self.ev(f.value, env, cls)
            if v[0] == 'P':
                out.append(('Create', v[1]))
            elif v[0] == 'D':
                raise TranslateError(f'unknown method on a directory, line {call.lineno}')
        return seq(out)

    def expr_effects(self, e, env, cls):
        if e is None:
            return ('Skip',)
        if isinstance(e, ast.Call):
            return self.call_effects(e, env, cls)
        if isinstance(e, (ast.Lambda, ast.ListComp, ast.GeneratorExp, ast.DictComp, ast.SetComp)):
            inner = seq([self.expr_effects(c, env, cls) for c in ast.iter_child_nodes(e)
                         if isinstance(c, ast.expr)])
            if isinstance(e, ast.Lambda):
                return inner
            gens = seq([self.expr_effects(g.iter, env, cls) for g in e.generators]
                       + [self.expr_effects(i, env, cls) for g in e.generators for i in g.ifs])
            body = inner
            return seq([gens, ('Loop', body)]) if has_effect(body) else gens
        out = []
        for c in ast.iter_child_nodes(e):
            if isinstance(c, ast.expr):
                out.append(self.expr_effects(c, env, cls))
            elif isinstance(c, ast.keyword):
                out.append(self.expr_effects(c.value, env, cls))
            elif isinstance(c, ast.comprehension):
                raise TranslateError('unexpected comprehension')
        return seq(out)

    def lookup_method(self, cls, name):
        if name in cls.methods:
            return cls.methods[name], cls
        for b in cls.bases:
            if b.endswith('FEMWriter'):
                if self.fem_writer is None:
                    self.fem_writer = ClassInfo(self.repo, 'femio/fem_writer.py', 'FEMWriter')
                    self.note(self.fem_writer.path, ast.get_source_segment(
                        self.fem_writer.src, self.fem_writer.cls))
                if name in self.fem_writer.methods:
                    return self.fem_writer.methods[name], self.fem_writer
        return None, None

    def inline(self, m, owner, call, env, self_env, caller=None):
        caller = caller or owner
        self.depth += 1
        if self.depth > 12:
            raise TranslateError('inlining too deep (recursion?)')
        new = {k: v for k, v in self_env.items() if k.startswith('self.')}
        a = m.args
        if a.vararg or a.posonlyargs:
            # *args: bind nothing, but no path may be passed through it
            pass
        params = [x.arg for x in a.args][1:]
        defaults = dict(zip([x.arg for x in a.args][len(a.args) - len(a.defaults):], a.defaults))
        kwdefaults = {x.arg: d for x, d in zip(a.kwonlyargs, a.kw_defaults) if d is not None}
        bound = {}
        for i, arg in enumerate(call.args):
            v = self.ev(arg, env, caller)
            if i < len(params):
                bound[params[i]] = v
            elif v[0] in ('P', 'D'):
                raise TranslateError(f'path passed through *args, line {call.lineno}')
        for k in call.keywords:
            if k.arg is None:
                raise TranslateError('**kwargs call')
            bound[k.arg] = self.ev(k.value, env, caller)
        for name in params + [x.arg for x in a.kwonlyargs]:
            if name in bound:
                new[name] = bound[name]
            elif name in defaults:
                new[name] = self.ev(defaults[name], {}, owner)
            elif name in kwdefaults:
                new[name] = self.ev(kwdefaults[name], {}, owner)
            else:
                new[name] = O
        body = self.block(m.body, new, owner)
        # self.* assignments made by the callee are visible to the caller
        for k, v in new.items():
            if k.startswith('self.'):
                self_env[k] = v
        self.depth -= 1
        return ('Call', body) if has_effect(body) else ('Skip',)

    # ------------------------------------------------------------ statements
    def guard_of(self, st, env, cls):
        """if not overwrite and P.exists(): raise  ->  pexp or None"""
        if not isinstance(st, ast.If) or st.orelse:
            return None
        t = st.test
        if not (isinstance(t, ast.BoolOp) and isinstance(t.op, ast.And) and len(t.values) == 2):
            return None
        a, b = t.values
        if not (isinstance(a, ast.UnaryOp) and isinstance(a.op, ast.Not)):
            return None
        ow = ast.unparse(a.operand)
        if ow == 'overwrite':
            if env.get('overwrite', O) != ('OW',):
                return None
        elif ow == 'self.overwrite':
            if env.get('self.overwrite', O) != ('OW',):
                return None
        else:
            return None
        if not (isinstance(b, ast.Call) and isinstance(b.func, ast.Attribute)
                and b.func.attr == 'exists' and not b.args and not b.keywords):
            return None
        v = self.ev(b.func.value, env, cls)
        if v[0] != 'P':
            return None
        if not (len(st.body) == 1 and isinstance(st.body[0], ast.Raise)):
            return None
        return v[1]

    def block(self, stmts, env, cls):
        out = []
        for st in stmts:
            out.append(self.stmt(st, env, cls))
        return seq(out)

    def assign(self, target, val, env, lineno):
        if isinstance(target, ast.Name):
            env[target.id] = val
        elif isinstance(target, ast.Attribute):
            key = self.attr_key(target)
            if key is not None:
                env[key] = val
            elif val[0] in ('P', 'D'):
                raise TranslateError(f'path stored in a foreign attribute, line {lineno}')
        elif isinstance(target, (ast.Tuple, ast.List)):
            for t in target.elts:
                self.assign(t, O, env, lineno)
        elif isinstance(target, ast.Subscript):
            if val[0] in ('P', 'D'):
                raise TranslateError(f'path stored in a container, line {lineno}')
        elif isinstance(target, ast.Starred):
            self.assign(target.value, O, env, lineno)
        else:
            raise TranslateError(f'unsupported assignment target line {lineno}')

    def merge(self, env, e1, e2):
        for k in set(e1) | set(e2):
            v1, v2 = e1.get(k, O), e2.get(k, O)
            env[k] = v1 if v1 == v2 else ('X',)   # X: differs between branches

    def stmt(self, st, env, cls):
        g = self.guard_of(st, env, cls)
        if g is not None:
            return ('Guard', g)
        if isinstance(st, ast.Expr):
            return self.expr_effects(st.value, env, cls)
        if isinstance(st, (ast.Assign, ast.AnnAssign, ast.AugAssign)):
            value = st.value
            eff = self.expr_effects(value, env, cls)
            if isinstance(st, ast.AugAssign):
                val = O
                targets = [st.target]
                v = self.ev(st.target, env, cls)
                if v[0] in ('P', 'D'):
                    raise TranslateError(f'augmented assignment to a path, line {st.lineno}')
            else:
                val = self.ev(value, env, cls) if value is not None else O
                targets = st.targets if isinstance(st, ast.Assign) else [st.target]
            # `overwrite` flows only by plain copies
            if value is not None and ast.unparse(value) in ('overwrite', 'self.overwrite'):
                src = ast.unparse(value)
                if env.get(src, O) == ('OW',):
                    val = ('OW',)
            for t in targets:
                self.assign(t, val, env, st.lineno)
            return eff
        if isinstance(st, ast.Return):
            return seq([self.expr_effects(st.value, env, cls), ('Return',)])
        if isinstance(st, ast.Raise):
            return ('Raise',)
        if isinstance(st, ast.If):
            test = self.expr_effects(st.test, env, cls)
            e1, e2 = dict(env), dict(env)
            a = self.block(st.body, e1, cls)
            b = self.block(st.orelse, e2, cls)
            self.merge(env, e1, e2)
            if has_effect(a) or has_effect(b):
                return seq([test, ('If', a, b)])
            return test
        if isinstance(st, (ast.For, ast.While)):
            head = self.expr_effects(st.iter if isinstance(st, ast.For) else st.test, env, cls)
            if isinstance(st, ast.For):
                self.assign(st.target, O, env, st.lineno)
            e1 = dict(env)
            body = self.block(st.body, e1, cls)
            # a second pass with the merged environment: loop-carried values
            e2 = dict(env)
            self.merge(e2, env, e1)
            body2 = self.block(st.body, dict(e2), cls)
            if body2 != body:
                raise TranslateError(f'loop-carried path value, line {st.lineno}')
            self.merge(env, dict(env), e1)
            if st.orelse:
                raise TranslateError(f'loop else clause, line {st.lineno}')
            return seq([head, ('Loop', body)]) if has_effect(body) else head
        if isinstance(st, ast.With):
            out = []
            for it in st.items:
                out.append(self.expr_effects(it.context_expr, env, cls))
                if it.optional_vars is not None:
                    self.assign(it.optional_vars, O, env, st.lineno)
            out.append(self.block(st.body, env, cls))
            return seq(out)
        if isinstance(st, (ast.Pass, ast.Import, ast.ImportFrom, ast.Break, ast.Continue,
                           ast.Global, ast.Nonlocal, ast.Assert, ast.Delete)):
            if isinstance(st, (ast.Break, ast.Continue)):
                # inside Loop: ends the iteration; modelled conservatively by
                # the loop count chosen by the oracle -> only sound if nothing
                # with an effect follows in the same body; keep it simple:
                return ('Skip',)
            return ('Skip',)
        if isinstance(st, ast.FunctionDef):
            # nested helper: scanned for effects when defined (conservative)
            e1 = dict(env)
            body = self.block(st.body, e1, cls)
            if has_effect(body) and any(k[0] in ('Create', 'Append') for k in flatten(body)):
                raise TranslateError(f'nested function with file effects, line {st.lineno}')
            return ('Skip',)
        if isinstance(st, ast.Try):
            raise TranslateError(f'try statement, line {st.lineno}')
        raise TranslateError(f'unsupported statement {type(st).__name__} line {st.lineno}')


def has_file_event(p):
    return any(k[0] in ('Guard', 'Create', 'Append') for k in flatten(p))


def simplify(p):
    """a method call without file events only matters through whether it may
    raise: Call(body) -> If Raise Skip / Skip (an over-approximation)"""
    k = p[0]
    if k == 'Call' and not has_file_event(p[1]):
        if any(q[0] == 'Raise' for q in flatten(p[1])):
            return ('If', ('Raise',), ('Skip',))
        return ('Skip',)
    if k in ('Seq', 'If'):
        a, b = simplify(p[1]), simplify(p[2])
        if k == 'Seq':
            return seq([a, b])
        if a == b and a[0] == 'Skip':
            return ('Skip',)
        return ('If', a, b)
    if k in ('Loop', 'Call'):
        b = simplify(p[1])
        if b[0] == 'Skip':
            return ('Skip',)
        return (k, b)
    return p


def flatten(p):
    yield p
    for c in p[1:]:
        if isinstance(c, tuple) and c and isinstance(c[0], str) and c[0][0].isupper():
            yield from flatten(c)


def find_writer_imports(fn):
    """map local class name -> (module relpath, class) from the lazy imports"""
    out = {}
    for n in ast.walk(fn):
        if isinstance(n, ast.ImportFrom) and n.level == 1 and n.module:
            rel = 'femio/' + n.module.replace('.', '/') + '.py'
            for a in n.names:
                out[a.asname or a.name] = (rel, a.name)
    return out


def translate(repo):
    it = Interp(repo)
    fd = ClassInfo(repo, 'femio/fem_data.py', 'FEMData')
    w = fd.methods.get('write')
    if w is None:
        raise TranslateError('FEMData.write not found')
    it.note(fd.path, ast.get_source_segment(fd.src, w)
            + ast.get_source_segment(fd.src, fd.methods['add_extension_if_needed']))
    imports = find_writer_imports(w)
    # --- the prologue up to the file_type dispatch
    dispatch = None
    prologue = []
    for st in w.body:
        if isinstance(st, ast.If) and 'file_type ==' in ast.unparse(st.test):
            dispatch = st
            continue
        if dispatch is None:
            prologue.append(st)
    if dispatch is None:
        raise TranslateError('file_type dispatch not found')
    # the name handling: `if file_name is None: ... else: file_name = Path(file_name)`
    env0 = {'overwrite': ('OW',), 'file_name': ('P', ('PName',))}
    pro = []
    for st in prologue:
        if isinstance(st, ast.Expr) and isinstance(st.value, ast.Constant):
            continue                      # docstring
        if isinstance(st, ast.If) and ast.unparse(st.test) == 'file_name is None':
            # explicit name given: the else branch
            pro.append(it.block(st.orelse, env0, fd))
            continue
        pro.append(it.stmt(st, env0, fd))
    # --- the branches
    branches = []
    node = dispatch
    while True:
        branches.append((node.test, node.body))
        if len(node.orelse) == 1 and isinstance(node.orelse[0], ast.If):
            node = node.orelse[0]
        else:
            break
    cfg = []
    for test, body in branches:
        t = ast.unparse(test)
        if isinstance(test, ast.Compare) and isinstance(test.ops[0], ast.Eq):
            fts = [ast.literal_eval(test.comparators[0])]
        elif isinstance(test, ast.Compare) and isinstance(test.ops[0], ast.In):
            fts = list(ast.literal_eval(test.comparators[0]))
        else:
            raise TranslateError(f'unrecognised dispatch test {t}')
        env = dict(env0)
        local_imports = dict(imports)
        progs = []
        for st in body:
            if isinstance(st, ast.ImportFrom):
                continue
            progs.append(translate_branch_stmt(it, st, env, fd, local_imports))
        for ft in fts:
            cfg.append((ft, ('Call', simplify(seq(pro + progs)))))
    return cfg, it.consumed


def translate_branch_stmt(it, st, env, fd, imports):
    """`written_files = XWriter(self, ...).write(file_name=..., overwrite=overwrite, ...)`
    is inlined; everything else goes through the generic rules"""
    if isinstance(st, ast.Assign) and isinstance(st.value, ast.Call):
        c = st.value
        f = c.func
        if isinstance(f, ast.Attribute) and isinstance(f.value, ast.Call) \
                and isinstance(f.value.func, ast.Name) and f.value.func.id in imports:
            rel, clsname = imports[f.value.func.id]
            wc = ClassInfo(it.repo, rel, clsname)
            it.note(wc.path, ast.get_source_segment(wc.src, wc.cls))
            wenv = {}
            out = []
            init = wc.methods.get('__init__')
            if init is not None:
                out.append(it.inline(init, wc, f.value, env, self_env=wenv, caller=fd))
            m = wc.methods.get(f.attr)
            if m is None:
                raise TranslateError(f'{clsname}.{f.attr} not found')
            # bind: overwrite flag must be passed through
            call_env = dict(env)
            call_env.update(wenv)
            self_env = dict(wenv)
            # evaluate args in the caller's env, mark overwrite
            prog = inline_with_overwrite(it, m, wc, c, env, self_env, fd)
            out.append(prog)
            for t in st.targets:
                it.assign(t, O, env, st.lineno)
            return seq(out)
    return it.stmt(st, env, fd)


def inline_with_overwrite(it, m, owner, call, env, self_env, caller):
    # like Interp.inline, but the `overwrite=overwrite` keyword keeps its tag
    tagged = {}
    for k in call.keywords:
        if k.arg is not None and ast.unparse(k.value) == 'overwrite' \
                and env.get('overwrite') == ('OW',):
            tagged[k.arg] = ('OW',)
    prog_holder = {}
    orig_ev = it.ev

    def ev(e, en, cls):
        return orig_ev(e, en, cls)
    # bind manually
    it.depth += 1
    new = dict(self_env)
    a = m.args
    params = [x.arg for x in a.args][1:]
    defaults = dict(zip([x.arg for x in a.args][len(a.args) - len(a.defaults):], a.defaults))
    kwdefaults = {x.arg: d for x, d in zip(a.kwonlyargs, a.kw_defaults) if d is not None}
    bound = {}
    for i, arg in enumerate(call.args):
        bound[params[i]] = it.ev(arg, env, caller)
    for k in call.keywords:
        bound[k.arg] = tagged.get(k.arg, it.ev(k.value, env, caller))
    for name in params + [x.arg for x in a.kwonlyargs]:
        if name in bound:
            new[name] = bound[name]
        elif name in defaults:
            new[name] = it.ev(defaults[name], {}, owner)
        elif name in kwdefaults:
            new[name] = it.ev(kwdefaults[name], {}, owner)
        else:
            new[name] = O
    body = it.block(m.body, new, owner)
    it.depth -= 1
    return ('Call', body) if has_effect(body) else ('Skip',)


HEADER = """(* GENERATED by /verif/translate/c07_effects.py from /repo - do not edit.
   One effect program per output format of FEMData.write (overwrite=False). *)
From Coq Require Import String List.
Import ListNotations.
From FV.C07 Require Import Model.
Open Scope string_scope.

"""


def emit(cfg):
    out = [HEADER]
    names = []
    for ft, prog in cfg:
        nm = 'prog_' + ft
        names.append((ft, nm))
        out.append(f'Definition {nm} : prog :=\n{prog_coq(prog)}.\n\n')
    out.append('Definition cfg : list (string * prog) :=\n  [' + ';\n   '.join(
        f'({coq_str(ft)}, {nm})' for ft, nm in names) + '].\n')
    return ''.join(out)


if __name__ == '__main__':
    repo = sys.argv[1] if len(sys.argv) > 1 else '/repo'
    try:
        cfg, consumed = translate(repo)
    except TranslateError as e:
        print('TRANSLATE-ERROR', e)
        sys.exit(2)
    sys.stdout.write(emit(cfg))
