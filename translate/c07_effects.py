"""Fail-closed translator: FEMData.write + every format writer -> the effect
program of coq/C07/Model.v (Guard / Create / Append / Delete / Rename / If /
Loop / Call / Try / Finally ...).

Abstract interpretation of the *whole* body of FEMData.write, once per output
format (file_type bound to the constant, overwrite bound to "some falsy
value", file_name to the name the caller typed).  Nothing is matched on
spelling: tests are evaluated to an abstract truth value and branches whose
test is decided are pruned, helpers (methods, static methods, writer classes
reached through the lazy imports) are inlined, the value a helper returns is
computed by interpreting its body.

Abstract values:
  ('P', pexp)  a path expression over the name the caller typed
  ('D', pexp)  the parent directory of such a path
  ('S', str)   a constant string          ('B', bool) / ('None',) constants
  ('OW',)      the caller's overwrite flag (falsy: False, None, 0, ...)
  ('Cls', rel, name)  a class imported from femio    ('W', ClassInfo, env) an instance
  ('T', [...]) a tuple / list display
  ('O',)       anything else              ('X',) differs between branches
Truth values of tests: True / False / None (unknown) / ('E', pexp) "the file
exists" / ('NE', pexp) / ('EW', pexp, str) "str(p).endswith(s)" / ('NEW', ...).
Rules (anything outside them raises TranslateError = the translator cannot
read the region; the harness then falls back to the baseline model + widened
correspondence):
  * `if <E p>: <always raises>`  (after pruning `not overwrite`)   -> Guard p
  * open(P, 'w'|'a'|'r')                                  -> Create/Append/-
  * P.unlink() / os.remove(P) / os.unlink(P)              -> Delete
  * os.replace(P, Q) / os.rename / P.replace(Q) / P.rename(Q) / shutil.move -> Rename
  * obj.m(...) with m defined in the class (or FEMWriter)  -> inlined Call
  * any other call that is handed a path value            -> Create (it may
    write the file); whitelisted read-only uses: str, Path, print, exists,
    mkdir, f-strings, exceptions
  * if / for / while around effects                        -> If / Loop
  * try/except, try/finally                                -> Try / Finally
"""
import ast
import hashlib
import sys
from pathlib import Path


class TranslateError(Exception):
    pass


O = ('O',)
OW = ('OW',)
NONE = ('None',)
READONLY_FUNCS = {'str', 'Path', 'print', 'ValueError', 'isinstance', 'len',
                  'NotImplementedError', 'int', 'list', 'repr', 'bool', 'type',
                  'FileExistsError', 'OSError', 'RuntimeError', 'tuple', 'sorted',
                  'enumerate', 'zip', 'range', 'dict', 'set', 'float', 'hasattr'}
READONLY_METHODS = {'exists', 'mkdir', 'is_file', 'is_dir', 'endswith', 'startswith',
                    'with_suffix', 'with_name', 'format'}
OTHER = '<other>'                 # any file_type the dispatch does not know
PROG_OPS = {'Skip', 'Seq', 'Guard', 'Create', 'Append', 'If', 'Loop', 'Call', 'Return',
            'Raise', 'Delete', 'Rename', 'Try', 'Finally', 'Probe'}
FILE_EVENTS = ('Guard', 'Create', 'Append', 'Delete', 'Rename', 'Probe')


def coq_str(s):
    return '"' + s.replace('"', '""') + '"'


def pexp_coq(p):
    k = p[0]
    if k == 'PName':
        return 'PName'
    if k == 'PIfEnds':
        return (f'(PIfEnds {coq_str(p[1])} {pexp_coq(p[2])} {pexp_coq(p[3])} '
                f'{pexp_coq(p[4])})')
    return f'({k} {coq_str(p[1])} {pexp_coq(p[2])})'


def prog_coq(p, ind=2):
    k = p[0]
    pad = ' ' * ind
    if k in ('Skip', 'Return', 'Raise'):
        return pad + k
    if k in ('Guard', 'Create', 'Append', 'Delete', 'Probe'):
        return pad + f'({k} {pexp_coq(p[1])})'
    if k == 'Rename':
        return pad + f'(Rename {pexp_coq(p[1])} {pexp_coq(p[2])})'
    if k in ('Seq', 'If', 'Try', 'Finally'):
        return pad + f'({k}\n' + prog_coq(p[1], ind + 1) + '\n' + prog_coq(p[2], ind + 1) + ')'
    if k in ('Loop', 'Call'):
        return pad + f'({k}\n' + prog_coq(p[1], ind + 1) + ')'
    raise AssertionError(k)


def seq(ps):
    ps = [p for p in ps if p[0] != 'Skip']
    if not ps:
        return ('Skip',)
    out = ps[-1]
    for p in reversed(ps[:-1]):
        out = ('Seq', p, out)
    return out


def subprogs(p):
    k = p[0]
    if k in ('Seq', 'If', 'Try', 'Finally'):
        return [p[1], p[2]]
    if k in ('Loop', 'Call'):
        return [p[1]]
    return []


def flatten(p):
    yield p
    for c in subprogs(p):
        yield from flatten(c)


def has_effect(p):
    return any(q[0] in FILE_EVENTS + ('Return', 'Raise') for q in flatten(p))


def has_file_event(p):
    return any(q[0] in FILE_EVENTS for q in flatten(p))


def definitely_raises(p):
    """every run of p ends in Raised and p has no file event (the body of a
    refusal: `raise ValueError(...)`, possibly after prints)"""
    k = p[0]
    if k == 'Raise':
        return True
    if has_file_event(p):
        return False
    if k == 'Seq':
        if definitely_raises(p[1]):
            return True
        return not any(q[0] == 'Return' for q in flatten(p[1])) and definitely_raises(p[2])
    if k == 'If':
        return definitely_raises(p[1]) and definitely_raises(p[2])
    if k == 'Call':
        return definitely_raises(p[1])
    return False


def pathish(v):
    if v[0] in ('P', 'D', 'X', 'W', 'Cls'):
        return True
    if v[0] == 'T':
        return any(pathish(x) for x in v[1])
    if v[0] == 'M':
        return any(pathish(x) for x in v[1].values())
    return False


class ClassInfo:
    def __init__(self, repo, relpath, clsname):
        self.rel = relpath
        self.path = Path(repo) / relpath
        if not self.path.exists():
            raise TranslateError(f'module {relpath} not found')
        self.src = self.path.read_text()
        self.tree = ast.parse(self.src)
        self.cls = None
        self.functions = {}       # module-level helpers
        self.consts = {}          # module-level NAME = 'constant'
        self.imports = {}         # module-level `from .x import Y` -> (rel, Y)
        for n in self.tree.body:
            if isinstance(n, ast.ClassDef) and n.name == clsname:
                self.cls = n
            elif isinstance(n, ast.FunctionDef):
                self.functions[n.name] = n
            elif isinstance(n, ast.Assign) and len(n.targets) == 1 \
                    and isinstance(n.targets[0], ast.Name) and isinstance(n.value, ast.Constant):
                self.consts[n.targets[0].id] = n.value
            elif isinstance(n, ast.ImportFrom):
                for a in n.names:
                    r = resolve_import(relpath, n)
                    if r is not None:
                        self.imports[a.asname or a.name] = (r, a.name)
        if self.cls is None:
            raise TranslateError(f'class {clsname} not found in {relpath}')
        self.methods = {n.name: n for n in self.cls.body
                        if isinstance(n, ast.FunctionDef)}
        self.class_consts = {}
        for n in self.cls.body:
            if isinstance(n, ast.Assign) and len(n.targets) == 1 \
                    and isinstance(n.targets[0], ast.Name) and isinstance(n.value, ast.Constant):
                self.class_consts[n.targets[0].id] = n.value
        self.bases = [ast.unparse(b) for b in self.cls.bases]


def resolve_import(relpath, node):
    """femio-relative path of the module a `from .a.b import X` names"""
    if not node.level or not node.module:
        return None
    parts = relpath.split('/')[:-1]
    if node.level > 1:
        parts = parts[:len(parts) - (node.level - 1)]
    return '/'.join(parts + node.module.split('.')) + '.py'


def method_kind(m):
    for d in m.decorator_list:
        if isinstance(d, ast.Name) and d.id in ('staticmethod', 'classmethod'):
            return d.id
    return 'method'


class Interp:
    def __init__(self, repo):
        self.repo = Path(repo)
        self.consumed = {}        # file -> sha256 of consumed text
        self.depth = 0
        self.vdepth = 0
        self.stack = []
        self.is_writer = {}
        self.classes = {}
        self.inst = {}            # id(constructor call) -> (value, effects)

    def note(self, path, text):
        self.consumed[str(path)] = hashlib.sha256(text.encode()).hexdigest()

    def get_class(self, rel, name):
        key = (rel, name)
        if key not in self.classes:
            ci = ClassInfo(self.repo, rel, name)
            self.classes[key] = ci
            self.note(ci.path, ast.get_source_segment(ci.src, ci.cls) + ''.join(
                ast.get_source_segment(ci.src, f) for f in ci.functions.values()))
        return self.classes[key]

    # ---------------------------------------------------------------- values
    def class_value(self, rel, nm):
        """a femio class whose instances are followed: it has a write method
        (data classes are ordinary unknown callables: a path handed to them is
        a Create)"""
        key = (rel, nm)
        if key not in self.is_writer:
            ok = False
            f = self.repo / rel
            if f.exists():
                try:
                    for n in ast.parse(f.read_text()).body:
                        if isinstance(n, ast.ClassDef) and n.name == nm:
                            ok = any(isinstance(x, ast.FunctionDef) and x.name == 'write'
                                     for x in n.body)
                except SyntaxError as e:
                    raise TranslateError(f'syntax error in {rel}: {e}')
            self.is_writer[key] = ok
        return ('Cls', rel, nm) if self.is_writer[key] else O

    def name_value(self, name, env, cls):
        if name in env:
            return env[name]
        if cls is not None:
            if name in cls.consts:
                return self.ev(cls.consts[name], {}, cls)
            if name in cls.imports:
                rel, nm = cls.imports[name]
                return self.class_value(rel, nm)
        return O

    def ev(self, e, env, cls):
        """abstract value of expression e (effects are collected separately by
        expr_effects)"""
        if isinstance(e, ast.Constant):
            if isinstance(e.value, str):
                return ('S', e.value)
            if e.value is None:
                return NONE
            if isinstance(e.value, bool):
                return ('B', e.value)
            return O
        if isinstance(e, ast.Name):
            return self.name_value(e.id, env, cls)
        if isinstance(e, (ast.Tuple, ast.List)):
            return ('T', [self.ev(x, env, cls) for x in e.elts])
        if isinstance(e, ast.Dict):
            # a constant-keyed table (dispatch on file_type through a dict)
            keys = [self.ev(k, env, cls) if k is not None else O for k in e.keys]
            vals = [self.ev(v, env, cls) for v in e.values]
            if all(k[0] == 'S' for k in keys):
                return ('M', {k[1]: v for k, v in zip(keys, vals)})
            return ('X',) if any(pathish(v) for v in vals) else O
        if isinstance(e, ast.Subscript):
            base = self.ev(e.value, env, cls)
            idx = self.ev(e.slice, env, cls)
            if base[0] == 'M':
                if idx[0] == 'S' and idx[1] in base[1]:
                    return base[1][idx[1]]
                return ('X',) if any(pathish(v) for v in base[1].values()) else O
            if base[0] == 'T':
                if isinstance(e.slice, ast.Constant) and isinstance(e.slice.value, int) \
                        and -len(base[1]) <= e.slice.value < len(base[1]):
                    return base[1][e.slice.value]
                return ('X',) if pathish(base) else O
            return ('X',) if base[0] == 'X' else O
        if isinstance(e, ast.IfExp):
            t = self.tv(e.test, env, cls)
            if t is True:
                return self.ev(e.body, env, cls)
            if t is False:
                return self.ev(e.orelse, env, cls)
            a, b = self.ev(e.body, env, cls), self.ev(e.orelse, env, cls)
            if isinstance(t, tuple) and t[0] in ('EW', 'NEW') and a[0] == 'P' and b[0] == 'P':
                if t[0] == 'NEW':
                    a, b = b, a
                return ('P', ('PIfEnds', t[2], t[1], a[1], b[1]))
            return a if a == b else ('X',) if pathish(a) or pathish(b) else O
        if isinstance(e, ast.Attribute):
            key = self.attr_key(e)
            if key is not None:
                if key in env:
                    return env[key]
                if cls is not None and e.attr in cls.class_consts:
                    return self.ev(cls.class_consts[e.attr], {}, cls)
            base = self.ev(e.value, env, cls)
            if base[0] == 'P':
                if e.attr == 'parent':
                    return ('D', base[1])      # a directory, not a file
                if e.attr in ('name', 'stem', 'suffix', 'suffixes', 'parts'):
                    return O
                raise TranslateError(f'unknown path attribute .{e.attr} line {e.lineno}')
            if base[0] == 'D':
                raise TranslateError(f'attribute .{e.attr} of a directory, line {e.lineno}')
            if base[0] == 'W':
                return base[2].get('self.' + e.attr, O)
            if base[0] == 'X':
                return ('X',)
            return O
        if isinstance(e, ast.BinOp):
            l = self.ev(e.left, env, cls)
            r = self.ev(e.right, env, cls)
            if l[0] == 'X' or r[0] == 'X':
                return ('X',)
            if isinstance(e.op, ast.Add):
                if l[0] == 'S' and r[0] == 'S':
                    return ('S', l[1] + r[1])
                if l[0] == 'P' and r[0] == 'S':
                    if l[1][0] == 'PSuffix':
                        return ('P', ('PSuffix', l[1][1] + r[1], l[1][2]))
                    return ('P', ('PSuffix', r[1], l[1]))
                if l[0] == 'P' or r[0] == 'P':
                    raise TranslateError(f'path concatenated with non-constant, line {e.lineno}')
                return O
            if isinstance(e.op, ast.Div):
                if l[0] == 'D' and r[0] == 'S':
                    return ('P', ('PSibling', r[1], l[1]))
                if l[0] in ('P', 'D') or r[0] in ('P', 'D'):
                    raise TranslateError(f'unsupported path join, line {e.lineno}')
                return O
            if l[0] in ('P', 'D') or r[0] in ('P', 'D'):
                raise TranslateError(f'unsupported operator on a path, line {e.lineno}')
            return O
        if isinstance(e, ast.Call):
            f = e.func
            if isinstance(f, ast.Name) and f.id in ('str', 'Path') and len(e.args) == 1 \
                    and not e.keywords and f.id not in env:
                return self.ev(e.args[0], env, cls)
            if isinstance(f, ast.Attribute) and f.attr == 'fspath' and len(e.args) == 1:
                return self.ev(e.args[0], env, cls)
            if isinstance(f, ast.Name) and f.id == 'bool' and len(e.args) == 1 and 'bool' not in env:
                v = self.ev(e.args[0], env, cls)
                return v if v == OW else O
            if isinstance(f, ast.Name):
                fv = self.name_value(f.id, env, cls)
                if fv[0] == 'Cls':
                    return self.instance(e, fv, env, cls)[0]
                if cls is not None and f.id in cls.functions and f.id not in env:
                    return self.ret_value(cls.functions[f.id], cls, e, env, cls, {}, 'staticmethod')
                return O
            if isinstance(f, ast.Subscript):
                fv = self.ev(f, env, cls)
                if fv[0] == 'Cls':
                    return self.instance(e, fv, env, cls)[0]
                return O
            if isinstance(f, ast.Attribute):
                if isinstance(f.value, ast.Name) and f.value.id == 'self':
                    m, owner = self.lookup_method(cls, f.attr)
                    if m is not None:
                        return self.ret_value(m, owner, e, env, cls, env, method_kind(m))
                    return O
                rv = self.ev(f.value, env, cls)
                if rv[0] == 'W':
                    m, owner = self.lookup_method(rv[1], f.attr)
                    if m is not None:
                        return self.ret_value(m, owner, e, env, cls, rv[2], method_kind(m))
                    return O
                if rv[0] == 'P' and f.attr == 'with_suffix' and len(e.args) == 1 \
                        and not e.keywords:
                    a = self.ev(e.args[0], env, cls)
                    if a[0] == 'S' and (a[1] == '' or (a[1].startswith('.') and len(a[1]) > 1
                                                        and '/' not in a[1])):
                        return ('P', ('PWithSuffix', a[1], rv[1]))
                    raise TranslateError(f'with_suffix with a non-constant suffix, line {e.lineno}')
                if rv[0] in ('P', 'D') and f.attr not in ('exists', 'is_file', 'is_dir', 'mkdir',
                                                         'unlink', 'endswith', 'startswith'):
                    raise TranslateError(f'value of path method .{f.attr}() line {e.lineno}')
            return O
        return O

    def attr_key(self, e):
        if isinstance(e.value, ast.Name) and e.value.id == 'self':
            return 'self.' + e.attr
        return None

    def instance(self, call, clsval, env, cls):
        """XWriter(...) -> ('W', class, attribute env) + the effects of __init__"""
        k = id(call)
        if k not in self.inst:
            wc = self.get_class(clsval[1], clsval[2])
            wenv = {}
            init, owner = self.lookup_method(wc, '__init__')
            eff = ('Skip',)
            if init is not None:
                eff = self.inline(init, owner, call, env, self_env=wenv, caller=cls)
            self.inst[k] = (('W', wc, wenv), eff)
        return self.inst[k]

    # ---------------------------------------------------------- truth values
    def tv(self, t, env, cls):
        """True / False / None (unknown) / ('E', pexp) / ('NE', pexp) /
        ('EW', pexp, suffix) / ('NEW', pexp, suffix).  overwrite is falsy."""
        if isinstance(t, ast.UnaryOp) and isinstance(t.op, ast.Not):
            v = self.tv(t.operand, env, cls)
            if v is None:
                return None
            if isinstance(v, bool):
                return not v
            flip = {'E': 'NE', 'NE': 'E', 'EW': 'NEW', 'NEW': 'EW'}
            return (flip[v[0]],) + v[1:]
        if isinstance(t, ast.BoolOp):
            vals = [self.tv(x, env, cls) for x in t.values]
            neutral = isinstance(t.op, ast.And)
            if any(v is (not neutral) for v in vals):
                return not neutral
            rest = [v for v in vals if v is not neutral]
            if not rest:
                return neutral
            if len(rest) == 1:
                return rest[0]
            return None
        if isinstance(t, ast.Compare) and len(t.ops) == 1:
            l = self.ev(t.left, env, cls)
            r = self.ev(t.comparators[0], env, cls)
            op = t.ops[0]
            if isinstance(op, (ast.Eq, ast.NotEq)) and l[0] == 'S' and r[0] == 'S':
                return (l[1] == r[1]) == isinstance(op, ast.Eq)
            if isinstance(op, (ast.In, ast.NotIn)) and l[0] == 'S' and r[0] == 'T' \
                    and all(x[0] == 'S' for x in r[1]):
                return (l[1] in [x[1] for x in r[1]]) == isinstance(op, ast.In)
            if isinstance(op, (ast.Is, ast.IsNot)) and (r == NONE or l == NONE):
                other = l if r == NONE else r
                if other == NONE:
                    return isinstance(op, ast.Is)
                if other[0] in ('P', 'D', 'S', 'W', 'T', 'B', 'Cls'):
                    return isinstance(op, ast.IsNot)
                return None
            return None
        if isinstance(t, ast.Call):
            f = t.func
            if isinstance(f, ast.Attribute) and f.attr == 'exists' and not t.args \
                    and not t.keywords:
                v = self.ev(f.value, env, cls)
                if v[0] == 'P':
                    return ('E', v[1])
                return None
            if isinstance(f, ast.Attribute) and f.attr == 'exists' and len(t.args) == 1 \
                    and ast.unparse(f.value) in ('os.path', 'path'):
                v = self.ev(t.args[0], env, cls)
                if v[0] == 'P':
                    return ('E', v[1])
                return None
            if isinstance(f, ast.Attribute) and f.attr == 'endswith' and len(t.args) == 1 \
                    and not t.keywords:
                v = self.ev(f.value, env, cls)
                a = self.ev(t.args[0], env, cls)
                if v[0] == 'P' and a[0] == 'S':
                    return ('EW', v[1], a[1])
                return None
            if isinstance(f, ast.Name) and f.id == 'bool' and len(t.args) == 1:
                return self.tv(t.args[0], env, cls)
            return None
        v = self.ev(t, env, cls)
        if v == OW or v == NONE:
            return False
        if v[0] == 'B':
            return v[1]
        if v[0] == 'S':
            return bool(v[1])
        if v[0] in ('P', 'D', 'W', 'Cls'):
            return True
        if v[0] == 'T':
            return bool(v[1])
        return None

    # -------------------------------------------------------- return values
    def ret_value(self, m, owner, call, env, caller, self_env, kind):
        """abstract value returned by a helper: its body is interpreted in
        value mode (assignments, decided / endswith tests, returns); O when the
        body is anything else"""
        self.vdepth += 1
        try:
            if self.vdepth > 6:
                return O
            new = self.bind(m, owner, call, env, caller, self_env, kind)
            r = self.value_block(list(m.body), new, owner, 0)
            if r is not None and r[0] == 'ret':
                return r[1]
            return O
        finally:
            self.vdepth -= 1

    def value_block(self, stmts, env, cls, fuel):
        if fuel > 6:
            return None
        for i, st in enumerate(stmts):
            if isinstance(st, (ast.Expr, ast.Pass, ast.Import, ast.ImportFrom)):
                continue
            if isinstance(st, ast.Assign) and all(isinstance(t, (ast.Name, ast.Attribute))
                                                  for t in st.targets):
                val = self.ev(st.value, env, cls)
                for t in st.targets:
                    self.assign(t, val, env, st.lineno)
                continue
            if isinstance(st, ast.Return):
                return ('ret', self.ev(st.value, env, cls) if st.value is not None else NONE)
            if isinstance(st, ast.Raise):
                return ('raise',)
            if isinstance(st, ast.If):
                t = self.tv(st.test, env, cls)
                rest = stmts[i + 1:]
                if t is True:
                    return self.value_block(list(st.body) + rest, env, cls, fuel)
                if t is False:
                    return self.value_block(list(st.orelse) + rest, env, cls, fuel)
                a = self.value_block(list(st.body) + rest, dict(env), cls, fuel + 1)
                b = self.value_block(list(st.orelse) + rest, dict(env), cls, fuel + 1)
                if a is None or b is None:
                    return None
                if a[0] == 'raise':
                    return b if t is None or t[0] not in ('E', 'NE') else None
                if b[0] == 'raise':
                    return a if t is None or t[0] not in ('E', 'NE') else None
                if a[0] != 'ret' or b[0] != 'ret':
                    return None
                if a[1] == b[1]:
                    return a
                if isinstance(t, tuple) and t[0] in ('EW', 'NEW') \
                        and a[1][0] == 'P' and b[1][0] == 'P':
                    if t[0] == 'NEW':
                        a, b = b, a
                    return ('ret', ('P', ('PIfEnds', t[2], t[1], a[1][1], b[1][1])))
                if a[1][0] in ('P', 'D') or b[1][0] in ('P', 'D'):
                    return ('ret', ('X',))
                return ('ret', O)
            return None
        return ('fall',)

    # ---------------------------------------------------------------- calls
    def path_args(self, call, env, cls):
        vals = []

        def add(v):
            if v[0] == 'P':
                vals.append(v[1])
            elif v[0] == 'D':
                vals.append(None)
            elif v[0] == 'T':
                for x in v[1]:
                    add(x)
            elif v[0] == 'X':
                vals.append(None)
        for a in list(call.args) + [k.value for k in call.keywords]:
            add(self.ev(a, env, cls))
        return vals

    def call_effects(self, call, env, cls):
        """effect program of one call expression (arguments first)"""
        out = []
        for a in list(call.args) + [k.value for k in call.keywords]:
            out.append(self.expr_effects(a, env, cls))
        f = call.func
        if isinstance(f, ast.Attribute):
            out.append(self.expr_effects(f.value, env, cls))
        # open()
        if isinstance(f, ast.Name) and f.id == 'open' and 'open' not in env:
            v = self.ev(call.args[0], env, cls) if call.args else O
            mode = 'r'
            if len(call.args) > 1:
                mv = self.ev(call.args[1], env, cls)
                if mv[0] != 'S':
                    raise TranslateError(f'open() with non-constant mode, line {call.lineno}')
                mode = mv[1]
            for k in call.keywords:
                if k.arg == 'mode':
                    mv = self.ev(k.value, env, cls)
                    if mv[0] != 'S':
                        raise TranslateError(f'open() with non-constant mode, line {call.lineno}')
                    mode = mv[1]
                elif k.arg == 'file':
                    v = self.ev(k.value, env, cls)
            if v[0] != 'P':
                if 'r' in mode and '+' not in mode and v[0] not in ('D', 'X'):
                    return seq(out)
                raise TranslateError(f'open() for writing on an unknown path, line {call.lineno}')
            if 'w' in mode or 'x' in mode:
                out.append(('Create', v[1]))
            elif 'a' in mode or '+' in mode:
                out.append(('Append', v[1]))
            return seq(out)
        # constructors of femio classes and module-level helpers
        if isinstance(f, ast.Subscript):
            fv = self.ev(f, env, cls)
            if fv[0] == 'Cls':
                out.append(self.instance(call, fv, env, cls)[1])
                return seq(out)
            if fv[0] == 'X':
                raise TranslateError(f'call of an unknown table entry, line {call.lineno}')
        if isinstance(f, ast.Name):
            fv = self.name_value(f.id, env, cls)
            if fv[0] == 'Cls':
                out.append(self.instance(call, fv, env, cls)[1])
                return seq(out)
            if cls is not None and f.id in cls.functions and f.id not in env:
                out.append(self.inline(cls.functions[f.id], cls, call, env, self_env={},
                                       caller=cls, kind='staticmethod'))
                return seq(out)
        # removing / moving files
        if isinstance(f, ast.Attribute):
            rv = self.ev(f.value, env, cls)
            recv = ast.unparse(f.value)
            pa = [self.ev(a, env, cls) for a in call.args]
            if recv == 'fileinput' and f.attr in ('input', 'FileInput'):
                # the standard library's in-place filter: unlink <f><backup>, rename f to
                # it, create f anew, unlink the backup when done
                kw = {k.arg: k.value for k in call.keywords}
                files = pa[0] if pa else self.ev(kw['files'], env, cls) if 'files' in kw else O
                inplace = call.args[1] if len(call.args) > 1 else kw.get('inplace')
                backup = call.args[2] if len(call.args) > 2 else kw.get('backup')
                if files[0] != 'P':
                    if pathish(files):
                        raise TranslateError(f'fileinput on unknown paths, line {call.lineno}')
                    return seq(out)
                if inplace is None or (isinstance(inplace, ast.Constant) and not inplace.value):
                    return seq(out)
                if not isinstance(inplace, ast.Constant):
                    raise TranslateError(f'fileinput with non-constant inplace, line {call.lineno}')
                ext = '.bak'
                if backup is not None:
                    bv = self.ev(backup, env, cls)
                    if bv[0] != 'S':
                        raise TranslateError(f'fileinput with non-constant backup, line {call.lineno}')
                    ext = bv[1] or '.bak'
                bak = ('PSuffix', ext, files[1])
                out += [('Delete', bak), ('Rename', files[1], bak), ('Create', files[1]),
                        ('Delete', bak)]
                return seq(out)
            if rv[0] == 'P' and f.attr == 'unlink':
                out += [('Delete', rv[1]), ('If', ('Raise',), ('Skip',))]
                return seq(out)
            if recv == 'os' and f.attr in ('remove', 'unlink') and pa and pa[0][0] == 'P':
                out += [('Delete', pa[0][1]), ('If', ('Raise',), ('Skip',))]
                return seq(out)
            if rv[0] == 'P' and f.attr in ('replace', 'rename') and len(pa) == 1 \
                    and pa[0][0] == 'P':
                out.append(('Rename', rv[1], pa[0][1]))
                return seq(out)
            if recv in ('os', 'shutil') and f.attr in ('replace', 'rename', 'move') \
                    and len(pa) == 2 and pa[0][0] == 'P' and pa[1][0] == 'P':
                out.append(('Rename', pa[0][1], pa[1][1]))
                return seq(out)
        # obj.method(...)  -> inline
        if isinstance(f, ast.Attribute):
            if isinstance(f.value, ast.Name) and f.value.id == 'self':
                m, owner = self.lookup_method(cls, f.attr)
                if m is not None:
                    out.append(self.inline(m, owner, call, env, self_env=env, caller=cls,
                                           kind=method_kind(m)))
                    return seq(out)
                # unknown self method: could touch self.* paths
                if any(k.startswith('self.') and v[0] in ('P', 'D') for k, v in env.items()) \
                        or self.path_args(call, env, cls):
                    raise TranslateError(f'call of unknown method self.{f.attr} line {call.lineno}')
                return seq(out)
            if rv[0] == 'W':
                m, owner = self.lookup_method(rv[1], f.attr)
                if m is None:
                    raise TranslateError(f'{rv[1].cls.name}.{f.attr} not found, line {call.lineno}')
                out.append(self.inline(m, owner, call, env, self_env=rv[2], caller=cls,
                                       kind=method_kind(m)))
                return seq(out)
        # read-only uses
        if isinstance(f, ast.Name) and f.id in READONLY_FUNCS:
            return seq(out)
        if isinstance(f, ast.Attribute) and f.attr in READONLY_METHODS:
            return seq(out)
        # any other call handed a file path may write it
        for p in self.path_args(call, env, cls):
            if p is None:
                raise TranslateError(f'directory handed to unknown call, line {call.lineno}')
            out.append(('Create', p))
        # a method call *on* a path value (p.write_text, p.touch, p.open, ...)
        if isinstance(f, ast.Attribute):
            v = self.ev(f.value, env, cls)
            if v[0] == 'P':
                out.append(('Create', v[1]))
            elif v[0] in ('D', 'X'):
                raise TranslateError(f'unknown method on a directory, line {call.lineno}')
        return seq(out)

    def expr_effects(self, e, env, cls):
        if e is None:
            return ('Skip',)
        if isinstance(e, ast.Call):
            return self.call_effects(e, env, cls)
        if isinstance(e, (ast.Lambda, ast.ListComp, ast.GeneratorExp, ast.DictComp, ast.SetComp)):
            inner = seq([self.expr_effects(c, env, cls) for c in ast.iter_child_nodes(e)
                         if isinstance(c, ast.expr)])
            if isinstance(e, ast.Lambda):
                return inner
            gens = seq([self.expr_effects(g.iter, env, cls) for g in e.generators]
                       + [self.expr_effects(i, env, cls) for g in e.generators for i in g.ifs])
            body = inner
            return seq([gens, ('Loop', body)]) if has_effect(body) else gens
        out = []
        for c in ast.iter_child_nodes(e):
            if isinstance(c, ast.expr):
                out.append(self.expr_effects(c, env, cls))
            elif isinstance(c, ast.keyword):
                out.append(self.expr_effects(c.value, env, cls))
            elif isinstance(c, ast.comprehension):
                raise TranslateError('unexpected comprehension')
        return seq(out)

    def lookup_method(self, cls, name):
        if cls is None:
            return None, None
        if name in cls.methods:
            return cls.methods[name], cls
        for b in cls.bases:
            if b.endswith('FEMWriter'):
                fw = self.get_class('femio/fem_writer.py', 'FEMWriter')
                if name in fw.methods:
                    return fw.methods[name], fw
        return None, None

    def bind(self, m, owner, call, env, caller, self_env, kind):
        new = {k: v for k, v in self_env.items() if k.startswith('self.')}
        a = m.args
        params = [x.arg for x in a.posonlyargs + a.args]
        if kind != 'staticmethod':
            params = params[1:]
        allpos = [x.arg for x in a.posonlyargs + a.args]
        defaults = dict(zip(allpos[len(allpos) - len(a.defaults):], a.defaults))
        kwdefaults = {x.arg: d for x, d in zip(a.kwonlyargs, a.kw_defaults) if d is not None}
        bound = {}
        for i, arg in enumerate(call.args):
            if isinstance(arg, ast.Starred):
                raise TranslateError(f'*args call, line {call.lineno}')
            v = self.ev(arg, env, caller)
            if i < len(params):
                bound[params[i]] = v
            elif v[0] in ('P', 'D', 'X', 'T'):
                raise TranslateError(f'path passed through *args, line {call.lineno}')
        for k in call.keywords:
            if k.arg is None:
                raise TranslateError('**kwargs call')
            bound[k.arg] = self.ev(k.value, env, caller)
        for name in params + [x.arg for x in a.kwonlyargs]:
            if name in bound:
                new[name] = bound[name]
            elif name in defaults:
                new[name] = self.ev(defaults[name], {}, owner)
            elif name in kwdefaults:
                new[name] = self.ev(kwdefaults[name], {}, owner)
            else:
                new[name] = O
        return new

    def inline(self, m, owner, call, env, self_env, caller=None, kind='method'):
        caller = caller or owner
        self.depth += 1
        self.stack.append(m.name)
        if self.depth > 12 or self.stack.count(m.name) > 2:
            raise TranslateError('inlining too deep (recursion?): ' + ' > '.join(self.stack))
        new = self.bind(m, owner, call, env, caller, self_env, kind)
        body = self.block(m.body, new, owner)
        self.stack.pop()
        # self.* assignments made by the callee are visible to the caller
        for k, v in new.items():
            if k.startswith('self.'):
                self_env[k] = v
        self.depth -= 1
        return ('Call', body) if has_effect(body) else ('Skip',)

    # ------------------------------------------------------------ statements
    def block(self, stmts, env, cls):
        out = []
        for st in stmts:
            out.append(self.stmt(st, env, cls))
        return seq(out)

    def assign(self, target, val, env, lineno):
        if isinstance(target, ast.Name):
            env[target.id] = val
        elif isinstance(target, ast.Attribute):
            key = self.attr_key(target)
            if key is not None:
                env[key] = val
            elif val[0] in ('P', 'D', 'X'):
                raise TranslateError(f'path stored in a foreign attribute, line {lineno}')
        elif isinstance(target, (ast.Tuple, ast.List)):
            if val[0] == 'T' and len(val[1]) == len(target.elts) \
                    and not any(isinstance(t, ast.Starred) for t in target.elts):
                for t, v in zip(target.elts, val[1]):
                    self.assign(t, v, env, lineno)
            else:
                if val[0] in ('P', 'D', 'X', 'T'):
                    raise TranslateError(f'path unpacked from an unknown sequence, line {lineno}')
                for t in target.elts:
                    self.assign(t, O, env, lineno)
        elif isinstance(target, ast.Subscript):
            if val[0] in ('P', 'D', 'X') or (val[0] == 'T' and any(
                    v[0] in ('P', 'D', 'X') for v in val[1])):
                raise TranslateError(f'path stored in a container, line {lineno}')
        elif isinstance(target, ast.Starred):
            self.assign(target.value, O, env, lineno)
        else:
            raise TranslateError(f'unsupported assignment target line {lineno}')

    def merge(self, env, e1, e2):
        for k in set(e1) | set(e2):
            v1, v2 = e1.get(k, O), e2.get(k, O)
            if v1 == v2:
                env[k] = v1
            else:
                # X: may be a path, unknown which; O: certainly carries no path
                env[k] = ('X',) if pathish(v1) or pathish(v2) else O

    def stmt(self, st, env, cls):
        if isinstance(st, ast.Expr):
            return self.expr_effects(st.value, env, cls)
        if isinstance(st, (ast.Assign, ast.AnnAssign, ast.AugAssign)):
            value = st.value
            eff = self.expr_effects(value, env, cls)
            if isinstance(st, ast.AugAssign):
                val = O
                targets = [st.target]
                v = self.ev(st.target, env, cls)
                if v[0] in ('P', 'D', 'X'):
                    raise TranslateError(f'augmented assignment to a path, line {st.lineno}')
            else:
                val = self.ev(value, env, cls) if value is not None else O
                targets = st.targets if isinstance(st, ast.Assign) else [st.target]
            for t in targets:
                self.assign(t, val, env, st.lineno)
            return eff
        if isinstance(st, ast.Return):
            return seq([self.expr_effects(st.value, env, cls), ('Return',)])
        if isinstance(st, ast.Raise):
            return seq([self.expr_effects(st.exc, env, cls), ('Raise',)])
        if isinstance(st, ast.If):
            t = self.tv(st.test, env, cls)
            test = self.expr_effects(st.test, env, cls)
            if t is True:
                return seq([test, self.block(st.body, env, cls)])
            if t is False:
                return seq([test, self.block(st.orelse, env, cls)])
            e1, e2 = dict(env), dict(env)
            a = self.block(st.body, e1, cls)
            b = self.block(st.orelse, e2, cls)
            if isinstance(t, tuple) and t[0] in ('E', 'NE'):
                # an existence test of a would-be target: it has to be a refusal
                if t[0] == 'NE':
                    a, b, e1, e2 = b, a, e2, e1
                if not definitely_raises(a):
                    # the answer only steers a branch ("remove it if it is there"):
                    # looking establishes nothing, both branches stay possible
                    self.merge(env, e1, e2)
                    return seq([test, ('Probe', t[1]), ('If', a, b)])
                env.clear()
                env.update(e2)
                return seq([test, ('Guard', t[1]), b])
            self.merge(env, e1, e2)
            if has_effect(a) or has_effect(b):
                return seq([test, ('If', a, b)])
            return test
        if isinstance(st, (ast.For, ast.While)):
            head = self.expr_effects(st.iter if isinstance(st, ast.For) else st.test, env, cls)
            if isinstance(st, ast.While):
                t = self.tv(st.test, env, cls)
                if isinstance(t, tuple) and t[0] in ('E', 'NE'):
                    raise TranslateError(f'loop on the existence of a target, line {st.lineno}')
            if isinstance(st, ast.For):
                it = self.ev(st.iter, env, cls)
                if it[0] == 'T' and it[1] and all(v[0] == 'P' for v in it[1]) \
                        and isinstance(st.target, ast.Name) and not st.orelse \
                        and not any(isinstance(n, (ast.Break, ast.Continue))
                                    for b in st.body for n in ast.walk(b)):
                    # a loop over a constant tuple of known paths is its unrolling
                    out = [head]
                    for v in it[1]:
                        env[st.target.id] = v
                        out.append(self.block(st.body, env, cls))
                    return seq(out)
                pathish = it[0] in ('P', 'D', 'X') or (it[0] == 'T' and any(
                    v[0] in ('P', 'D', 'X', 'T') for v in it[1]))
                if pathish and not isinstance(st.target, ast.Name):
                    raise TranslateError(f'loop over paths, line {st.lineno}')
                # X = "some path, unknown which": every use other than printing fails closed
                self.assign(st.target, ('X',) if pathish else O, env, st.lineno)
            e1 = dict(env)
            body = self.block(st.body, e1, cls)
            # a second pass with the merged environment: loop-carried values
            e2 = dict(env)
            self.merge(e2, env, e1)
            body2 = self.block(st.body, dict(e2), cls)
            if body2 != body:
                raise TranslateError(f'loop-carried path value, line {st.lineno}')
            self.merge(env, dict(env), e1)
            if st.orelse:
                raise TranslateError(f'loop else clause, line {st.lineno}')
            return seq([head, ('Loop', body)]) if has_effect(body) else head
        if isinstance(st, ast.With):
            out = []
            for it in st.items:
                out.append(self.expr_effects(it.context_expr, env, cls))
                if it.optional_vars is not None:
                    self.assign(it.optional_vars, O, env, st.lineno)
            out.append(self.block(st.body, env, cls))
            return seq(out)
        if isinstance(st, ast.ImportFrom):
            rel = resolve_import(cls.rel, st) if cls is not None else None
            for a in st.names:
                env[a.asname or a.name] = self.class_value(rel, a.name) if rel is not None else O
            return ('Skip',)
        if isinstance(st, ast.Import):
            return ('Skip',)
        if isinstance(st, (ast.Pass, ast.Break, ast.Continue,
                           ast.Global, ast.Nonlocal, ast.Assert, ast.Delete)):
            if isinstance(st, (ast.Break, ast.Continue)):
                # inside Loop: ends the iteration; modelled conservatively by
                # the loop count chosen by the oracle
                return ('Skip',)
            return ('Skip',)
        if isinstance(st, ast.FunctionDef):
            # nested helper: scanned for effects when defined (conservative)
            e1 = dict(env)
            body = self.block(st.body, e1, cls)
            if has_file_event(body):
                raise TranslateError(f'nested function with file effects, line {st.lineno}')
            env[st.name] = O
            return ('Skip',)
        if isinstance(st, ast.Try):
            e0 = dict(env)
            e_body = dict(env)
            body = self.block(list(st.body) + list(st.orelse), e_body, cls)
            # the handler may be entered from anywhere in the body
            e_h = dict(env)
            self.merge(e_h, e0, e_body)
            res = None
            hs = []
            e_after = [e_body]
            for h in st.handlers:
                eh = dict(e_h)
                if h.name:
                    eh[h.name] = O
                hs.append(self.block(h.body, eh, cls))
                e_after.append(eh)
            if st.handlers:
                # no handler may match: the exception then propagates
                hp = ('Raise',)
                for h in reversed(hs):
                    hp = ('If', h, hp)
                res = ('Try', body, hp)
            else:
                res = body
            acc = e_after[0]
            for e in e_after[1:]:
                m = {}
                self.merge(m, acc, e)
                acc = m
            if st.finalbody:
                ef = dict(env)
                self.merge(ef, e0, acc)
                fin = self.block(st.finalbody, ef, cls)
                res = ('Finally', res, fin)
                acc = ef
            env.clear()
            env.update(acc)
            return res if has_effect(res) else ('Skip',)
        raise TranslateError(f'unsupported statement {type(st).__name__} line {st.lineno}')


def simplify(p):
    """a method call without file events only matters through whether it may
    raise: Call(body) -> If Raise Skip / Skip (an over-approximation)"""
    k = p[0]
    if k == 'Call' and not has_file_event(p[1]):
        if any(q[0] == 'Raise' for q in flatten(p[1])):
            return ('If', ('Raise',), ('Skip',))
        return ('Skip',)
    if k == 'Seq':
        return seq([simplify(p[1]), simplify(p[2])])
    if k == 'If':
        a, b = simplify(p[1]), simplify(p[2])
        if a == b and a[0] == 'Skip':
            return ('Skip',)
        return ('If', a, b)
    if k in ('Try', 'Finally'):
        a, b = simplify(p[1]), simplify(p[2])
        if k == 'Finally' and b[0] == 'Skip':
            return a
        if k == 'Try' and not any(q[0] in ('Raise', 'Guard') for q in flatten(a)):
            return a
        return (k, a, b)
    if k in ('Loop', 'Call'):
        b = simplify(p[1])
        if b[0] == 'Skip':
            return ('Skip',)
        return (k, b)
    return p


def formats_of(w):
    """the constants file_type is compared with, in order of appearance"""
    found = []
    for n in ast.walk(w):
        if isinstance(n, ast.Compare) and isinstance(n.left, ast.Name) \
                and n.left.id == 'file_type' and len(n.ops) == 1:
            c = n.comparators[0]
            try:
                v = ast.literal_eval(c)
            except Exception:  # noqa
                continue
            vs = [v] if isinstance(v, str) else list(v) if isinstance(v, (list, tuple, set)) else []
            for x in vs:
                if isinstance(x, str):
                    found.append((n.lineno, n.col_offset, x))
    # canonical order: the programs do not depend on where a branch stands
    return sorted({x for _, _, x in found})


def translate(repo):
    it = Interp(repo)
    fd = it.get_class('femio/fem_data.py', 'FEMData')
    w = fd.methods.get('write')
    if w is None:
        raise TranslateError('FEMData.write not found')
    it.note(fd.path, ast.get_source_segment(fd.src, w) + ''.join(
        ast.get_source_segment(fd.src, m) for n, m in fd.methods.items()
        if n in ('add_extension_if_needed',)))
    fts = formats_of(w)
    if not fts:
        raise TranslateError('no file_type dispatch found in FEMData.write')
    a = w.args
    params = [x.arg for x in a.posonlyargs + a.args + a.kwonlyargs][1:]
    for need in ('file_type', 'file_name', 'overwrite'):
        if need not in params:
            raise TranslateError(f'FEMData.write has no parameter {need}')
    if a.vararg or a.kwarg:
        raise TranslateError('FEMData.write takes *args/**kwargs')
    cfg = []
    for ft in fts + [OTHER]:
        it.inst.clear()
        it.depth = 0
        it.stack = []
        env = {p: O for p in params}
        env['file_type'] = ('S', ft if ft != OTHER else '\0no such format')
        env['overwrite'] = OW
        env['file_name'] = ('P', ('PName',))
        body = it.block(w.body, env, fd)
        cfg.append((ft, ('Call', simplify(body))))
    return cfg, it.consumed


def prog_name(ft):
    return 'prog_' + ('other' if ft == OTHER else ft)


HEADER = """(* GENERATED by /verif/translate/c07_effects.py from /repo - do not edit.
   One effect program per output format of FEMData.write (overwrite falsy);
   "<other>" is any file_type the dispatch does not know. *)
From Coq Require Import String List.
Import ListNotations.
From FV.C07 Require Import Model.
Open Scope string_scope.

"""


def emit(cfg, open_formats=()):
    out = [HEADER]
    names = []
    for ft, prog in cfg:
        nm = prog_name(ft)
        names.append((ft, nm))
        out.append(f'Definition {nm} : prog :=\n{prog_coq(prog)}.\n\n')
    out.append('Definition cfg : list (string * prog) :=\n  [' + ';\n   '.join(
        f'({coq_str(ft)}, {nm})' for ft, nm in names) + '].\n')
    out.append(
        '\n(* formats for which known_findings.d/C07.json lists an OPEN defect: while their '
        'program\n   fails the static check they are left out of what is claimed proved '
        '(and the\n   refutation is proved instead, gen/Refuted.v) *)\n'
        'Definition open_findings : list string :=\n  ['
        + '; '.join(coq_str(f) for f in open_formats) + '].\n\n'
        'Definition cfg_proved : list (string * prog) :=\n'
        '  filter (fun x => negb (existsb (String.eqb (fst x)) open_findings\n'
        '                         && negb (prog_ok (snd x)))) cfg.\n')
    return ''.join(out)


if __name__ == '__main__':
    repo = sys.argv[1] if len(sys.argv) > 1 else '/repo'
    try:
        cfg, consumed = translate(repo)
    except TranslateError as e:
        print('TRANSLATE-ERROR', e)
        sys.exit(2)
    sys.stdout.write(emit(cfg))
