"""Translator (T) for the three helpers of the in-mesh result slots:
GeometryProcessorMixin._validate_metric, ._slot_answers, ._store_slot
(femio/geometry_processor.py) -> coq/C19/gen/SlotCode.v.

Each body is executed symbolically over a small grammar (meaning, not
spelling): `if / elif / else`, guard clauses and early returns, `raise`,
assignments to locals, conditional expressions, boolean `and / or / not`;
atoms per function are listed below.  The generated definitions are then
proved extensionally equal to the hand model coq/C19/Slot.v in
gen/SlotCode.v itself (lemmas *_gen_ok, proved by case analysis), so the
theorems of SlotProofs.v are re-checked against what the code says now.

Anything outside the grammar raises SlotTranslateError: the caller then keeps
the hand model (tie H: widened in-Coq correspondence), it is not an alarm.
"""
import ast
from pathlib import Path

FILE = 'femio/geometry_processor.py'
CLASS = 'GeometryProcessorMixin'
DROP_FILE, DROP_CLASS, DROP_METHOD = 'femio/fem_data.py', 'FEMData', '_clear_query_caches'
ABS_FUNCS = {'abs', 'absolute', 'fabs'}
COPY_FUNCS = {'array', 'asarray', 'asanyarray', 'ascontiguousarray', 'copy'}


class SlotTranslateError(Exception):
    pass


def _fname(f):
    return f.attr if isinstance(f, ast.Attribute) else (f.id if isinstance(f, ast.Name) else '')


def _is_zero(e):
    return isinstance(e, ast.Constant) and isinstance(e.value, (int, float)) and not isinstance(e.value, bool) \
        and e.value == 0


def _is_none(e):
    return isinstance(e, ast.Constant) and e.value is None


class Exec:
    """symbolic execution of a function body into one Gallina term (continuation style)"""

    def __init__(self, name):
        self.name = name

    def err(self, node, msg):
        raise SlotTranslateError(f'{FILE}:{getattr(node, "lineno", "?")}: {self.name}: {msg}')

    # to be provided by subclasses
    def expr(self, e, env):
        raise NotImplementedError

    def cond(self, e, env):
        if isinstance(e, ast.BoolOp):
            op = ' && ' if isinstance(e.op, ast.And) else ' || '
            return '(' + op.join(self.cond(v, env) for v in e.values) + ')'
        if isinstance(e, ast.UnaryOp) and isinstance(e.op, ast.Not):
            return f'(negb {self.cond(e.operand, env)})'
        if isinstance(e, ast.Constant) and isinstance(e.value, bool):
            return 'true' if e.value else 'false'
        return self.atom_cond(e, env)

    def atom_cond(self, e, env):
        self.err(e, 'condition not in the grammar: ' + ast.unparse(e)[:80])

    def stmt_effect(self, s, env):
        """statement with an effect on the symbolic state; returns the new env or None"""
        return None

    def finish(self, node, env):
        """falling off the end / bare return"""
        self.err(node, 'function ends without a value')

    def ret(self, e, env):
        return self.expr(e, env)

    def run(self, stmts, env, fn):
        if not stmts:
            return self.finish(fn, env)
        s, rest = stmts[0], stmts[1:]
        if isinstance(s, ast.Expr) and isinstance(s.value, ast.Constant) and isinstance(s.value.value, str):
            return self.run(rest, env, fn)
        if isinstance(s, ast.Pass):
            return self.run(rest, env, fn)
        if isinstance(s, ast.If):
            c = self.cond(s.test, env)
            a = self.run(list(s.body) + rest, dict(env), fn)
            b = self.run(list(s.orelse) + rest, dict(env), fn)
            return f'(if {c} then {a} else {b})'
        if isinstance(s, ast.Raise):
            return self.raised(s, env)
        if isinstance(s, ast.Return):
            if s.value is None or _is_none(s.value):
                return self.finish(s, env)
            return self.ret(s.value, env)
        if isinstance(s, ast.Assign) and len(s.targets) == 1 and isinstance(s.targets[0], ast.Name):
            env2 = dict(env)
            env2[s.targets[0].id] = self.expr(s.value, env)
            return self.run(rest, env2, fn)
        env2 = self.stmt_effect(s, env)
        if env2 is not None:
            return self.run(rest, env2, fn)
        self.err(s, 'statement not in the grammar: ' + ast.unparse(s)[:80])

    def raised(self, s, env):
        self.err(s, 'raise not expected here')


class Validate(Exec):
    """_validate_metric(self, metric, *, raise_negative_metric, return_abs_metric) -> res"""

    def expr(self, e, env):
        if isinstance(e, ast.Name) and e.id in env and env[e.id][0] == 'arr':
            return env[e.id]
        if isinstance(e, ast.Call):
            fn = _fname(e.func)
            if any(kw.arg == 'out' for kw in e.keywords):
                self.err(e, 'out= (in-place) is not in the grammar')
            if fn in ABS_FUNCS and len(e.args) == 1 and not e.keywords:
                return ('arr', f'(map Qabs {self.expr(e.args[0], env)[1]})')
            if fn in COPY_FUNCS and len(e.args) == 1 and not e.keywords:
                return self.expr(e.args[0], env)
            if fn == 'copy' and isinstance(e.func, ast.Attribute) and not e.args:
                return self.expr(e.func.value, env)
        if isinstance(e, ast.IfExp):
            a, b = self.expr(e.body, env), self.expr(e.orelse, env)
            if a[0] == b[0] == 'arr':
                return ('arr', f'(if {self.cond(e.test, env)} then {a[1]} else {b[1]})')
        m = self._neg_mask(e, env)
        if m is not None:
            return ('mask', m)               # the boolean array `E < 0`, kept by the array it tests
        self.err(e, 'array expression not in the grammar: ' + ast.unparse(e)[:80])

    def _neg_mask(self, e, env):
        """E < 0 / 0 > E  ->  the array term"""
        if isinstance(e, ast.Name) and env.get(e.id, ('',))[0] == 'mask':
            return env[e.id][1]
        if isinstance(e, ast.Compare) and len(e.ops) == 1:
            l, r, op = e.left, e.comparators[0], e.ops[0]
            if isinstance(op, ast.Lt) and _is_zero(r):
                x = self.expr(l, env)
                return x[1] if x[0] == 'arr' else None
            if isinstance(op, ast.Gt) and _is_zero(l):
                x = self.expr(r, env)
                return x[1] if x[0] == 'arr' else None
        return None

    def atom_cond(self, e, env):
        if isinstance(e, ast.Name) and e.id in env and env[e.id][0] == 'flag':
            return env[e.id][1]
        if isinstance(e, ast.Call):
            fn = _fname(e.func)
            if fn == 'any' and len(e.args) == 1 and not e.keywords:
                m = self._neg_mask(e.args[0], env)
                if m is not None:
                    return f'(any_neg {m})'
            if fn == 'any' and isinstance(e.func, ast.Attribute) and not e.args and not e.keywords:
                m = self._neg_mask(e.func.value, env)
                if m is not None:
                    return f'(any_neg {m})'
        if isinstance(e, ast.Compare) and len(e.ops) == 1 and isinstance(e.ops[0], ast.Gt) and \
                _is_zero(e.comparators[0]) and isinstance(e.left, ast.Call) and \
                _fname(e.left.func) in ('sum', 'count_nonzero') and len(e.left.args) == 1:
            m = self._neg_mask(e.left.args[0], env)
            if m is not None:
                return f'(any_neg {m})'
        return Exec.atom_cond(self, e, env)

    def ret(self, e, env):
        x = self.expr(e, env)
        if x[0] != 'arr':
            self.err(e, 'returns something that is not the metric array')
        return f'(Val {x[1]})'

    def raised(self, s, env):
        return 'Raise'


class Answers(Exec):
    """_slot_answers(self, key, options) -> bool; `so` = recorded options of the entry"""

    def _opt(self, e, env):
        if isinstance(e, ast.Name) and e.id in env and env[e.id][0] == 'oopt':
            return env[e.id][1]
        if isinstance(e, ast.Call) and _fname(e.func) == 'getattr' and len(e.args) == 3 and \
                isinstance(e.args[1], ast.Constant) and e.args[1].value == 'options' and _is_none(e.args[2]) and \
                self._is_entry(e.args[0], env):
            return 'so'
        return None

    def _is_entry(self, e, env):
        # self.elemental_data[key]
        return isinstance(e, ast.Subscript) and isinstance(e.value, ast.Attribute) and \
            e.value.attr == 'elemental_data' and isinstance(e.value.value, ast.Name) and e.value.value.id == 'self' \
            and isinstance(e.slice, ast.Name) and env.get(e.slice.id, ('',))[0] == 'key' \
            or isinstance(e, ast.Name) and env.get(e.id, ('',))[0] == 'entry'

    def expr(self, e, env):
        o = self._opt(e, env)
        if o is not None:
            return ('oopt', o)
        if self._is_entry(e, env):
            return ('entry', 'e')
        if isinstance(e, ast.Name) and e.id in env:
            return env[e.id]
        if isinstance(e, (ast.BoolOp, ast.Compare, ast.UnaryOp)):
            return ('bool', self.cond(e, env))
        self.err(e, 'expression not in the grammar: ' + ast.unparse(e)[:80])

    def atom_cond(self, e, env):
        if isinstance(e, ast.Name) and e.id in env and env[e.id][0] == 'bool':
            return env[e.id][1]
        if isinstance(e, ast.Compare) and len(e.ops) == 1:
            l, r, op = e.left, e.comparators[0], e.ops[0]
            lo, ro = self._opt(l, env), self._opt(r, env)
            if isinstance(op, (ast.Is, ast.IsNot)) and lo is not None and _is_none(r):
                t = f'(oopts_eqb {lo} None)'
                return t if isinstance(op, ast.Is) else f'(negb {t})'
            is_o = (lambda x: isinstance(x, ast.Name) and env.get(x.id, ('',))[0] == 'opts')
            if isinstance(op, (ast.Eq, ast.NotEq)) and ((lo is not None and is_o(r)) or (ro is not None and is_o(l))):
                t = f'(oopts_eqb {lo or ro} (Some o))'
                return t if isinstance(op, ast.Eq) else f'(negb {t})'
        return Exec.atom_cond(self, e, env)

    def ret(self, e, env):
        return self.cond(e, env)


class Store(Answers):
    """_store_slot(self, ids, key, values, options, **kwargs) -> the table entry afterwards.
    symbolic state env['$t'] : term of type option entry"""

    def atom_cond(self, e, env):
        # key in self.elemental_data
        if isinstance(e, ast.Compare) and len(e.ops) == 1 and isinstance(e.ops[0], (ast.In, ast.NotIn)) and \
                isinstance(e.left, ast.Name) and env.get(e.left.id, ('',))[0] == 'key' and \
                isinstance(e.comparators[0], ast.Attribute) and e.comparators[0].attr == 'elemental_data':
            t = f'(is_some {env["$t"][1]})'
            return t if isinstance(e.ops[0], ast.In) else f'(negb {t})'
        if isinstance(e, ast.Compare) and len(e.ops) == 1 and isinstance(e.ops[0], (ast.Is, ast.IsNot)) and \
                _is_none(e.comparators[0]) and self._opt(e.left, env) == 'so':
            t = f'(entry_user {env["$t"][1]})'
            return t if isinstance(e.ops[0], ast.Is) else f'(negb {t})'
        return Answers.atom_cond(self, e, env)

    def stmt_effect(self, s, env):
        # self.elemental_data.update_data(ids, {key: values}, **kwargs)
        if isinstance(s, ast.Expr) and isinstance(s.value, ast.Call) and _fname(s.value.func) == 'update_data' and \
                isinstance(s.value.func, ast.Attribute) and isinstance(s.value.func.value, ast.Attribute) and \
                s.value.func.value.attr == 'elemental_data' and len(s.value.args) == 2 and \
                isinstance(s.value.args[1], ast.Dict) and len(s.value.args[1].keys) == 1 and \
                isinstance(s.value.args[1].keys[0], ast.Name) and env.get(s.value.args[1].keys[0].id, ('',))[0] == 'key' \
                and isinstance(s.value.args[1].values[0], ast.Name) and \
                env.get(s.value.args[1].values[0].id, ('',))[0] == 'values':
            env2 = dict(env)
            env2['$t'] = ('tbl', '(Some (mkentry v None))')
            return env2
        # self.elemental_data.pop(key) / del self.elemental_data[key]
        if isinstance(s, ast.Expr) and isinstance(s.value, ast.Call) and _fname(s.value.func) == 'pop' and \
                isinstance(s.value.func, ast.Attribute) and isinstance(s.value.func.value, ast.Attribute) and \
                s.value.func.value.attr == 'elemental_data' and len(s.value.args) in (1, 2) and \
                isinstance(s.value.args[0], ast.Name) and env.get(s.value.args[0].id, ('',))[0] == 'key' or \
                isinstance(s, ast.Delete) and len(s.targets) == 1 and self._is_entry(s.targets[0], env):
            env2 = dict(env)
            env2['$t'] = ('tbl', f'(pop_present {env["$t"][1]})')
            return env2
        # self.elemental_data[key].options = options
        if isinstance(s, ast.Assign) and len(s.targets) == 1 and isinstance(s.targets[0], ast.Attribute) and \
                s.targets[0].attr == 'options' and self._is_entry(s.targets[0].value, env) and \
                isinstance(s.value, ast.Name) and env.get(s.value.id, ('',))[0] == 'opts':
            env2 = dict(env)
            env2['$t'] = ('tbl', f'(set_opts {env["$t"][1]} o)')
            return env2
        return None

    def finish(self, node, env):
        return env['$t'][1]

    def ret(self, e, env):
        self.err(e, '_store_slot returns a value')


def _params(fn):
    a = fn.args
    return [x.arg for x in a.posonlyargs + a.args + a.kwonlyargs if x.arg != 'self']


def translate(repo):
    src = (Path(repo) / FILE).read_text()
    tree = ast.parse(src)
    cls = [n for n in tree.body if isinstance(n, ast.ClassDef) and n.name == CLASS]
    if not cls:
        raise SlotTranslateError(f'class {CLASS} not found')
    meths = {n.name: n for n in cls[0].body if isinstance(n, ast.FunctionDef)}
    for m in ('_validate_metric', '_slot_answers', '_store_slot'):
        if m not in meths:
            raise SlotTranslateError(f'{m} not found')
    out = {}
    # ---- _validate_metric
    fn = meths['_validate_metric']
    ps = _params(fn)
    r = [p for p in ps if 'raise' in p]
    a = [p for p in ps if 'abs' in p]
    arr = [p for p in ps if p not in r + a]
    if len(r) != 1 or len(a) != 1 or len(arr) != 1:
        raise SlotTranslateError(f'_validate_metric: parameters {ps} not recognised')
    env = {arr[0]: ('arr', 'm'), r[0]: ('flag', 'r'), a[0]: ('flag', 'a')}
    out['validate'] = Validate('_validate_metric').run(list(fn.body), env, fn)
    # ---- _slot_answers
    fn = meths['_slot_answers']
    ps = _params(fn)
    if len(ps) != 2:
        raise SlotTranslateError(f'_slot_answers: parameters {ps} not recognised')
    env = {ps[0]: ('key', ''), ps[1]: ('opts', 'o')}
    out['answers'] = Answers('_slot_answers').run(list(fn.body), env, fn)
    # ---- _store_slot
    fn = meths['_store_slot']
    ps = _params(fn)
    if len(ps) != 4 or fn.args.kwarg is None:
        raise SlotTranslateError(f'_store_slot: parameters {ps} not recognised')
    env = {ps[0]: ('ids', ''), ps[1]: ('key', ''), ps[2]: ('values', 'v'), ps[3]: ('opts', 'o'), '$t': ('tbl', 't')}
    out['store'] = Store('_store_slot').run(list(fn.body), env, fn)
    # ---- the drop done by the in-place modifiers: FEMData._clear_query_caches, the loop over the
    #      literal slot names (its body decides which entries go)
    dsrc = (Path(repo) / DROP_FILE).read_text()
    dcls = [n for n in ast.parse(dsrc).body if isinstance(n, ast.ClassDef) and n.name == DROP_CLASS]
    dm = {n.name: n for n in (dcls[0].body if dcls else []) if isinstance(n, ast.FunctionDef)}
    if DROP_METHOD not in dm:
        raise SlotTranslateError(f'{DROP_CLASS}.{DROP_METHOD} not found')
    loops = [n for n in ast.walk(dm[DROP_METHOD]) if isinstance(n, ast.For) and isinstance(n.target, ast.Name)
             and isinstance(n.iter, (ast.Tuple, ast.List)) and n.iter.elts
             and all(isinstance(x, ast.Constant) and isinstance(x.value, str) for x in n.iter.elts)
             and 'elemental_data' in ast.dump(n)]
    if len(loops) != 1 or loops[0].orelse:
        raise SlotTranslateError(f'{DROP_METHOD}: the loop over the slot names was not found')
    names = sorted(x.value for x in loops[0].iter.elts)
    if names != ['area', 'metric', 'volume']:
        raise SlotTranslateError(f'{DROP_METHOD}: drops {names}, expected the three slot names')
    env = {loops[0].target.id: ('key', ''), '$t': ('tbl', 't')}
    out['drop'] = Store(DROP_METHOD).run(list(loops[0].body), env, loops[0])
    meths[DROP_METHOD] = dm[DROP_METHOD]
    return out, {FILE + '::slot helpers': __import__('hashlib').sha256(
        '\n'.join(ast.unparse(meths[m]) for m in ('_validate_metric', '_slot_answers', '_store_slot',
                                                   DROP_METHOD)).encode()).hexdigest()}


def emit(terms):
    return f'''(* GENERATED by /verif/translate/c19_slotcode.py from femio/geometry_processor.py - do not edit.
   _validate_metric, _slot_answers, _store_slot as Gallina terms, and the proofs that they are
   extensionally the hand model of Slot.v: the theorems of SlotProofs.v / Props.v then hold for
   the translated code. *)
From Coq Require Import QArith Qabs List Bool Arith.
Import ListNotations.
From FV.C19 Require Import Slot SlotProofs.

Definition is_some (t : option entry) : bool := match t with Some _ => true | None => false end.
(* getattr(elemental_data[key], 'options', None) is None; only evaluated when the key is present *)
Definition entry_user (t : option entry) : bool :=
  match t with Some e => oopts_eqb (e_opts e) None | None => true end.
Definition set_opts (t : option entry) (o : opts) : option entry :=
  match t with Some e => Some (mkentry (e_vals e) (Some o)) | None => None end.

Definition pop_present (t : option entry) : option entry := None.

Definition validate_gen (r a : bool) (m : list Q) : res :=
  {terms['validate']}.
Definition slot_answers_gen (so : option opts) (o : opts) : bool :=
  {terms['answers']}.
Definition store_slot_gen (t : option entry) (v : list Q) (o : opts) : option entry :=
  let so := match t with Some e => e_opts e | None => None end in
  {terms['store']}.

(* FEMData._clear_query_caches: body of the loop over the three slot names *)
Definition drop_slot_gen (t : option entry) : option entry :=
  let so := match t with Some e => e_opts e | None => None end in
  {terms['drop']}.

Lemma drop_slot_gen_ok : forall t, drop_slot_gen t = drop_slot t.
Proof.
  intros [e|]; unfold drop_slot_gen, drop_slot, user_part; simpl; [|reflexivity].
  destruct (e_opts e) as [o'|]; simpl; reflexivity.
Qed.

Lemma validate_gen_ok : forall o m, validate_gen (o_raise o) (o_abs o) m = validate o m.
Proof.
  intros [md r a] m. unfold validate_gen, validate. simpl.
  destruct r, a; simpl; destruct (any_neg m) eqn:E; simpl; rewrite ?any_neg_abs; simpl; reflexivity.
Qed.

Lemma slot_answers_gen_ok : forall e o, slot_answers_gen (e_opts e) o = slot_answers e o.
Proof.
  intros e o. unfold slot_answers_gen, slot_answers. destruct (e_opts e) as [o'|]; simpl;
    try reflexivity; destruct (opts_eqb o' o); reflexivity.
Qed.

Lemma store_slot_gen_ok : forall t v o, store_slot_gen t v o = store_slot t v o.
Proof.
  intros [e|] v o; unfold store_slot_gen, store_slot; simpl; [|reflexivity].
  destruct (e_opts e) as [o'|]; simpl; reflexivity.
Qed.

(* the slot query with the translated helpers in place of the modelled ones *)
Definition slot_query_gen (signed : nat -> list Q) (t : option entry) (o : opts) : res * option entry :=
  let compute :=
    match validate_gen (o_raise o) (o_abs o) (signed (o_mode o)) with
    | Raise => (Raise, t)
    | Val v => (Val v, store_slot_gen t v o)
    end in
  match t with
  | Some e => if slot_answers_gen (e_opts e) o then (validate_gen (o_raise o) (o_abs o) (e_vals e), t) else compute
  | None => compute
  end.

Lemma slot_query_gen_ok : forall signed t o, slot_query_gen signed t o = slot_query signed t o.
Proof.
  intros signed t o. unfold slot_query_gen, slot_query, slot_compute.
  rewrite !validate_gen_ok.
  destruct t as [e|]; [rewrite slot_answers_gen_ok, validate_gen_ok|];
    destruct (validate o (signed (o_mode o))); try rewrite store_slot_gen_ok; reflexivity.
Qed.

(* per-run obligations: the properties for the code as translated now *)
Theorem C19_translated_revalidation_idempotent : forall o m v,
  validate_gen (o_raise o) (o_abs o) m = Val v -> validate_gen (o_raise o) (o_abs o) v = Val v.
Proof. intros o m v. rewrite !validate_gen_ok. apply validate_idempotent. Qed.

Theorem C19_translated_slot_call_pure : forall signed t o, valid_table signed t ->
  fst (slot_query_gen signed t o) = fresh_answer signed t o /\\
  valid_table signed (snd (slot_query_gen signed t o)) /\\
  user_part (snd (slot_query_gen signed t o)) = user_part t.
Proof. intros signed t o. rewrite slot_query_gen_ok. apply slot_query_pure. Qed.

Theorem C19_translated_store_keeps_user_variable : forall u v o, e_opts u = None ->
  store_slot_gen (Some u) v o = Some u.
Proof. intros u v o H. rewrite store_slot_gen_ok. apply store_slot_keeps_user. exact H. Qed.

(* the modifiers' drop as translated keeps a variable of that name the user stored *)
Theorem C19_translated_drop_keeps_user_variable : forall u, e_opts u = None -> drop_slot_gen (Some u) = Some u.
Proof. intros u H. rewrite drop_slot_gen_ok. unfold drop_slot. apply user_part_user. exact H. Qed.

Print Assumptions C19_translated_revalidation_idempotent.
Print Assumptions C19_translated_slot_call_pure.
Print Assumptions C19_translated_store_keeps_user_variable.
Print Assumptions C19_translated_drop_keeps_user_variable.
'''


if __name__ == '__main__':
    import sys
    t, _ = translate(sys.argv[1] if len(sys.argv) > 1 else '/repo')
    print(emit(t))
