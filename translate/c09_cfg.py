"""C09 — read from femio/fem_data.py, fail-closed, how the three operations
that select nodes by storage position (remove_useless_nodes, to_first_order,
to_surface) carry a nodal variable over: by storage position (the present
code) or by node id.  Result: record `cfg` of coq/C09/Model.v, emitted as
coq/C09/gen/MeshCfg.v.  Each site must match one of the two listed expression
forms exactly (`ast.dump`); anything else raises TranslateError."""
import ast
import hashlib
from pathlib import Path


class TranslateError(Exception):
    pass


def _e(src):
    return ast.dump(ast.parse(src, mode='eval').body)


def _calls(fn, first_arg_dump):
    out = []
    for n in ast.walk(fn):
        if isinstance(n, ast.Call) and isinstance(n.func, ast.Name) and n.func.id == 'FEMAttribute' \
                and n.args and ast.dump(n.args[0]) == first_arg_dump:
            out.append(n)
    return out


# For each site: the FEMAttribute(<name>, <ids>, <data>) call that builds a nodal
# variable of the result is located by its first argument; what decides the
# flag is the binding EXPRESSION, not the statement shape around it:
#   by id      <data> is  X.loc[E].values  and <ids> is the same expression E,
#              where E is one of the spellings of "the ids of the new node table";
#   positional one of the listed positional forms (the code before the fixes).
# Anything else fails closed.
NEW_NODE_IDS = [_e(s) for s in ('self.nodes.ids', 'new_nodes.ids', 'nodes.ids', 'node_ids')]
SITES = {
    'useless_by_id': ('remove_useless_nodes', _e('value.name'),
                      [(_e('self.nodes.ids'), _e('value.data[useful_indices]'))]),
    'first_order_by_id': ('to_first_order', _e('k'),
                          [(_e('v.ids[filter_]'), _e('v.loc[filter_].values'))]),
    'surface_by_id': ('to_surface', _e('k'),
                      [(_e('node_ids'), _e('v.iloc[unique_indices].values'))]),
}


def _binding(call, positional_forms, where):
    ids_arg, data_arg = call.args[1], call.args[2]
    key = (ast.dump(ids_arg), ast.dump(data_arg))
    if key in positional_forms:
        return False
    # X.loc[E].values with the label expression E also used as the ids of the new variable
    if isinstance(data_arg, ast.Attribute) and data_arg.attr == 'values' \
            and isinstance(data_arg.value, ast.Subscript) \
            and isinstance(data_arg.value.value, ast.Attribute) and data_arg.value.value.attr == 'loc' \
            and isinstance(data_arg.value.value.value, ast.Name):
        label = data_arg.value.slice
        if ast.dump(label) == ast.dump(ids_arg) and ast.dump(label) in NEW_NODE_IDS:
            return True
    raise TranslateError(f'{where}: unrecognised way of carrying nodal variables over')


FIELDS = ['useless_by_id', 'first_order_by_id', 'surface_by_id']
# the configuration of the registered tree (/repo 38049d8): the hand model the check falls back to
# (with a widened correspondence) when a site can no longer be read
BASELINE = {'useless_by_id': True, 'first_order_by_id': True, 'surface_by_id': True}
HASHED = ['remove_useless_nodes', 'to_first_order', 'to_surface', 'to_facets', 'cut_with_element_ids',
          'cut_with_element_type', 'cut_with_node_ids', 'cut_elements_with_node_ids', '_elements_exist',
          'extract_with_element_indices']


# Row-wise duplicate detection that the model represents by `remove_duplicates`
# (to_facets) and that the surface extraction relies on: the function bodies
# must be exactly these (compared as ast.dump, docstrings dropped).  Any other
# way of finding equal facets (hashing, packing rows into integer keys, ...) is
# outside what the model and its theorem C09_remove_duplicates describe.
EXPECTED_BODIES = {
    ('functions.py', None, 'remove_duplicates'): """
sorted_connectivities = [
    np.sort(connectivity)[:end] for connectivity in connectivities]
unique = np.unique(
    sorted_connectivities, axis=0,
    return_index=True, return_inverse=return_inverse)
indices = unique[1]
ret = [connectivities[indices]]

if return_index:
    ret.append(indices)
if return_inverse:
    ret.append(unique[-1])
if len(ret) == 1:
    return ret[0]
else:
    return tuple(ret)
""",
    ('graph_processor.py', 'GraphProcessorMixin', '_extract_surface'): """
if facet_type == 'polygon':
    sorted_facets = np.array(
        [np.sort(f) for f in facets], dtype=object)
    surface_indices, surface_positions \\
        = self._extract_surface_polygon(facets, sorted_facets)
else:
    sorted_facets = np.array([np.sort(f) for f in facets])
    unique_sorted_facets, unique_indices, unique_counts = np.unique(
        sorted_facets, return_index=True, return_counts=True, axis=0)
    surface_ids = facets[unique_indices[np.where(unique_counts == 1)]]
    surface_indices = self.nodes.ids2indices(surface_ids)
    surface_positions = self.nodes.data[surface_indices]
return surface_indices, surface_positions
""",
}


def _strip_doc(body):
    b = list(body)
    if b and isinstance(b[0], ast.Expr) and isinstance(getattr(b[0], 'value', None), ast.Constant) \
            and isinstance(b[0].value.value, str):
        b = b[1:]
    return b


def check_bodies(repo, consumed):
    for (fname, cls, fn), expected in EXPECTED_BODIES.items():
        src = (Path(repo) / 'femio' / fname).read_text()
        tree = ast.parse(src)
        scope = tree.body
        if cls is not None:
            cands = [n for n in tree.body if isinstance(n, ast.ClassDef)
                     and any(isinstance(x, ast.FunctionDef) and x.name == fn for x in n.body)]
            if len(cands) != 1:
                raise TranslateError(f'{fname}: method {fn} not found in exactly one class')
            scope = cands[0].body
        fns = [n for n in scope if isinstance(n, ast.FunctionDef) and n.name == fn]
        if len(fns) != 1:
            raise TranslateError(f'{fname}: {fn} not found exactly once')
        got = [ast.dump(s) for s in _strip_doc(fns[0].body)]
        want = [ast.dump(s) for s in ast.parse(expected).body]
        if got != want:
            raise TranslateError(f'{fname}:{fn}: body differs from the row-wise unique the model represents')
        consumed[f'{fname}:{fn}'] = hashlib.sha256(ast.get_source_segment(src, fns[0]).encode()).hexdigest()


def translate(repo):
    f = Path(repo) / 'femio' / 'fem_data.py'
    src = f.read_text()
    tree = ast.parse(src)
    cls = next((n for n in tree.body if isinstance(n, ast.ClassDef) and n.name == 'FEMData'), None)
    if cls is None:
        raise TranslateError('class FEMData not found')
    fns = {}
    for n in cls.body:
        if isinstance(n, ast.FunctionDef):
            fns.setdefault(n.name, []).append(n)
    consumed = {}
    for name in HASHED:
        if len(fns.get(name, [])) != 1:
            raise TranslateError(f'FEMData.{name} not found exactly once')
        consumed['fem_data.py:FEMData.' + name] = hashlib.sha256(
            ast.get_source_segment(src, fns[name][0]).encode()).hexdigest()
    cfg = {}
    for flag, (fname, first, positional_forms) in SITES.items():
        calls = _calls(fns[fname][0], first)
        if len(calls) != 1:
            raise TranslateError(f'{fname}: expected one FEMAttribute(...) call for nodal variables, '
                                 f'found {len(calls)}')
        c = calls[0]
        if len(c.args) != 3:
            raise TranslateError(f'{fname}: unexpected FEMAttribute argument list')
        cfg[flag] = _binding(c, positional_forms, fname)
    check_bodies(repo, consumed)
    return cfg, consumed


def emit(cfg):
    b = lambda x: 'true' if x else 'false'
    fields = ';\n     '.join(f'{k} := {b(cfg[k])}' for k in FIELDS)
    return ('(* generated by translate/c09_cfg.py from the tree under test - do not edit *)\n'
            'From FV.C09 Require Import Model.\n'
            f'Definition cfg : Model.cfg :=\n  {{| {fields} |}}.\n')


if __name__ == '__main__':
    import sys
    c, cons = translate(sys.argv[1] if len(sys.argv) > 1 else '/repo')
    print(emit(c))


# ---------------------------------------------------------------------------
# FEMElementalAttribute._to_first_order(element_type, element_data): which element types are
# reduced, and to how many leading (corner) nodes.  Read by MEANING: the function body is
# interpreted for every concrete element type of ELEMENT_TYPES with `element_data` symbolic
# (conditions on the type are evaluated, module / class level constants are resolved by
# ast.literal_eval, if / elif / else, guard clauses, early returns, table look-ups all give the
# same table); the only data expressions understood are `element_data` and
# `element_data[:, :K]`.  Result: gen/FirstOrder.v (first_order_arity of the Coq model).
HARNESS_ELEMENT_TYPES = ['line', 'line2', 'spring', 'tri', 'tri2', 'quad', 'quad2', 'polygon', 'tet', 'tet2',
                         'pyr', 'pyr2', 'prism', 'prism2', 'hex', 'hex2', 'hexprism', 'polyhedron', 'unknown']
# the table of the registered tree: 'same' / number of columns kept / None = raises
BASELINE_FIRST_ORDER = {t: ('same' if '2' not in t else {'tet2': 4, 'hex2': 8}.get(t)) for t in HARNESS_ELEMENT_TYPES}
_SAFE = {'len': len, 'str': str, 'int': int, 'tuple': tuple, 'set': set, 'frozenset': frozenset, 'list': list,
         'dict': dict, 'any': any, 'all': all, 'isinstance': isinstance, 'True': True, 'False': False, 'None': None}


class _Raise(Exception):
    pass


class _NS:
    pass


def _literal_constants(body):
    out = {}
    for n in body:
        tgt = None
        if isinstance(n, ast.Assign) and len(n.targets) == 1 and isinstance(n.targets[0], ast.Name):
            tgt, val = n.targets[0].id, n.value
        elif isinstance(n, ast.AnnAssign) and isinstance(n.target, ast.Name) and n.value is not None:
            tgt, val = n.target.id, n.value
        if tgt:
            try:
                out[tgt] = ast.literal_eval(val)
            except (ValueError, SyntaxError, TypeError):
                pass
    return out


def _interp(stmts, env, data_name):
    """returns 'same' | int (columns kept) ; raises _Raise when the code raises; None = fell through"""
    def ev(e):
        try:
            return eval(compile(ast.Expression(e), '<c09>', 'eval'), {'__builtins__': _SAFE}, env)
        except _Raise:
            raise
        except Exception as ex:
            raise TranslateError(f'_to_first_order: cannot evaluate {ast.unparse(e)!r}: {type(ex).__name__}')
    for st in stmts:
        if isinstance(st, ast.Expr) and isinstance(st.value, ast.Constant):
            continue
        if isinstance(st, ast.Pass):
            continue
        if isinstance(st, ast.If):
            r = _interp(st.body if ev(st.test) else st.orelse, env, data_name)
            if r is not None:
                return r
            continue
        if isinstance(st, ast.Raise):
            raise _Raise()
        if isinstance(st, ast.Assign) and len(st.targets) == 1 and isinstance(st.targets[0], ast.Name) \
                and data_name not in {n.id for n in ast.walk(st.value) if isinstance(n, ast.Name)}:
            env[st.targets[0].id] = ev(st.value)
            continue
        if isinstance(st, ast.Return) and st.value is not None:
            v = st.value
            if isinstance(v, ast.Name) and v.id == data_name:
                return 'same'
            if isinstance(v, ast.Subscript) and isinstance(v.value, ast.Name) and v.value.id == data_name \
                    and isinstance(v.slice, ast.Tuple) and len(v.slice.elts) == 2:
                a, b = v.slice.elts
                if isinstance(a, ast.Slice) and a.lower is None and a.upper is None and a.step is None \
                        and isinstance(b, ast.Slice) and b.lower is None and b.step is None and b.upper is not None:
                    k = ev(b.upper)
                    if isinstance(k, int) and not isinstance(k, bool) and k >= 0:
                        return k
            raise TranslateError(f'_to_first_order: unrecognised result expression {ast.unparse(v)!r}')
        raise TranslateError(f'_to_first_order: unrecognised statement {ast.unparse(st)[:60]!r}')
    return None


def translate_first_order(repo):
    f = Path(repo) / 'femio' / 'fem_elemental_attribute.py'
    src = f.read_text()
    tree = ast.parse(src)
    cls = next((n for n in tree.body if isinstance(n, ast.ClassDef) and n.name == 'FEMElementalAttribute'), None)
    if cls is None:
        raise TranslateError('class FEMElementalAttribute not found')
    mod_consts = _literal_constants(tree.body)
    cls_consts = _literal_constants(cls.body)
    types = cls_consts.get('ELEMENT_TYPES')
    if types != HARNESS_ELEMENT_TYPES:
        raise TranslateError('ELEMENT_TYPES differs from the type numbering of the model')
    fns = [n for n in cls.body if isinstance(n, ast.FunctionDef) and n.name == '_to_first_order']
    if len(fns) != 1:
        raise TranslateError('_to_first_order not found exactly once')
    fn = fns[0]
    args = [a.arg for a in fn.args.args]
    if args and args[0] in ('self', 'cls'):
        args = args[1:]
    if len(args) != 2 or fn.args.vararg or fn.args.kwarg or fn.args.kwonlyargs:
        raise TranslateError('_to_first_order: unexpected signature')
    tname, dname = args
    ns = _NS()
    for k, v in cls_consts.items():
        setattr(ns, k, v)
    table = {}
    for t in types:
        env = dict(mod_consts)
        env.update({tname: t, 'self': ns, 'cls': ns, 'FEMElementalAttribute': ns})
        try:
            r = _interp(fn.body, env, dname)
            if r is None:
                raise TranslateError('_to_first_order: falls off the end')
            table[t] = r
        except _Raise:
            table[t] = None
    consumed = {'fem_elemental_attribute.py:FEMElementalAttribute._to_first_order':
                hashlib.sha256(ast.get_source_segment(src, fn).encode()).hexdigest()}
    return table, consumed


def emit_first_order(table):
    groups = {}
    for i, t in enumerate(HARNESS_ELEMENT_TYPES):
        r = table[t]
        if r == 'same':
            continue
        groups.setdefault('None' if r is None else f'Some (Some {int(r)})', []).append((i, t))
    lines = []
    for rhs, its in groups.items():
        lines.append('  | ' + ' | '.join(str(i) for i, _ in its) + f' => {rhs}   (* ' + ' '.join(t for _, t in its) + ' *)')
    return ('(* generated by translate/c09_cfg.py (translate_first_order) from the tree under test - do not edit.\n'
            '   FEMElementalAttribute._to_first_order per element type (index in ELEMENT_TYPES):\n'
            '   Some None = returned unchanged; Some (Some k) = the first k columns are kept; None = raises *)\n'
            'Definition first_order_arity (t : nat) : option (option nat) :=\n  match t with\n'
            + '\n'.join(lines) + '\n  | _ => Some None\n  end%nat.\n')


if __name__ == '__main__':
    import sys
    t, _ = translate_first_order(sys.argv[1] if len(sys.argv) > 1 else '/repo')
    print(emit_first_order(t))


# ---------------------------------------------------------------------------
# FEMElementalAttribute._generate_surface_core(surface_ids, last_id_end): the element type given
# to a group of facets, decided by the number of nodes per facet (2-D array: shape[1]; 1-D object
# array: polygon).  Read by meaning like _to_first_order: the body is interpreted for concrete
# shapes (5, w), w = 0..12, and (5,), with module / class constants resolved; only the KEY of the
# returned dict is evaluated.  Result: gen/FacetType.v.
FACET_WIDTHS = list(range(0, 13))
BASELINE_FACET_TYPE = {0: None, 1: None, 2: None, 3: 'tri', 4: 'quad', '1d': 'polygon'}
BASELINE_FACET_TYPE.update({w: 'polygon' for w in range(5, 13)})


def _interp_key(stmts, env):
    def ev(e):
        try:
            return eval(compile(ast.Expression(e), '<c09>', 'eval'), {'__builtins__': _SAFE}, env)
        except Exception as ex:
            raise TranslateError(f'_generate_surface_core: cannot evaluate {ast.unparse(e)!r}: {type(ex).__name__}')
    for st in stmts:
        if isinstance(st, (ast.Pass,)) or (isinstance(st, ast.Expr) and isinstance(st.value, ast.Constant)):
            continue
        if isinstance(st, ast.If):
            r = _interp_key(st.body if ev(st.test) else st.orelse, env)
            if r is not None:
                return r
            continue
        if isinstance(st, ast.Raise):
            raise _Raise()
        if isinstance(st, ast.Assign) and len(st.targets) == 1 and isinstance(st.targets[0], ast.Name):
            env[st.targets[0].id] = ev(st.value)
            continue
        if isinstance(st, ast.Return) and isinstance(st.value, ast.Dict) and len(st.value.keys) == 1 \
                and st.value.keys[0] is not None:
            k = ev(st.value.keys[0])
            if isinstance(k, str):
                return k
        raise TranslateError(f'_generate_surface_core: unrecognised statement {ast.unparse(st)[:60]!r}')
    return None


def translate_facet_type(repo):
    f = Path(repo) / 'femio' / 'fem_elemental_attribute.py'
    src = f.read_text()
    tree = ast.parse(src)
    cls = next((n for n in tree.body if isinstance(n, ast.ClassDef) and n.name == 'FEMElementalAttribute'), None)
    if cls is None:
        raise TranslateError('class FEMElementalAttribute not found')
    mod_consts, cls_consts = _literal_constants(tree.body), _literal_constants(cls.body)
    if cls_consts.get('ELEMENT_TYPES') != HARNESS_ELEMENT_TYPES:
        raise TranslateError('ELEMENT_TYPES differs from the type numbering of the model')
    fns = [n for n in cls.body if isinstance(n, ast.FunctionDef) and n.name == '_generate_surface_core']
    if len(fns) != 1:
        raise TranslateError('_generate_surface_core not found exactly once')
    fn = fns[0]
    args = [a.arg for a in fn.args.args if a.arg not in ('self', 'cls')]
    if len(args) != 2:
        raise TranslateError('_generate_surface_core: unexpected signature')
    ns = _NS()
    for k, v in cls_consts.items():
        setattr(ns, k, v)
    table = {}
    for w in FACET_WIDTHS + ['1d']:
        arr = _NS()
        arr.shape = (5,) if w == '1d' else (5, w)
        arr.ndim = len(arr.shape)
        env = dict(mod_consts)
        env.update({args[0]: arr, args[1]: 0, 'self': ns, 'cls': ns, 'FEMElementalAttribute': ns})
        try:
            r = _interp_key(fn.body, env)
            if r is None:
                raise TranslateError('_generate_surface_core: falls off the end')
            if r not in HARNESS_ELEMENT_TYPES:
                raise TranslateError(f'_generate_surface_core: unknown element type {r!r}')
            table[w] = r
        except _Raise:
            table[w] = None
    if len({table[w] for w in range(5, 13)}) != 1:
        raise TranslateError('_generate_surface_core: not one type for every width above 4')
    consumed = {'fem_elemental_attribute.py:FEMElementalAttribute._generate_surface_core':
                hashlib.sha256(ast.get_source_segment(src, fn).encode()).hexdigest()}
    return table, consumed


def emit_facet_type(table):
    def o(v):
        return 'None' if v is None else f'Some {HARNESS_ELEMENT_TYPES.index(v)}%nat'
    lines = [f'  | {w} => {o(table[w])}   (* {table[w]} *)' for w in range(0, 5)]
    return ('(* generated by translate/c09_cfg.py (translate_facet_type) from the tree under test - do not edit.\n'
            '   FEMElementalAttribute._generate_surface_core: element type (index in ELEMENT_TYPES) of a group of\n'
            '   facets with w nodes each; None = raises; widths above 4 (interpreted for 5..12) share one answer *)\n'
            'Definition facet_type (w : nat) : option nat :=\n  match w with\n' + '\n'.join(lines) +
            f'\n  | _ => {o(table[5])}   (* {table[5]} *)\n  end%nat.\n'
            f'(* a 1-D (object) array of facets of different lengths *)\n'
            f'Definition facet_type_1d : option nat := {o(table["1d"])}.\n')
