"""Translator of GeometryProcessorMixin.translation / .rotation (femio/geometry_processor.py)
->  coq/C11/gen/Motion.v : what the methods do to ONE node (X, Y, Z).

The bodies are interpreted with the symbolic evaluator of c11_kernels (Interp): straight-line
arithmetic, lists indexed by literals, tuple assignment, `** .5`.  Here additionally:
`self.nodes.data[:, k]` is the k-th coordinate of the node, `np.cos(theta)` / `np.sin(theta)`
are the symbols c / s (the theorems assume c^2 + s^2 = 1, nothing else about them), the guard
`if self.nodal_data.data or self.elemental_data.data: raise NotImplementedError` and the call
`self._clear_query_caches()` are recorded, the assignment to `self.nodes.data` is the result:
`np.stack([a, b, c], axis=1)` or `self.nodes.data + np.array([a, b, c])`.
Anything else (dtype casts, in-place updates ...): TranslateError -> the caller emits REFERENCE
(motion_translated = false, tie H by the correspondence) instead of reporting a violation.
"""
import ast
import hashlib
from pathlib import Path

import c11_kernels as K
from c11_kernels import Sym, TranslateError  # noqa


class MotionInterp(K.Interp):
    def is_nodes_data(self, node):
        return isinstance(node, ast.Attribute) and ast.unparse(node) == 'self.nodes.data'

    def ev(self, node, env):
        if isinstance(node, ast.Subscript) and self.is_nodes_data(node.value):
            sl = node.slice
            if isinstance(sl, ast.Tuple) and len(sl.elts) == 2 and isinstance(sl.elts[0], ast.Slice) and \
                    sl.elts[0].lower is None and sl.elts[0].upper is None and sl.elts[0].step is None and \
                    isinstance(sl.elts[1], ast.Constant) and sl.elts[1].value in (0, 1, 2) and \
                    not isinstance(sl.elts[1].value, bool):
                return Sym('S', 'XYZ'[sl.elts[1].value])
            self.err(node, 'unsupported subscript of self.nodes.data')
        return super().ev(node, env)

    def call(self, node, env):
        f = node.func
        for fn, sym in (('cos', 'c'), ('sin', 's')):
            if self.is_attr_chain(f, ['np', fn]) or self.is_attr_chain(f, ['math', fn]):
                if len(node.args) == 1 and not node.keywords and isinstance(node.args[0], ast.Name) and \
                        node.args[0].id == 'theta':
                    return Sym('S', sym)
                self.err(node, 'cos/sin of something other than theta')
        return super().call(node, env)


GUARD = 'self.nodal_data.data or self.elemental_data.data'


def one(fn, src, params, symbols):
    """-> {'bindings', 'result': (ex, ey, ez), 'guard': bool, 'clears': bool}"""
    it = MotionInterp({}, src)
    if [a.arg for a in fn.args.args] != ['self'] + params or fn.args.kwonlyargs or fn.args.vararg or \
            fn.args.kwarg or fn.args.defaults:
        raise TranslateError(f'{fn.name}: unexpected parameter list')
    env = K.ChainEnv(None)
    for p, sname in zip(params, symbols):
        if sname is not None:
            env[p] = Sym('S', sname)
    it.used.update(['a1', 'a2', 'a3', 'c', 's', 'X', 'Y', 'Z', 'O', 'T'])
    guard = clears = False
    result = None
    for st in fn.body:
        if result is not None and not (isinstance(st, ast.Expr) and isinstance(st.value, ast.Call)):
            it.err(st, 'statement after the assignment of self.nodes.data')
        if isinstance(st, ast.Expr) and isinstance(st.value, ast.Constant) and isinstance(st.value.value, str):
            continue
        if isinstance(st, ast.If) and ast.unparse(st.test) == GUARD and len(st.body) == 1 and \
                isinstance(st.body[0], ast.Raise) and not st.orelse and \
                ast.unparse(st.body[0].exc).startswith('NotImplementedError'):
            guard = True
            continue
        if isinstance(st, ast.Expr) and isinstance(st.value, ast.Call) and \
                ast.unparse(st.value) == 'self._clear_query_caches()':
            clears = True
            continue
        if isinstance(st, ast.Assign) and len(st.targets) == 1 and it.is_nodes_data(st.targets[0]):
            v = st.value
            if isinstance(v, ast.Call) and it.is_attr_chain(v.func, ['np', 'stack']) and len(v.args) == 1 and \
                    isinstance(v.args[0], ast.List) and len(v.args[0].elts) == 3 and \
                    [k.arg for k in v.keywords] == ['axis'] and ast.unparse(v.keywords[0].value) in ('1', '-1'):
                comps = [it.ev(e, env) for e in v.args[0].elts]
            elif isinstance(v, ast.BinOp) and isinstance(v.op, ast.Add) and it.is_nodes_data(v.left) and \
                    isinstance(v.right, ast.Call) and it.is_attr_chain(v.right.func, ['np', 'array']) and \
                    len(v.right.args) == 1 and isinstance(v.right.args[0], ast.List) and \
                    len(v.right.args[0].elts) == 3 and not v.right.keywords:
                comps = [it.binop(ast.Add(), Sym('S', n), it.ev(e, env), v)
                         for n, e in zip('XYZ', v.right.args[0].elts)]
            else:
                it.err(st, 'unsupported new value of self.nodes.data')
            if not all(isinstance(x, Sym) and x.ty == 'S' for x in comps):
                it.err(st, 'new coordinates are not scalars per node')
            result = tuple(x.e for x in comps)
            continue
        r = it.block([st], env)
        if r is not None:
            it.err(st, 'unexpected return')
    if result is None:
        raise TranslateError(f'{fn.name}: self.nodes.data is not assigned')
    return {'bindings': it.bindings, 'result': result, 'guard': guard, 'clears': clears}


def translate(repo):
    src = (Path(repo) / 'femio' / 'geometry_processor.py').read_text()
    tree = ast.parse(src)
    cls = [n for n in tree.body if isinstance(n, ast.ClassDef) and n.name == 'GeometryProcessorMixin']
    if len(cls) != 1:
        raise TranslateError('GeometryProcessorMixin not found')
    methods = {n.name: n for n in cls[0].body if isinstance(n, ast.FunctionDef)}
    for need in ('translation', 'rotation'):
        if need not in methods:
            raise TranslateError(f'{need} not found')
    model = {
        'translation': one(methods['translation'], src, ['vx', 'vy', 'vz'], ['a1', 'a2', 'a3']),
        'rotation': one(methods['rotation'], src, ['vx', 'vy', 'vz', 'theta'], ['a1', 'a2', 'a3', None]),
    }
    consumed = {'geometry_processor.py:' + n + ' (motion)':
                hashlib.sha256(ast.get_source_segment(src, methods[n]).encode()).hexdigest()
                for n in ('translation', 'rotation')}
    return model, consumed


def _defn(name, params, m):
    out = [f'Definition {name} {{T}} (O : Ops T) ({params} : T) : v3 T :=']
    for n, ty, e in m['bindings']:
        out.append(f'  let {n} := {e} in')
    out.append('  (' + ', '.join(m['result']) + ').')
    return out


def emit(model, translated=True):
    b = lambda x: 'true' if x else 'false'   # noqa
    out = ['(* GENERATED by translate/c11_motion.py from femio/geometry_processor.py'
           + ('' if translated else ' -- REFERENCE semantics: the source is outside the grammar') + '.',
           '   Do not edit: regenerated on every run of ./check C11.',
           '   What translation(a1, a2, a3) / rotation(a1, a2, a3, theta) do to one node (X, Y, Z);',
           '   c = cos theta, s = sin theta. *)',
           'From Coq Require Import ZArith List String Bool.',
           'From FV.C11 Require Import Model.', '',
           f'Definition motion_translated : bool := {b(translated)}.',
           f"Definition translation_refuses_attached_data : bool := {b(model['translation']['guard'])}.",
           f"Definition rotation_refuses_attached_data : bool := {b(model['rotation']['guard'])}.",
           f"Definition translation_clears_query_caches : bool := {b(model['translation']['clears'])}.",
           f"Definition rotation_clears_query_caches : bool := {b(model['rotation']['clears'])}.", '']
    out += _defn('translation_xyz', 'a1 a2 a3 X Y Z', model['translation'])
    out.append('')
    out += _defn('rotation_xyz', 'a1 a2 a3 c s X Y Z', model['rotation'])
    return '\n'.join(out) + '\n'


REFERENCE = None     # filled below: the translation of the anchored source (38049d8 .. b633f85)
REFERENCE_TEXT = None


if __name__ == '__main__':
    import sys
    m, c = translate(sys.argv[1] if len(sys.argv) > 1 else '/repo')
    sys.stdout.write(emit(m))
