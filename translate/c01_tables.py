"""Fail-closed translator for the tables the FrontISTR .msh writer/reader
depend on -> coq/C01/gen/Tables.v.

Translated regions (Python ast; any shape outside the small grammar accepted
here raises TranslateError = the tie is broken, never a guess):

  fistr.py        FrontISTRData.DICT_FISTR_ELEMENTS        dict str -> str
  fistr.py        FrontISTRData._reorder_prism             guard type + index list
  write_fistr.py  FistrWriter.detect_fistr_element_type    if/elif chain  == 'x' -> return 'c'
  write_fistr.py  FistrWriter._reorder_prism_data          index list
  write_fistr.py  FistrWriter.write_msh                    codes that get the permutation,
                                                           str_format of the element blocks
  write_fistr.py  FistrWriter.write_data                   default str_format ('%.12E')
  fem_elemental_attribute.py  ELEMENT_TYPES                writer's block order
  fem_data.py     FEMData._read_files                      default pattern_ignore -> alternatives
  string_parser.py StringSeries.read_array                 default float format ('%.8E'; C03)
"""
import ast
import hashlib
import re
import sys
from pathlib import Path

sys.path.insert(0, str(Path(__file__).resolve().parent))
import c01_eval  # noqa: E402


class TranslateError(Exception):
    pass


def _interp(tree, cls):
    return c01_eval.Interp(tree, cls)


def _evaluated(what, thunk):
    """run an evaluation of c01_eval; outside its fragment = outside the translator's grammar"""
    try:
        return thunk()
    except c01_eval.Unsupported as e:
        raise TranslateError(f'{what}: cannot be evaluated ({e})')
    except c01_eval.Raised as e:
        raise TranslateError(f'{what}: evaluation raises {e}')


def _perm_of(what, v, n=6):
    if not isinstance(v, c01_eval.Cols):
        raise TranslateError(f'{what}: the result is not a selection of columns of the argument')
    if not all(isinstance(i, int) and 0 <= i < n for i in v.cols):
        raise TranslateError(f'{what}: column index out of range')
    return list(v.cols)


def coq_str(s):
    if not all(32 <= ord(c) < 127 for c in s):
        raise TranslateError(f'non-printable character in {s!r}')
    return '"' + s.replace('"', '""') + '"'


def _src(repo, rel):
    p = Path(repo) / rel
    txt = p.read_text()
    return txt, ast.parse(txt)


def _find_class(tree, name):
    for n in tree.body:
        if isinstance(n, ast.ClassDef) and n.name == name:
            return n
    raise TranslateError(f'class {name} not found')


def _find_func(cls, name):
    for n in cls.body:
        if isinstance(n, ast.FunctionDef) and n.name == name:
            return n
    raise TranslateError(f'function {name} not found in {cls.name}')


def _find_assign(cls, name):
    for n in cls.body:
        if isinstance(n, ast.Assign) and len(n.targets) == 1 and \
                isinstance(n.targets[0], ast.Name) and n.targets[0].id == name:
            return n
    raise TranslateError(f'assignment {name} not found in {cls.name}')


def _closure(cls, fn, depth=2):
    """fn and the methods of the same class it calls as self.<name>(...) (transitively, up to
    depth levels): a helper extracted from the function is read together with it"""
    methods = {n.name: n for n in cls.body if isinstance(n, ast.FunctionDef)}
    out, frontier = [fn], [fn]
    for _ in range(depth):
        nxt = []
        for f in frontier:
            for n in ast.walk(f):
                if isinstance(n, ast.Call) and isinstance(n.func, ast.Attribute) \
                        and isinstance(n.func.value, ast.Name) and n.func.value.id == 'self' \
                        and n.func.attr in methods and methods[n.func.attr] not in out:
                    out.append(methods[n.func.attr])
                    nxt.append(methods[n.func.attr])
        frontier = nxt
    return out


def _region(txt, node):
    seg = ast.get_source_segment(txt, node)
    return hashlib.sha256(seg.encode()).hexdigest()


def _const_str(n):
    if isinstance(n, ast.Constant) and isinstance(n.value, str):
        return n.value
    raise TranslateError(f'string constant expected at line {getattr(n, "lineno", "?")}')


def _body_wo_doc(fn):
    body = list(fn.body)
    if body and isinstance(body[0], ast.Expr) and isinstance(body[0].value, ast.Constant) \
            and isinstance(body[0].value.value, str):
        body = body[1:]
    return body


def _index_list(call, var):
    """np.stack([d[:, i0], d[:, i1], ...], axis=-1) -> [i0, i1, ...]"""
    if not (isinstance(call, ast.Call) and isinstance(call.func, ast.Attribute)
            and call.func.attr == 'stack' and isinstance(call.func.value, ast.Name)
            and call.func.value.id == 'np' and len(call.args) == 1
            and isinstance(call.args[0], ast.List)):
        raise TranslateError('np.stack([...]) expected')
    kws = {k.arg: k.value for k in call.keywords}
    if set(kws) != {'axis'} or not (
            isinstance(kws['axis'], ast.UnaryOp) and isinstance(kws['axis'].op, ast.USub)
            and isinstance(kws['axis'].operand, ast.Constant) and kws['axis'].operand.value == 1):
        raise TranslateError('np.stack(..., axis=-1) expected')
    out = []
    for e in call.args[0].elts:
        if not (isinstance(e, ast.Subscript) and isinstance(e.value, ast.Name)
                and e.value.id == var and isinstance(e.slice, ast.Tuple)
                and len(e.slice.elts) == 2 and isinstance(e.slice.elts[0], ast.Slice)
                and e.slice.elts[0].lower is None and e.slice.elts[0].upper is None
                and e.slice.elts[0].step is None
                and isinstance(e.slice.elts[1], ast.Constant)
                and isinstance(e.slice.elts[1].value, int) and e.slice.elts[1].value >= 0):
            raise TranslateError(f'{var}[:, <int>] expected at line {e.lineno}')
        out.append(e.slice.elts[1].value)
    return out


def tr_dict_fistr(repo, consumed):
    txt, tree = _src(repo, 'femio/formats/fistr/fistr.py')
    cls = _find_class(tree, 'FrontISTRData')
    a = _find_assign(cls, 'DICT_FISTR_ELEMENTS')
    consumed['fistr.py:DICT_FISTR_ELEMENTS'] = _region(txt, a)
    # the table is EVALUATED (dict literal, comprehension over another constant, ...); nobody
    # may modify it after its definition (checked by the evaluator)
    it = _interp(tree, cls)
    d = _evaluated('DICT_FISTR_ELEMENTS', lambda: it.class_const('DICT_FISTR_ELEMENTS'))
    if not (isinstance(d, dict) and all(isinstance(k, str) and isinstance(v, str) for k, v in d.items())):
        raise TranslateError('DICT_FISTR_ELEMENTS is not a dict str -> str')
    table = list(d.items())
    # _convert_fistr_element_type is the lookup in that table (else raises): evaluated on every
    # key of the table and on codes that are not keys
    fn = _find_func(cls, '_convert_fistr_element_type')
    consumed['fistr.py:_convert_fistr_element_type'] = _region(txt, fn)
    argn = [a.arg for a in fn.args.args if a.arg != 'self']
    if len(argn) != 1:
        raise TranslateError('_convert_fistr_element_type: one argument expected')
    for k in list(d) + [k for k in ('000', '35', '3511', ' 351', '') if k not in d]:
        r = _evaluated('_convert_fistr_element_type', lambda: it.run(fn, {argn[0]: k}))
        if (k in d and r != ('return', d[k])) or (k not in d and r[0] != 'raise'):
            raise TranslateError(f'_convert_fistr_element_type({k!r}) is not the lookup in DICT_FISTR_ELEMENTS')
    # _reorder_prism
    fn = _find_func(cls, '_reorder_prism')
    consumed['fistr.py:_reorder_prism'] = _region(txt, fn)
    body = _body_wo_doc(fn)
    # if '<t>' not in self.elements: return ; prism = self.elements['<t>'] ; d = prism.data ;
    # prism.data = np.stack([...]) ; self.elements['<t>'] = prism ; return
    try:
        g = body[0]
        assert isinstance(g, ast.If) and isinstance(g.test, ast.Compare) \
            and isinstance(g.test.ops[0], ast.NotIn) and ast.unparse(g.test.comparators[0]) == 'self.elements' \
            and len(g.body) == 1 and isinstance(g.body[0], ast.Return) and g.body[0].value is None \
            and not g.orelse
        rtype = _const_str(g.test.left)
        assert ast.unparse(body[1]) == f"prism = self.elements['{rtype}']"
        assert ast.unparse(body[2]) == 'd = prism.data'
        st = body[3]
        assert isinstance(st, ast.Assign) and ast.unparse(st.targets[0]) == 'prism.data'
        stv = st.value
        rperm = _perm_of('_reorder_prism', _evaluated('_reorder_prism', lambda: it.expr(
            stv, {'d': c01_eval.Cols(range(6))})))
        assert ast.unparse(body[4]) == f"self.elements['{rtype}'] = prism"
        assert len(body) == 5 or (len(body) == 6 and isinstance(body[5], ast.Return)
                                  and body[5].value is None)
    except (AssertionError, IndexError):
        raise TranslateError('_reorder_prism has an unexpected shape')
    # _read_elements must call self._reorder_prism() as its last effect
    fn = _find_func(cls, '_read_elements')
    consumed['fistr.py:_read_elements'] = _region(txt, fn)
    calls = [ast.unparse(s) for s in _body_wo_doc(fn)]
    n_calls = sum(1 for n in ast.walk(fn) if isinstance(n, ast.Call)
                  and ast.unparse(n.func) == 'self._reorder_prism')
    if n_calls == 0:
        rtype, rperm = None, None
    elif not (n_calls == 1 and 'self._reorder_prism()' in calls[-2:]):
        raise TranslateError('_read_elements does not end with exactly one self._reorder_prism()')
    return table, rtype, rperm


def tr_writer(repo, consumed):
    txt, tree = _src(repo, 'femio/formats/fistr/write_fistr.py')
    cls = _find_class(tree, 'FistrWriter')
    fn = _find_func(cls, 'detect_fistr_element_type')
    consumed['write_fistr.py:detect_fistr_element_type'] = _region(txt, fn)
    # the decision femio type -> code is EVALUATED on every element type name the writer can
    # meet (write_msh iterates elements.items() = the types of ELEMENT_TYPES that are present):
    # if/elif chain, guard clauses, loop over a constant table, dict lookup, ... all read alike
    it = _interp(tree, cls)
    try:
        domain = tr_element_types(repo, {})
    except (TranslateError, OSError, SyntaxError):
        domain = []
    domain = domain + [t for t in KNOWN_TYPE_NAMES if t not in domain]
    argn = [a.arg for a in fn.args.args if a.arg != 'self']
    if len(argn) != 1:
        raise TranslateError('detect_fistr_element_type: one argument expected')
    table = []
    for t in domain:
        r = _evaluated('detect_fistr_element_type', lambda: it.run(fn, {argn[0]: t}))
        if r[0] == 'return':
            if not isinstance(r[1], str):
                raise TranslateError(f'detect_fistr_element_type({t!r}) returns {r[1]!r}')
            table.append((t, r[1]))
    # _reorder_prism_data, evaluated on a symbolic 6-column array: which column goes where
    # (any store into the argument = in-place change is outside the fragment)
    fn = _find_func(cls, '_reorder_prism_data')
    consumed['write_fistr.py:_reorder_prism_data'] = _region(txt, fn)
    argn = [a.arg for a in fn.args.args if a.arg != 'self']
    if len(argn) != 1:
        raise TranslateError('_reorder_prism_data: one argument expected')
    r = _evaluated('_reorder_prism_data', lambda: it.run(fn, {argn[0]: c01_eval.Cols(range(6))}))
    if r[0] != 'return':
        raise TranslateError('_reorder_prism_data raises')
    wperm = _perm_of('_reorder_prism_data', r[1])
    # the element loop of write_msh
    fn = _find_func(cls, 'write_msh')
    consumed['write_fistr.py:write_msh'] = _region(txt, fn)
    loops = [n for n in fn.body if isinstance(n, ast.For)
             and ast.unparse(n.iter) == 'self.fem_data.elements.items()']
    if len(loops) < 1:
        raise TranslateError('write_msh: element loop not found')
    lp = loops[0]
    if ast.unparse(lp.target) != '(element_type, elements)':
        raise TranslateError('write_msh: element loop target')
    try:
        s0, s1, s2 = lp.body
        assert ast.unparse(s0) == 'fistr_element_type = self.detect_fistr_element_type(element_type)'
        assert isinstance(s1, ast.If)
        if ast.unparse(s1.test) in ('False',):
            wcodes = []
        else:
            assert isinstance(s1.test, ast.Compare) and len(s1.test.ops) == 1 \
                and isinstance(s1.test.ops[0], ast.In) \
                and ast.unparse(s1.test.left) == 'fistr_element_type'
            cmp0 = s1.test.comparators[0]
            wcodes = _evaluated('write_msh: codes written in prism order', lambda: it.expr(cmp0, {}))
            assert isinstance(wcodes, (list, tuple, set, frozenset, dict)) \
                and all(isinstance(c, str) for c in wcodes)
            wcodes = sorted(wcodes)
        assert [ast.unparse(x) for x in s1.body] == \
            ['elements_data = self._reorder_prism_data(elements.data)']
        assert [ast.unparse(x) for x in s1.orelse] == ['elements_data = elements.data']
        assert isinstance(s2, ast.Expr) and isinstance(s2.value, ast.Call) \
            and ast.unparse(s2.value.func) == 'self.write_data'
        args = [ast.unparse(a) for a in s2.value.args]
        assert args[0] == 'self.write_msh_file' and args[2:] == ['elements.ids', 'elements_data']
        hdr = s2.value.args[1]
        assert isinstance(hdr, ast.JoinedStr) and len(hdr.values) == 3
        h0 = _const_str(hdr.values[0])
        assert isinstance(hdr.values[1], ast.FormattedValue) \
            and ast.unparse(hdr.values[1].value) == 'fistr_element_type'
        h1 = _const_str(hdr.values[2])
        assert h1 == '\n'
        kws = {k.arg: k.value for k in s2.value.keywords}
        assert set(kws) == {'str_format'}
        elem_fmt = _const_str(kws['str_format'])
    except (AssertionError, ValueError):
        raise TranslateError('write_msh: element loop has an unexpected shape')
    # write_data default format
    fn = _find_func(cls, 'write_data')
    consumed['write_fistr.py:write_data'] = _region(txt, fn)
    body = _body_wo_doc(fn)
    try:
        i0 = body[0]
        assert isinstance(i0, ast.If) and ast.unparse(i0.test) == 'str_format is None'
        assert len(i0.body) == 1 and isinstance(i0.body[0], ast.Assign) and not i0.orelse
        real_fmt = _const_str(i0.body[0].value)
        assert ast.unparse(body[1]) == (
            'data_str = st.StringSeries.read_array(data_ids).connect('
            'st.StringSeries.connect_all(args, str_format=str_format))')
        w = body[2]
        assert isinstance(w, ast.With) and ast.unparse(w.items[0]) == "open(file_name, 'a') as f"
        assert [ast.unparse(x) for x in w.body] == \
            ['f.write(header)', "f.write('\\n'.join(data_str))", "f.write('\\n')"]
    except (AssertionError, IndexError):
        raise TranslateError('write_data has an unexpected shape')
    return table, wperm, wcodes, h0, elem_fmt, real_fmt


def _fmt_digits(fmt, what):
    m = re.fullmatch(r'%\.(\d+)E', fmt)
    if not m:
        raise TranslateError(f'{what}: format {fmt!r} is not of the form %.<n>E')
    return int(m.group(1))


def tr_element_types(repo, consumed):
    txt, tree = _src(repo, 'femio/fem_elemental_attribute.py')
    cls = _find_class(tree, 'FEMElementalAttribute')
    a = _find_assign(cls, 'ELEMENT_TYPES')
    consumed['fem_elemental_attribute.py:ELEMENT_TYPES'] = _region(txt, a)
    types = _evaluated('ELEMENT_TYPES', lambda: _interp(tree, cls).class_const('ELEMENT_TYPES'))
    if not (isinstance(types, (list, tuple)) and all(isinstance(t, str) for t in types)):
        raise TranslateError('ELEMENT_TYPES is not a list of strings')
    types = list(types)
    for name in ('keys', 'values', 'items'):
        fn = _find_func(cls, name)
        consumed[f'fem_elemental_attribute.py:{name}'] = _region(txt, fn)
        src = ast.unparse(_body_wo_doc(fn)[0])
        want = {'keys': 'return [t for t in self.ELEMENT_TYPES if t in self]',
                'values': 'return [self[t] for t in self.ELEMENT_TYPES if t in self]',
                'items': 'return [(t, self[t]) for t in self.ELEMENT_TYPES if t in self]'}[name]
        if src != want:
            raise TranslateError(f'FEMElementalAttribute.{name} no longer iterates in ELEMENT_TYPES order')
    return types


KNOWN_TYPE_NAMES = ['line', 'line2', 'spring', 'tri', 'tri2', 'quad', 'quad2', 'polygon', 'tet', 'tet2',
                    'pyr', 'pyr2', 'prism', 'prism2', 'hex', 'hex2', 'hexprism', 'polyhedron', 'unknown']

IGNORE_ALTS = {'#': 'IHash', r'^\s*$': 'IBlank', '^!!': 'IBang', r'^\s*!!': 'IBangWs',
               '!!': 'IBangAny'}


def tr_ignore(repo, consumed):
    txt, tree = _src(repo, 'femio/fem_data.py')
    cls = _find_class(tree, 'FEMData')
    fn = _find_func(cls, '_read_files')
    consumed['fem_data.py:_read_files'] = _region(txt, fn)
    kw = dict(zip([a.arg for a in fn.args.kwonlyargs], fn.args.kw_defaults))
    if 'pattern_ignore' not in kw:
        raise TranslateError('_read_files has no pattern_ignore keyword')
    pat = _const_str(kw['pattern_ignore'])
    m = re.fullmatch(r'\(\?:(.*)\)', pat)
    inner = m.group(1) if m else pat
    alts = inner.split('|')
    out = []
    for a in alts:
        if a not in IGNORE_ALTS:
            raise TranslateError(f'pattern_ignore alternative {a!r} not understood')
        out.append(IGNORE_ALTS[a])
    # the msh and cnt files must be read with the default pattern
    txt2, tree2 = _src(repo, 'femio/formats/fistr/fistr.py')
    fn2 = _find_func(_find_class(tree2, 'FrontISTRData'), '_read_str_data')
    consumed['fistr.py:_read_str_data'] = _region(txt2, fn2)
    src = ast.unparse(fn2)
    if "'msh': self._read_files('\\\\.msh')" not in src or \
            "'cnt': self._read_files('\\\\.cnt', mandatory=False)" not in src:
        raise TranslateError('_read_str_data no longer reads msh/cnt with the default ignore pattern')
    return out, pat


def tr_remove_useless(repo, consumed):
    """how remove_useless_nodes re-attaches nodal variables to the kept nodes: matched on the
    rebinding EXPRESSION  FEMAttribute(value.name, <ids>, <data>)  wherever it stands (loop,
    comprehension, ...):  <data> = value.loc[<ids>].values with <ids> the new node ids -> by
    node id (True);  <data> = value.data[useful_indices] -> by storage position (False)"""
    txt, tree = _src(repo, 'femio/fem_data.py')
    fn = _find_func(_find_class(tree, 'FEMData'), 'remove_useless_nodes')
    consumed['fem_data.py:remove_useless_nodes'] = _region(txt, fn)
    calls = [n for n in ast.walk(fn) if isinstance(n, ast.Call)
             and ast.unparse(n.func) == 'FEMAttribute' and len(n.args) == 3
             and ast.unparse(n.args[0]) == 'value.name']
    if len(calls) != 1 or calls[0].keywords:
        raise TranslateError('remove_useless_nodes: rebinding of nodal variables not found')
    ids, data = ast.unparse(calls[0].args[1]), ast.unparse(calls[0].args[2])
    # the new node table: kept rows of the old one, ids and coordinates together
    new_nodes_ok = any(
        isinstance(n, ast.Assign) and ast.unparse(n.targets[0]) in ('self.nodes', 'new_nodes')
        and isinstance(n.value, ast.Call) and ast.unparse(n.value.func) == 'FEMAttribute'
        and [ast.unparse(x) for x in n.value.args] ==
        ['self.nodes.name', 'self.nodes.ids[useful_indices]', 'self.nodes.data[useful_indices]']
        for n in ast.walk(fn))
    if not new_nodes_ok:
        raise TranslateError('remove_useless_nodes: construction of the new node table not understood')
    src = ast.unparse(fn)
    if ids == 'new_nodes.ids' and 'self.nodes = new_nodes' not in src:
        raise TranslateError('remove_useless_nodes: new_nodes is not installed as self.nodes')
    if ids not in ('self.nodes.ids', 'new_nodes.ids'):
        raise TranslateError(f'remove_useless_nodes: nodal variables re-labelled with {ids!r}')
    # the values in value.items() must iterate self.nodal_data
    if 'self.nodal_data.items()' not in src:
        raise TranslateError('remove_useless_nodes: does not iterate self.nodal_data')
    if data == f'value.loc[{ids}].values':
        return True
    if data == 'value.data[useful_indices]':
        return False
    raise TranslateError(f'remove_useless_nodes: nodal data re-attached by {data!r}: not understood')


def tr_generate_constraints(repo, consumed):
    """does _generate_constraints return empty arrays when no column has a
    prescription (True), or run np.concatenate on an empty list (False: raises)"""
    txt, tree = _src(repo, 'femio/formats/fistr/write_fistr.py')
    fn = _find_func(_find_class(tree, 'FistrWriter'), '_generate_constraints')
    consumed['write_fistr.py:_generate_constraints'] = _region(txt, fn)
    body = _body_wo_doc(fn)
    want_head = ['data = constraint_attribute.data', 'ids = constraint_attribute.ids',
                 'write_ids = []', 'write_dof = []', 'write_data = []']
    if [ast.unparse(x) for x in body[:5]] != want_head or not isinstance(body[5], ast.For):
        raise TranslateError('_generate_constraints: unexpected prologue')
    loop = ast.unparse(body[5])
    want_loop = ('for index in range(data.shape[-1]):\n'
                 '    not_nan = ~np.isnan(data[:, index])\n'
                 '    if not np.any(not_nan):\n        continue\n'
                 '    write_ids.append(ids[not_nan])\n'
                 '    write_dof.append(np.stack([[index + 1, index + 1]] * np.sum(not_nan)))\n'
                 '    write_data.append(data[not_nan, index])')
    if loop != want_loop:
        raise TranslateError('_generate_constraints: the column loop changed')
    rest = body[6:]
    ret = 'return (np.concatenate(write_ids), np.concatenate(write_dof), np.concatenate(write_data))'
    if len(rest) == 1 and ast.unparse(rest[0]) == ret:
        return False
    if len(rest) == 2 and ast.unparse(rest[1]) == ret and isinstance(rest[0], ast.If) \
            and ast.unparse(rest[0].test) in ('len(write_ids) == 0', 'not write_ids') \
            and not rest[0].orelse and len(rest[0].body) == 1 \
            and isinstance(rest[0].body[0], ast.Return):
        r = ast.unparse(rest[0].body[0].value)
        if r == '(np.zeros(0, dtype=int), np.zeros((0, 2), dtype=int), np.zeros(0))':
            return True
    raise TranslateError('_generate_constraints: epilogue not understood')


def tr_split_blocks(repo, consumed):
    """are !EGROUP blocks of the same name / !INITIAL CONDITION blocks of the same
    type merged (True) or does the later block replace the earlier one (False)"""
    txt, tree = _src(repo, 'femio/formats/fistr/fistr.py')
    cls = _find_class(tree, 'FrontISTRData')
    fn = _find_func(cls, '_read_element_groups')
    consumed['fistr.py:_read_element_groups'] = _region(txt, fn)
    # the !EGROUP branch may live in a private helper called from _read_element_groups
    parts = [f for f in _closure(cls, fn) if f.name != '_merge_groups']
    for f in parts[1:]:
        consumed['fistr.py:' + f.name] = _region(txt, f)
    src = '\n'.join(ast.unparse(f) for f in parts)
    old = ('self.element_groups.update({e: l.to_values(data_type=int, to_rank1=True) '
           'for e, l in zip(egrps, series)})')
    new = ('self.element_groups.update(self._merge_groups(egrps, '
           '[l.to_values(data_type=int, to_rank1=True) for l in series]))')
    if src.count(old) == 1 and new not in src:
        merge_g = False
    elif src.count(new) == 1 and old not in src:
        mg = _find_func(cls, '_merge_groups')
        consumed['fistr.py:_merge_groups'] = _region(txt, mg)
        want = ('groups = {}\n'
                'for name, values in zip(names, list_values):\n'
                '    if name in groups:\n'
                '        groups[name] = np.concatenate([groups[name], values])\n'
                '    else:\n        groups[name] = values\n'
                'return groups')
        if '\n'.join(ast.unparse(x) for x in _body_wo_doc(mg)) != want:
            raise TranslateError('_merge_groups has an unexpected shape')
        merge_g = True
    else:
        raise TranslateError('_read_element_groups: !EGROUP branch not understood')
    fn = _find_func(cls, '_read_node_groups')
    consumed['fistr.py:_read_node_groups'] = _region(txt, fn)
    body = [ast.unparse(x) for x in _body_wo_doc(fn)]
    head = ["self.node_groups.update({'ALL': self.nodes.ids})",
            "ngrps = header_data.extract_headers('!NGROUP').extract_captures('NGRP=(\\\\w+)')",
            "series = header_data.extract_data('!NGROUP', concatenate=False)"]
    oldn = ('self.node_groups.update({n: l.to_values(data_type=int, to_rank1=True) '
            'for n, l in zip(ngrps, series)})')
    newn = ('self.node_groups.update(self._merge_groups(ngrps, '
            '[l.to_values(data_type=int, to_rank1=True) for l in series]))')
    if body[:3] != head or len(body) != 4 or body[3] not in (oldn, newn):
        raise TranslateError('_read_node_groups not understood')
    merge_n = body[3] == newn
    if merge_n and not merge_g:
        mg = _find_func(cls, '_merge_groups')   # shape checked below only with merge_g
        raise TranslateError('_merge_groups used for node groups only: not understood')
    fn = _find_func(cls, '_read_initial_condisions')
    consumed['fistr.py:_read_initial_condisions'] = _region(txt, fn)
    loops = [n for n in fn.body if isinstance(n, ast.For)]
    heads = [ast.unparse(n.target) + ' in ' + ast.unparse(n.iter) for n in loops]
    if heads == ['(init_type, value) in zip(init_types, values)']:
        merge_i = False
    elif heads == ['(init_type, value) in zip(init_types, values)',
                   '(init_type, value) in merged.items()']:
        want = ('if init_type in merged:\n'
                '    merged[init_type] = st.StringSeries.concat([merged[init_type], value])\n'
                'else:\n    merged[init_type] = value')
        if '\n'.join(ast.unparse(x) for x in loops[0].body) != want:
            raise TranslateError('_read_initial_condisions: merge loop not understood')
        merge_i = True
    else:
        raise TranslateError('_read_initial_condisions: loops not understood')
    return merge_g, merge_i, merge_n


def tr_first_write(repo, consumed):
    """Is the first write to <name>.msh / <name>.cnt of a FEMData.write('fistr') call a
    truncating open (mode 'w' = Create) on every path?  Uses the effect program that
    translate/c07_effects.py extracts (Create vs Append, Guard, If, Loop, Call)."""
    import c07_effects
    try:
        cfg, cons = c07_effects.translate(str(repo))
    except c07_effects.TranslateError as e:
        raise TranslateError('c07_effects: ' + str(e))
    for k, v in cons.items():
        if 'fistr' in k.lower() or 'write' in k.lower():
            consumed['effects:' + k] = v
    prog = dict(cfg).get('fistr')
    if prog is None:
        raise TranslateError('no effect program for format fistr')

    def first_kinds(suffix):
        kinds = set()

        def is_target(pe):
            return pe[0] == 'PSuffix' and pe[1] == suffix and pe[2] == ('PName',)

        def go(q, st):
            k = q[0]
            if k == 'Skip':
                return {('N', st)}
            if k == 'Return':
                return {('R', st)}
            if k == 'Raise':
                return {('X', st)}
            if k == 'Guard':
                return {('N', st), ('X', st)}
            if k in ('Create', 'Append'):
                if is_target(q[1]):
                    if st == 'none':
                        kinds.add(k)
                    return {('N', 'done')}
                return {('N', st)}
            if k == 'Seq':
                out = set()
                for o, s1 in go(q[1], st):
                    out |= go(q[2], s1) if o == 'N' else {(o, s1)}
                return out
            if k == 'If':
                return go(q[1], st) | go(q[2], st)
            if k == 'Call':
                return {('N' if o == 'R' else o, s1) for o, s1 in go(q[1], st)}
            if k == 'Loop':
                seen, frontier, out = {st}, [st], {('N', st)}
                while frontier:
                    s0 = frontier.pop()
                    for o, s1 in go(q[1], s0):
                        out.add((o, s1))
                        if o == 'N' and s1 not in seen:
                            seen.add(s1)
                            frontier.append(s1)
                return out
            raise TranslateError(f'effect program: unknown node {k}')
        go(prog, 'none')
        return kinds
    return first_kinds('.msh') == {'Create'}, first_kinds('.cnt') == {'Create'}


PINNED = {
    ('femio/formats/fistr/fistr.py', 'FrontISTRData', '_resolve_assignments_materials'):
        'ids = self._extract_ids_from_sections()\nif not np.any(ids):\n    return\nproperty_names = self.materials.keys()\nfor property_name in property_names:\n    materials = self._extract_material_values(property_name)\n    self.elemental_data[property_name] = self.elements.generate_elemental_attribute(property_name, ids, materials)\nreturn',
    ('femio/formats/fistr/fistr.py', 'FrontISTRData', '_extract_ids_from_sections'):
        "if len(self.sections) == 0:\n    list_ids = [self.elements.ids]\nelse:\n    list_ids = [self.element_groups[section_value] for section_value in self.sections.get_attribute_data('EGRP')]\nreturn np.concatenate(list_ids)",
    ('femio/formats/fistr/fistr.py', 'FrontISTRData', '_extract_material_values'):
        "material = self.materials[property_name]\nreturn np.concatenate([np.repeat(np.atleast_2d(material.loc[material_name].values), len(self.element_groups[element_group_name]), axis=0) for material_name, element_group_name in zip(self.sections['EGRP'].ids, self.sections['EGRP'].data)])",
    ('femio/fem_elemental_attribute.py', 'FEMElementalAttribute', 'generate_elemental_attribute'):
        'dict_elemental_attribute = {}\ndata_frame = pd.DataFrame(data, index=ids)\nfor type_, type_ids in self.dict_type_ids.items():\n    intersect_ids = np.intersect1d(type_ids, ids)\n    if len(intersect_ids) == 0:\n        continue\n    intersect_data = data_frame.loc[intersect_ids]\n    dict_elemental_attribute.update({type_: FEMAttribute(name, ids=intersect_ids, data=intersect_data.values)})\nreturn FEMElementalAttribute(name, dict_elemental_attribute)',
}


def tr_pinned(repo, consumed):
    """functions modelled by hand whose body must be exactly the modelled one (AST, so
    comments / layout do not matter): the per-element material assignment"""
    for (rel, cname, fname), want in PINNED.items():
        txt, tree = _src(repo, rel)
        fn = _find_func(_find_class(tree, cname), fname)
        consumed[f'{Path(rel).name}:{fname}'] = _region(txt, fn)
        got = '\n'.join(ast.unparse(x) for x in _body_wo_doc(fn))
        if got != want:
            raise TranslateError(f'{cname}.{fname} is not the modelled body any more')


def tr_read_array(repo, consumed):
    txt, tree = _src(repo, 'femio/util/string_parser.py')
    cls = _find_class(tree, 'StringSeries')
    fn = _find_func(cls, 'read_array')
    consumed['string_parser.py:read_array'] = _region(txt, fn)
    fmt = None
    for n in _body_wo_doc(fn):
        if isinstance(n, ast.If) and ast.unparse(n.test) == \
                "str_format is None and 'float' in str(array.dtype)":
            if len(n.body) == 1 and isinstance(n.body[0], ast.Assign):
                fmt = _const_str(n.body[0].value)
    if fmt is None:
        raise TranslateError('read_array: default float format not found')
    return fmt


def components(repo, consumed):
    """(region name, thunk -> dict of table entries), in translation order"""
    def dict_fistr():
        rtable, rtype, rperm = tr_dict_fistr(repo, consumed)
        return {'fistr_elements': rtable, 'prism_read_type': rtype, 'prism_perm_read': rperm}

    def writer():
        wtable, wperm, wcodes, elem_hdr, elem_fmt, real_fmt = tr_writer(repo, consumed)
        if elem_fmt != '%d':
            raise TranslateError(f'element rows are written with {elem_fmt!r}, not %d')
        return {'detect_table': wtable, 'prism_perm_write': wperm, 'prism_write_codes': wcodes,
                'element_header': elem_hdr, 'frac_digits': _fmt_digits(real_fmt, 'write_data')}

    def element_types():
        return {'element_types': tr_element_types(repo, consumed)}

    def ignore():
        pats, src = tr_ignore(repo, consumed)
        return {'ignore_pats': pats, 'ignore_src': src}

    def read_array():
        return {'default_frac_digits': _fmt_digits(tr_read_array(repo, consumed), 'read_array')}

    def remove_useless():
        return {'rebind_by_id': tr_remove_useless(repo, consumed)}

    def generate_constraints():
        return {'gen_empty_ok': tr_generate_constraints(repo, consumed)}

    def split_blocks():
        g, i, n = tr_split_blocks(repo, consumed)
        return {'merge_egroups': g, 'merge_initial': i, 'merge_ngroups': n}

    def first_write():
        m, c = tr_first_write(repo, consumed)
        return {'msh_truncated': m, 'cnt_truncated': c}

    def pinned():
        tr_pinned(repo, consumed)
        return {}

    return [('dict_fistr', dict_fistr), ('writer', writer), ('element_types', element_types),
            ('ignore', ignore), ('read_array', read_array), ('remove_useless', remove_useless),
            ('generate_constraints', generate_constraints), ('split_blocks', split_blocks),
            ('first_write', first_write), ('pinned', pinned)]


BASELINE = Path(__file__).resolve().parent / 'c01_baseline.json'


def make_baseline(repo):
    consumed, tables, regions = {}, {}, {}
    for name, thunk in components(repo, consumed):
        d = thunk()
        tables.update(d)
        regions[name] = sorted(d)
    return {'tables': tables, 'regions': regions}


def translate(repo):
    """strict: any region outside the grammar raises TranslateError"""
    consumed, t = {}, {}
    for _, thunk in components(repo, consumed):
        t.update(thunk())
    return t, consumed


def translate_degrading(repo, baseline=None):
    """-> (tables, consumed, degraded).  A region the translator cannot read is taken from
    the committed baseline (translate/c01_baseline.json = the translation of the registered
    tree) and listed in degraded = {region: reason}: the caller then has to decide what the
    region decides by a widened correspondence instead (tie T -> H), see harness/c01.py."""
    import json
    consumed, degraded, t = {}, {}, {}
    for name, thunk in components(repo, consumed):
        try:
            t.update(thunk())
        except (TranslateError, SyntaxError, OSError, KeyError, IndexError, ValueError,
                AttributeError, TypeError) as e:
            if baseline is None:
                baseline = json.loads(BASELINE.read_text())
            for k in baseline['regions'][name]:
                v = baseline['tables'][k]
                t[k] = [tuple(x) if isinstance(x, list) else x for x in v] if isinstance(v, list) else v
            degraded[name] = f'{type(e).__name__}: {e}'
    return t, consumed, degraded


def emit(t):
    def pairs(l):
        return '[' + '; '.join(f'({coq_str(a)}, {coq_str(b)})' for a, b in l) + ']'

    def strs(l):
        return '[' + '; '.join(coq_str(a) for a in l) + ']'

    def nats(l):
        return '[' + '; '.join(str(a) for a in l) + ']'
    lines = [
        '(* GENERATED by translate/c01_tables.py from the tree under test; do not edit. *)',
        'From Coq Require Import String List.',
        'From FV.C01 Require Import Str.',
        'Import ListNotations.',
        'Local Open Scope string_scope.',
        '',
        '(* fistr.py: FrontISTRData.DICT_FISTR_ELEMENTS (code -> femio type) *)',
        f'Definition fistr_elements : list (string * string) := {pairs(t["fistr_elements"])}.',
        '(* write_fistr.py: detect_fistr_element_type (femio type -> code) *)',
        f'Definition detect_table : list (string * string) := {pairs(t["detect_table"])}.',
        '(* fem_elemental_attribute.py: ELEMENT_TYPES = iteration order of elements.items() *)',
        f'Definition element_types : list string := {strs(t["element_types"])}.',
        '(* write_fistr.py: _reorder_prism_data and the codes it is applied to *)',
        f'Definition prism_perm_write : list nat := {nats(t["prism_perm_write"])}.',
        f'Definition prism_write_codes : list string := {strs(t["prism_write_codes"])}.',
        '(* fistr.py: _reorder_prism (None when _read_elements does not call it) *)',
        'Definition prism_read : option (string * list nat) := '
        + ('None' if t['prism_read_type'] is None else
           f'Some ({coq_str(t["prism_read_type"])}, {nats(t["prism_perm_read"])})') + '.',
        '(* write_fistr.py: header prefix of an element block *)',
        f'Definition element_header : string := {coq_str(t["element_header"])}.',
        '(* write_fistr.py write_data: digits after the point of the default real format *)',
        f'Definition frac_digits : nat := {t["frac_digits"]}.',
        '(* string_parser.py read_array: digits after the point of the default float format *)',
        f'Definition default_frac_digits : nat := {t["default_frac_digits"]}.',
        f'(* fem_data.py _read_files: pattern_ignore = {t["ignore_src"]} *)'.replace('*)', '* )')[:-3] + '*)',
        f'Definition ignore_pats : list ipat := [{"; ".join(t["ignore_pats"])}].',
        '(* fem_data.py remove_useless_nodes: nodal variables re-attached by node id (true) or by',
        '   storage position (false) *)',
        f'Definition rebind_by_id : bool := {"true" if t["rebind_by_id"] else "false"}.',
        '(* write_fistr.py _generate_constraints: a table without any prescription gives empty',
        '   arrays (true) or makes np.concatenate raise (false) *)',
        f'Definition gen_empty_ok : bool := {"true" if t["gen_empty_ok"] else "false"}.',
        '(* fistr.py _read_element_groups / _read_initial_condisions: blocks with the same name /',
        '   type are merged (true) or the later block replaces the earlier one (false) *)',
        f'Definition merge_egroups : bool := {"true" if t["merge_egroups"] else "false"}.',
        f'Definition merge_initial : bool := {"true" if t["merge_initial"] else "false"}.',
        f'Definition merge_ngroups : bool := {"true" if t["merge_ngroups"] else "false"}.',
        '(* effect program of FEMData.write(\'fistr\') (translate/c07_effects.py): on every path the',
        '   first write to <name>.msh / <name>.cnt opens the file with mode w (truncates) *)',
        f'Definition msh_truncated : bool := {"true" if t["msh_truncated"] else "false"}.',
        f'Definition cnt_truncated : bool := {"true" if t["cnt_truncated"] else "false"}.',
        '',
    ]
    return '\n'.join(lines)


if __name__ == '__main__':
    import json
    if len(sys.argv) > 1 and sys.argv[1] == '--write-baseline':
        b = make_baseline(sys.argv[2] if len(sys.argv) > 2 else '/repo')
        BASELINE.write_text(json.dumps(b, indent=1) + '\n')
        print('baseline written:', BASELINE)
    else:
        t, c, d = translate_degrading(sys.argv[1] if len(sys.argv) > 1 else '/repo')
        print(emit(t))
        print('(* degraded:', json.dumps(d, indent=1), '*)')
