"""C03 — translation layer of the .cnt check.

1. `_generate_constraints` is recognised on *meaning*: single-assignment locals
   are inlined, the loop variable / list names are alpha-normalised and the
   equivalent numpy spellings of "no prescription in this column", "number of
   prescriptions" and "n rows [dof, dof]" are mapped to one canonical form
   before the comparison.  Result: gen_empty_ok (all-NaN table -> empty
   section, or np.concatenate([]) raises).
2. The constraint sections of `write_cnt` (key in fem_data.constraints, header
   line, which arrays are written, formats) are read as a table
   (`cnt_sections`), whether they are written as a chain of `if key in ...`
   blocks or as a loop over a constant module-/class-level table.
3. The regions of translate/c01_tables.py (owned by C01, shared) are read
   component by component.  A region that cannot be read does NOT raise: its
   values are taken from the committed baseline (translate/c03_baseline.json =
   what translated on the registered tree) and the region is listed in
   `degraded`; the harness then runs a widened correspondence (tie T -> H).

Only SyntaxError / OSError (the tree cannot be parsed at all) propagate.
"""
import ast
import copy
import json
import sys
from pathlib import Path

sys.path.insert(0, str(Path(__file__).resolve().parent))
import c01_tables as c1  # noqa: E402

TranslateError = c1.TranslateError
BASELINE = Path(__file__).resolve().parent / 'c03_baseline.json'
WRITE_FISTR = 'femio/formats/fistr/write_fistr.py'

# regions of c01_tables the C03 model / correspondence depends on
RELEVANT = {'cflux_label', 'ignore', 'generate_constraints', 'split_blocks', 'first_write', 'writer', 'cnt_sections'}


# ---------------------------------------------------------------- AST helpers
class _Subst(ast.NodeTransformer):
    def __init__(self, env):
        self.env = env

    def visit_Name(self, node):
        if isinstance(node.ctx, ast.Load) and node.id in self.env:
            return copy.deepcopy(self.env[node.id])
        return node


def _subst(node, env):
    return ast.fix_missing_locations(_Subst(env).visit(copy.deepcopy(node))) if env else node


def _names_stored(nodes):
    out = []
    for n in nodes:
        for x in ast.walk(n):
            if isinstance(x, ast.Name) and isinstance(x.ctx, (ast.Store, ast.Del)):
                out.append(x.id)
    return out


def _is_pure(e):
    """expressions that may be moved to their use sites: names, constants,
    arithmetic, subscripts, attribute reads and calls of numpy functions /
    array reductions (np.*, x.sum(), x.any(), len)"""
    for x in ast.walk(e):
        if isinstance(x, (ast.Name, ast.Constant, ast.BinOp, ast.UnaryOp, ast.Subscript, ast.Slice,
                          ast.Tuple, ast.List, ast.Attribute, ast.Compare, ast.BoolOp, ast.Load,
                          ast.operator, ast.unaryop, ast.cmpop, ast.boolop, ast.keyword)):
            continue
        if isinstance(x, ast.Call):
            f = x.func
            if isinstance(f, ast.Attribute) and isinstance(f.value, ast.Name) and f.value.id == 'np':
                continue
            if isinstance(f, ast.Attribute) and f.attr in ('sum', 'any', 'all'):
                continue
            if isinstance(f, ast.Name) and f.id in ('len', 'int', 'range'):
                continue
            return False
        return False
    return True


def inline_locals(stmts, keep=()):
    """inline `name = <pure expr>` for names assigned exactly once in `stmts`
    (and not in `keep`) into the statements that follow"""
    stored = _names_stored(stmts)
    env, out = {}, []
    for s in stmts:
        s = _subst(s, env)
        if isinstance(s, ast.Assign) and len(s.targets) == 1 and isinstance(s.targets[0], ast.Name) \
                and s.targets[0].id not in keep and stored.count(s.targets[0].id) == 1 \
                and _is_pure(s.value):
            env[s.targets[0].id] = s.value
            continue
        if isinstance(s, (ast.If, ast.For)):
            s.body = inline_locals(s.body, keep)
            s.orelse = inline_locals(s.orelse, keep)
        out.append(s)
    return out


def _u(n):
    return ast.unparse(n)


def _call_np(e, names):
    return isinstance(e, ast.Call) and isinstance(e.func, ast.Attribute) \
        and isinstance(e.func.value, ast.Name) and e.func.value.id == 'np' and e.func.attr in names \
        and not e.keywords


def _count_of(e):
    """np.sum(M) | np.count_nonzero(M) | M.sum() | int(<count>) -> source of M"""
    if _call_np(e, ('sum', 'count_nonzero')) and len(e.args) == 1:
        return _u(e.args[0])
    if isinstance(e, ast.Call) and isinstance(e.func, ast.Attribute) and e.func.attr == 'sum' \
            and not e.args and not e.keywords:
        return _u(e.func.value)
    if isinstance(e, ast.Call) and isinstance(e.func, ast.Name) and e.func.id == 'int' and len(e.args) == 1:
        return _count_of(e.args[0])
    return None


def _any_of(e):
    """np.any(M) | M.any() | <count> > 0 | <count> != 0 | <count> >= 1 | <count> -> M"""
    if _call_np(e, ('any',)) and len(e.args) == 1:
        return _u(e.args[0])
    if isinstance(e, ast.Call) and isinstance(e.func, ast.Attribute) and e.func.attr == 'any' \
            and not e.args and not e.keywords:
        return _u(e.func.value)
    if isinstance(e, ast.Compare) and len(e.ops) == 1 and isinstance(e.comparators[0], ast.Constant):
        c, k = _count_of(e.left), e.comparators[0].value
        if c is not None and ((isinstance(e.ops[0], (ast.Gt, ast.NotEq)) and k == 0)
                              or (isinstance(e.ops[0], ast.GtE) and k == 1)):
            return c
    return _count_of(e)


def _none_of(e):
    """not <any> | <count> == 0 | <count> < 1 -> M"""
    if isinstance(e, ast.UnaryOp) and isinstance(e.op, ast.Not):
        return _any_of(e.operand)
    if isinstance(e, ast.Compare) and len(e.ops) == 1 and isinstance(e.comparators[0], ast.Constant):
        c, k = _count_of(e.left), e.comparators[0].value
        if c is not None and ((isinstance(e.ops[0], ast.Eq) and k == 0)
                              or (isinstance(e.ops[0], ast.Lt) and k == 1)
                              or (isinstance(e.ops[0], ast.LtE) and k == 0)):
            return c
    return None


def _dof_block(e):
    """n rows [k, k]: np.stack([[k, k]] * n) | np.array([[k, k]] * n) | np.full((n, 2), k)
    | np.tile([k, k], (n, 1)) -> (source of k, M of the count n)"""
    if _call_np(e, ('stack', 'array', 'asarray')) and len(e.args) == 1 and isinstance(e.args[0], ast.BinOp) \
            and isinstance(e.args[0].op, ast.Mult):
        a, b = e.args[0].left, e.args[0].right
        if not isinstance(a, ast.List):
            a, b = b, a
        if isinstance(a, ast.List) and len(a.elts) == 1 and isinstance(a.elts[0], ast.List) \
                and len(a.elts[0].elts) == 2 and _u(a.elts[0].elts[0]) == _u(a.elts[0].elts[1]):
            m = _count_of(b)
            if m is not None:
                return _u(a.elts[0].elts[0]), m
    if _call_np(e, ('full',)) and len(e.args) == 2 and isinstance(e.args[0], ast.Tuple) \
            and len(e.args[0].elts) == 2 and _u(e.args[0].elts[1]) == '2':
        m = _count_of(e.args[0].elts[0])
        if m is not None:
            return _u(e.args[1]), m
    if _call_np(e, ('tile',)) and len(e.args) == 2 and isinstance(e.args[0], ast.List) \
            and len(e.args[0].elts) == 2 and _u(e.args[0].elts[0]) == _u(e.args[0].elts[1]) \
            and isinstance(e.args[1], ast.Tuple) and len(e.args[1].elts) == 2 and _u(e.args[1].elts[1]) == '1':
        m = _count_of(e.args[1].elts[0])
        if m is not None:
            return _u(e.args[0].elts[0]), m
    return None


def _append(s):
    """L.append(x) -> (L, x)"""
    if isinstance(s, ast.Expr) and isinstance(s.value, ast.Call) and isinstance(s.value.func, ast.Attribute) \
            and s.value.func.attr == 'append' and isinstance(s.value.func.value, ast.Name) \
            and len(s.value.args) == 1 and not s.value.keywords:
        return s.value.func.value.id, s.value.args[0]
    return None


EMPTY_RETURN = '(np.zeros(0, dtype=int), np.zeros((0, 2), dtype=int), np.zeros(0))'


def tr_generate_constraints(repo, consumed):
    """gen_empty_ok of the tree, recognised on meaning (see module docstring);
    TranslateError when the function is not the modelled column-major gather"""
    txt, tree = c1._src(repo, WRITE_FISTR)
    fn = c1._find_func(c1._find_class(tree, 'FistrWriter'), '_generate_constraints')
    consumed['write_fistr.py:_generate_constraints'] = c1._region(txt, fn)
    if [a.arg for a in fn.args.args] != ['self', 'constraint_attribute'] or fn.args.vararg or fn.args.kwarg:
        raise TranslateError('_generate_constraints: signature changed')
    E = 'c03 _generate_constraints: '
    body = c1._body_wo_doc(fn)
    # the three accumulators: names initialised to [] at top level
    lists = [s.targets[0].id for s in body
             if isinstance(s, ast.Assign) and len(s.targets) == 1 and isinstance(s.targets[0], ast.Name)
             and isinstance(s.value, ast.List) and not s.value.elts]
    if len(lists) != 3 or len(set(lists)) != 3:
        raise TranslateError(E + 'three list accumulators expected')
    body = [s for s in body if not (isinstance(s, ast.Assign) and isinstance(s.value, ast.List)
                                    and not s.value.elts)]
    body = inline_locals(body, keep=lists)
    if not body or not isinstance(body[0], ast.For) or body[0].orelse:
        raise TranslateError(E + 'column loop expected')
    loop = body[0]
    if not isinstance(loop.target, ast.Name):
        raise TranslateError(E + 'loop target')
    j = loop.target.id
    D, IDS = 'constraint_attribute.data', 'constraint_attribute.ids'
    if _u(loop.iter) not in (f'range({D}.shape[-1])', f'range({D}.shape[1])'):
        raise TranslateError(E + f'loop over {_u(loop.iter)!r}, not over the dof columns')
    M = f'~np.isnan({D}[:, {j}])'
    stmts = list(loop.body)
    # guard: `if <none>: continue` + appends | `if <any>: appends`
    if len(stmts) >= 1 and isinstance(stmts[0], ast.If) and not stmts[0].orelse:
        g = stmts[0]
        if len(g.body) == 1 and isinstance(g.body[0], ast.Continue) and _none_of(g.test) == M:
            stmts = stmts[1:]
        elif _any_of(g.test) == M and len(stmts) == 1:
            stmts = list(g.body)
        else:
            raise TranslateError(E + f'guard {_u(g.test)!r} not understood')
    else:
        raise TranslateError(E + 'no guard on columns without prescription')
    apps = [_append(s) for s in stmts]
    if len(apps) != 3 or any(a is None for a in apps) or sorted(a[0] for a in apps) != sorted(lists):
        raise TranslateError(E + 'the column loop changed (three appends expected)')
    role = {}
    for name, val in apps:
        if _u(val) == f'{IDS}[{M}]':
            role['ids'] = name
        elif _u(val) in (f'{D}[{M}, {j}]', f'{D}[:, {j}][{M}]'):
            role['data'] = name
        else:
            db = _dof_block(val)
            if db is None or db[1] != M or db[0] != f'{j} + 1':
                raise TranslateError(E + f'append of {_u(val)!r} not understood')
            role['dof'] = name
    if sorted(role) != ['data', 'dof', 'ids']:
        raise TranslateError(E + 'ids / dof / values are not gathered once each')
    rest = body[1:]
    ret = f"(np.concatenate({role['ids']}), np.concatenate({role['dof']}), np.concatenate({role['data']}))"
    if not rest or not isinstance(rest[-1], ast.Return) or _u(rest[-1].value) != ret:
        raise TranslateError(E + 'epilogue not understood')
    if len(rest) == 1:
        return False
    if len(rest) == 2 and isinstance(rest[0], ast.If) and not rest[0].orelse and len(rest[0].body) == 1 \
            and isinstance(rest[0].body[0], ast.Return):
        t = rest[0].test
        empty = (_u(t) in tuple(f'len({l}) == 0' for l in lists) + tuple(f'not {l}' for l in lists)
                 + tuple(f'{l} == []' for l in lists))
        if empty and _u(rest[0].body[0].value) == EMPTY_RETURN:
            return True
    raise TranslateError(E + 'epilogue not understood')


# ---------------------------------------------------------------- write_cnt sections
def _const_env(tree):
    """module-level and FistrWriter class-level constant tables (literal_eval)"""
    env = {}
    scopes = [tree.body]
    for n in tree.body:
        if isinstance(n, ast.ClassDef) and n.name == 'FistrWriter':
            scopes.append(n.body)
    for sc in scopes:
        for n in sc:
            if isinstance(n, ast.Assign) and len(n.targets) == 1 and isinstance(n.targets[0], ast.Name):
                try:
                    env[n.targets[0].id] = ast.literal_eval(n.value)
                except (ValueError, SyntaxError):
                    pass
    return env


def _unroll(stmts, consts):
    """`for a, b, ... in <constant table>:` -> its body once per row with the
    targets replaced by the constants; `if k not in X: continue` + rest ->
    `if k in X: rest`"""
    out = []
    for s in stmts:
        if isinstance(s, ast.For) and not s.orelse:
            it = s.iter
            table = None
            if isinstance(it, ast.Name) and it.id in consts:
                table = consts[it.id]
            elif isinstance(it, ast.Attribute) and isinstance(it.value, ast.Name) \
                    and it.value.id in ('self', 'FistrWriter') and it.attr in consts:
                table = consts[it.attr]
            else:
                try:
                    table = ast.literal_eval(it)
                except (ValueError, SyntaxError):
                    table = None
            if isinstance(table, dict):
                table = list(table.items()) if isinstance(s.target, ast.Tuple) else list(table)
            if isinstance(table, (list, tuple)):
                tg = [t.id for t in s.target.elts] if isinstance(s.target, ast.Tuple) and all(
                    isinstance(t, ast.Name) for t in s.target.elts) else \
                    [s.target.id] if isinstance(s.target, ast.Name) else None
                if tg is not None:
                    for row in table:
                        vals = list(row) if isinstance(s.target, ast.Tuple) else [row]
                        if len(vals) != len(tg):
                            raise TranslateError('write_cnt: section table row has the wrong length')
                        env = {k: ast.Constant(v) for k, v in zip(tg, vals)}
                        body = [_subst(b, env) for b in s.body]
                        out += _guard_clause(body)
                    continue
        out.append(s)
    return out


def _guard_clause(body):
    if body and isinstance(body[0], ast.If) and not body[0].orelse and len(body[0].body) == 1 \
            and isinstance(body[0].body[0], ast.Continue):
        t = body[0].test
        if isinstance(t, ast.Compare) and len(t.ops) == 1 and isinstance(t.ops[0], ast.NotIn):
            pos = ast.Compare(left=t.left, ops=[ast.In()], comparators=t.comparators)
            return [ast.fix_missing_locations(ast.If(test=pos, body=body[1:], orelse=[]))]
        if isinstance(t, ast.UnaryOp) and isinstance(t.op, ast.Not):
            return [ast.fix_missing_locations(ast.If(test=t.operand, body=body[1:], orelse=[]))]
    return body


def _fold_str(e):
    """constant-fold a string expression (constants, +, f-strings of constants)"""
    if isinstance(e, ast.Constant) and isinstance(e.value, str):
        return e.value
    if isinstance(e, ast.BinOp) and isinstance(e.op, ast.Add):
        a, b = _fold_str(e.left), _fold_str(e.right)
        return None if a is None or b is None else a + b
    if isinstance(e, ast.JoinedStr):
        parts = []
        for v in e.values:
            if isinstance(v, ast.Constant):
                parts.append(str(v.value))
            elif isinstance(v, ast.FormattedValue) and isinstance(v.value, ast.Constant) \
                    and v.conversion == -1 and v.format_spec is None:
                parts.append(str(v.value.value))
            else:
                return None
        return ''.join(parts)
    return None


def _strip_prints(stmts):
    return [s for s in stmts if not (isinstance(s, ast.Expr) and isinstance(s.value, ast.Call)
                                     and isinstance(s.value.func, ast.Name) and s.value.func.id == 'print')]


CONS = 'self.fem_data.constraints'
KNOWN_KEYS = ('boundary', 'spring', 'cload', 'fixtemp', 'cflux', 'pure_cflux')


def _inline_helpers(stmts, cls, depth=2):
    """`self._helper(a, b, k=c)` as a statement, _helper a method of the class whose body has
    no return value -> its body with the parameters replaced by the arguments"""
    if depth == 0 or cls is None:
        return stmts
    methods = {n.name: n for n in cls.body if isinstance(n, ast.FunctionDef)}
    out = []
    for s in stmts:
        c = s.value if isinstance(s, ast.Expr) and isinstance(s.value, ast.Call) else None
        if c is not None and isinstance(c.func, ast.Attribute) and _u(c.func.value) == 'self' \
                and c.func.attr in methods and c.func.attr not in ('write_data', 'write_string',
                                                                  '_generate_constraints'):
            fn = methods[c.func.attr]
            a = fn.args
            if a.vararg or a.kwarg or any(isinstance(x, ast.Return) and x.value is not None
                                          for x in ast.walk(fn)):
                out.append(s)
                continue
            params = [x.arg for x in a.args][1:]
            env = {}
            defaults = dict(zip(params[len(params) - len(a.defaults):], a.defaults))
            defaults.update({k.arg: d for k, d in zip(a.kwonlyargs, a.kw_defaults) if d is not None})
            for name, val in zip(params, c.args):
                env[name] = val
            for kw in c.keywords:
                if kw.arg is None:
                    raise TranslateError('write_cnt: **kwargs in a helper call')
                env[kw.arg] = kw.value
            for name in params + [k.arg for k in a.kwonlyargs]:
                if name not in env:
                    if name not in defaults:
                        raise TranslateError(f'write_cnt: helper {fn.name}: argument {name} missing')
                    env[name] = defaults[name]
            if set(env) & set(_names_stored(fn.body)):
                raise TranslateError(f'write_cnt: helper {fn.name} assigns to a parameter')
            body = [_subst(b, env) for b in _strip_prints(c1._body_wo_doc(fn))]
            out += _inline_helpers(body, cls, depth - 1)
        else:
            out.append(s)
    return out


def _section_of(key, stmts, cls=None):
    """one `if '<key>' in self.fem_data.constraints:` body -> (header, source, fmt)
    source in {'gen_both', 'gen_first', 'spring', 'values'}; fmt = list of formats or None"""
    E = f'write_cnt section {key!r}: '
    A = f"{CONS}['{key}']"
    stmts = inline_locals(_strip_prints(stmts))
    stmts = inline_locals(_strip_prints(_inline_helpers(stmts, cls)))
    gen = None
    if len(stmts) == 2 and isinstance(stmts[0], ast.Assign) and len(stmts[0].targets) == 1 \
            and isinstance(stmts[0].targets[0], ast.Tuple) \
            and _u(stmts[0].value) == f'self._generate_constraints({A})':
        gen = [_u(t) for t in stmts[0].targets[0].elts]
        if len(gen) != 3 or len(set(gen)) != 3:
            raise TranslateError(E + '_generate_constraints result unpacking')
        stmts = stmts[1:]
    if len(stmts) != 1 or not (isinstance(stmts[0], ast.Expr) and isinstance(stmts[0].value, ast.Call)
                               and _u(stmts[0].value.func) == 'self.write_data'):
        raise TranslateError(E + 'a single self.write_data(...) call expected')
    call = stmts[0].value
    fmt = None
    for kw in call.keywords:
        if kw.arg != 'str_format':
            raise TranslateError(E + f'keyword {kw.arg!r} of write_data')
        try:
            fmt = ast.literal_eval(kw.value)
        except (ValueError, SyntaxError):
            raise TranslateError(E + 'str_format is not a constant')
        if isinstance(fmt, str):
            fmt = [fmt]
        if fmt is not None:
            if not isinstance(fmt, (list, tuple)) or not all(isinstance(x, str) for x in fmt):
                raise TranslateError(E + 'str_format is not a list of format strings')
            fmt = list(fmt)
    if len(call.args) < 3 or _u(call.args[0]) != 'self.write_cnt_file':
        raise TranslateError(E + 'write_data does not write to self.write_cnt_file')
    header = _fold_str(call.args[1])
    if header is None or not header.endswith('\n') or '\n' in header[:-1]:
        raise TranslateError(E + 'header is not a constant line')
    arrs = [_u(a) for a in call.args[2:]]
    if gen is not None:
        i, d, v = gen
        if arrs == [i, d, v]:
            src = 'gen_both'
        elif arrs in ([i, f'{d}[:, [0]]', v], [i, f'{d}[:, :1]', v], [i, f'{d}[:, 0]', v]):
            src = 'gen_first'
        else:
            raise TranslateError(E + f'arrays {arrs} not understood')
    elif arrs == [f'{A}.ids', f'{A}.data']:
        src = 'values'
    else:
        nn = [f'~np.isnan({A}.data)']
        ok = any(arrs == [f'{A}.ids[np.where({m})[0]]', f'np.where({m})[1] + 1', f'{A}.data[{m}]'] for m in nn)
        if not ok:
            raise TranslateError(E + f'arrays {arrs} not understood')
        src = 'spring'
    return header[:-1], src, fmt


def tr_cnt_sections(repo, consumed):
    """the constraint sections write_cnt emits, in order:
    [(key, header line, source, formats or None)]"""
    txt, tree = c1._src(repo, WRITE_FISTR)
    cls = c1._find_class(tree, 'FistrWriter')
    fn = c1._find_func(cls, 'write_cnt')
    consumed['write_fistr.py:write_cnt'] = c1._region(txt, fn)
    body = _unroll(c1._body_wo_doc(fn), _const_env(tree))
    sections = []
    for s in body:
        mentions = CONS in _u(s)
        if isinstance(s, ast.If) and isinstance(s.test, ast.Compare) and len(s.test.ops) == 1 \
                and isinstance(s.test.ops[0], ast.In) and _u(s.test.comparators[0]) == CONS \
                and isinstance(s.test.left, ast.Constant) and isinstance(s.test.left.value, str):
            if s.orelse:
                raise TranslateError('write_cnt: else branch on a constraint section')
            key = s.test.left.value
            sections.append((key,) + _section_of(key, s.body, cls))
        elif mentions:
            raise TranslateError(f'write_cnt: statement at line {getattr(s, "lineno", "?")} uses the '
                                 'constraints outside an `if <key> in constraints` section')
    keys = [k for k, *_ in sections]
    if len(set(keys)) != len(keys):
        raise TranslateError('write_cnt: a constraint kind is written twice')
    return sections


# ---------------------------------------------------------------- first write to the .cnt (local)
def tr_cnt_first_write(repo, consumed):
    """local reading of "the first write to <name>.cnt truncates": used when the effect
    program of translate/c07_effects.py (whole write path, via c01_tables) is not available.
    True = write_cnt's first use of self.write_cnt_file after the overwrite guard is an
    unconditional self.write_string(self.write_cnt_file, ..., mode='w') and write_string
    opens the file with that mode; False = it is opened with another mode."""
    txt, tree = c1._src(repo, WRITE_FISTR)
    cls = c1._find_class(tree, 'FistrWriter')
    E = 'c03 first write to .cnt: '
    ws = c1._find_func(cls, 'write_string')
    if [a.arg for a in ws.args.kwonlyargs] != ['mode'] or \
            [_u(x) for x in c1._body_wo_doc(ws)] != ['with open(file_name, mode) as f:\n    f.write(string)']:
        raise TranslateError(E + 'write_string is not `with open(file_name, mode) as f: f.write(string)`')
    default_mode = ast.literal_eval(ws.args.kw_defaults[0])
    wr = c1._find_func(cls, 'write')
    calls = [x.func.attr for s in c1._body_wo_doc(wr) for x in ast.walk(s)
             if isinstance(x, ast.Call) and isinstance(x.func, ast.Attribute) and _u(x.func.value) == 'self']
    if 'write_cnt' not in calls:
        raise TranslateError(E + 'write() does not call self.write_cnt()')
    for m in calls[:calls.index('write_cnt')]:
        f = c1._find_func(cls, m)
        if 'write_cnt_file' in _u(f):
            raise TranslateError(E + f'{m} (called before write_cnt) uses the .cnt file')
    fn = c1._find_func(cls, 'write_cnt')
    consumed['write_fistr.py:write_cnt(first write)'] = c1._region(txt, fn)
    for s in _strip_prints(c1._body_wo_doc(fn)):
        src = _u(s)
        if isinstance(s, ast.If) and 'self.write_cnt_file.exists()' in _u(s.test) and not s.orelse \
                and all(isinstance(b, ast.Raise) for b in s.body):
            continue            # the overwrite guard
        if 'write_cnt_file' not in src and not any(
                isinstance(x, ast.Call) and isinstance(x.func, ast.Attribute) and _u(x.func.value) == 'self'
                for x in ast.walk(s)):
            continue
        if isinstance(s, ast.Expr) and isinstance(s.value, ast.Call) and _u(s.value.func) == 'self.write_string' \
                and len(s.value.args) == 2 and _u(s.value.args[0]) == 'self.write_cnt_file':
            kws = {k.arg: k.value for k in s.value.keywords}
            if set(kws) - {'mode'}:
                raise TranslateError(E + 'unknown keyword of write_string')
            mode = ast.literal_eval(kws['mode']) if 'mode' in kws else default_mode
            return mode == 'w'
        raise TranslateError(E + f'statement at line {s.lineno} comes before the first write_string')
    raise TranslateError(E + 'no write to the .cnt file found')


# ---------------------------------------------------------------- _read_cnt_cflux: label decision
CFLUX_BODY_ALL_PURE = "cfluxes = header_data.extract_data('!CFLUX')\ntypes = header_data.extract_headers('!CFLUX').extract_captures('TYPE=(\\\\w+)')\nif len(cfluxes) == 0:\n    return\nif len(types) == 0:\n    label = 'cflux'\nelif np.all(types == ['PURE']):\n    label = 'pure_cflux'\nelse:\n    headers = header_data.extract_headers('!CFLUX')\n    raise ValueError(f'Unsupported CFLUX configuration: {headers}')\ncflux_data = self._extend_assignments(cfluxes)\n_ids, _values = cflux_data.split_vertical_all()\nids = _ids.astype(int)\nvalues = _values.astype(float)\nself.constraints.update({label: FEMAttribute(label, ids, values.values[:, None])})\nreturn"
CFLUX_BODY_PER_BLOCK = "cfluxes = header_data.extract_data('!CFLUX')\ntypes = header_data.extract_headers('!CFLUX').extract_captures('TYPE=(\\\\w+)')\nif len(cfluxes) == 0:\n    return\nif len(types) == 0:\n    labelled_cfluxes = {'cflux': cfluxes}\nelif np.all(types == ['PURE']):\n    is_cflux = header_data.headers.str.contains('!CFLUX').values\n    is_typed = header_data.headers.str.contains('TYPE=\\\\w+').values\n    labelled_cfluxes = {label: header_data.data.iloc[np.concatenate(header_data.list_indices[selected])] for label, selected in [('cflux', is_cflux & ~is_typed), ('pure_cflux', is_cflux & is_typed)] if np.any(selected)}\nelse:\n    headers = header_data.extract_headers('!CFLUX')\n    raise ValueError(f'Unsupported CFLUX configuration: {headers}')\nfor label, labelled in labelled_cfluxes.items():\n    if len(labelled) == 0:\n        continue\n    cflux_data = self._extend_assignments(labelled)\n    _ids, _values = cflux_data.split_vertical_all()\n    ids = _ids.astype(int)\n    values = _values.astype(float)\n    self.constraints.update({label: FEMAttribute(label, ids, values.values[:, None])})\nreturn"


def tr_cflux_label(repo, consumed):
    """does _read_cnt_cflux label each !CFLUX block by its own header (True) or all rows by the
    single captured TYPE= (False)?  The two bodies the model (Pure.read_cntx_with) was written
    for are recognised (AST, so layout / comments do not matter); anything else cannot be read."""
    txt, tree = c1._src(repo, 'femio/formats/fistr/fistr.py')
    fn = c1._find_func(c1._find_class(tree, 'FrontISTRData'), '_read_cnt_cflux')
    consumed['fistr.py:_read_cnt_cflux'] = c1._region(txt, fn)
    got = '\n'.join(ast.unparse(x) for x in c1._body_wo_doc(fn))
    if got == CFLUX_BODY_ALL_PURE:
        return False
    if got == CFLUX_BODY_PER_BLOCK:
        return True
    raise TranslateError('_read_cnt_cflux is neither of the two modelled bodies')


# ---------------------------------------------------------------- all regions
def _components(repo, consumed):
    """(name, thunk -> dict of table entries) in the order of c01_tables.translate"""
    def dict_fistr():
        rtable, rtype, rperm = c1.tr_dict_fistr(repo, consumed)
        return {'fistr_elements': rtable, 'prism_read_type': rtype, 'prism_perm_read': rperm}

    def writer():
        wtable, wperm, wcodes, elem_hdr, elem_fmt, real_fmt = c1.tr_writer(repo, consumed)
        if elem_fmt != '%d':
            raise TranslateError(f'element rows are written with {elem_fmt!r}, not %d')
        return {'detect_table': wtable, 'prism_perm_write': wperm, 'prism_write_codes': wcodes,
                'element_header': elem_hdr, 'frac_digits': c1._fmt_digits(real_fmt, 'write_data')}

    def element_types():
        return {'element_types': c1.tr_element_types(repo, consumed)}

    def ignore():
        pats, src = c1.tr_ignore(repo, consumed)
        return {'ignore_pats': pats, 'ignore_src': src}

    def read_array():
        return {'default_frac_digits': c1._fmt_digits(c1.tr_read_array(repo, consumed), 'read_array')}

    def remove_useless():
        return {'rebind_by_id': c1.tr_remove_useless(repo, consumed)}

    def generate_constraints():
        return {'gen_empty_ok': tr_generate_constraints(repo, consumed)}

    def split_blocks():
        g, i, n = c1.tr_split_blocks(repo, consumed)
        return {'merge_egroups': g, 'merge_initial': i, 'merge_ngroups': n}

    def first_write():
        m, c = c1.tr_first_write(repo, consumed)
        return {'msh_truncated': m, 'cnt_truncated': c}


    def pinned():
        c1.tr_pinned(repo, consumed)
        return {}

    def cnt_sections():
        secs = [list(s) for s in tr_cnt_sections(repo, consumed)]
        real_fmt = c1.tr_writer(repo, {})[5]
        tt = {'cnt_sections': secs, 'frac_digits': c1._fmt_digits(real_fmt, 'write_data')}
        return {'cnt_sections': secs, 'cnt_sections_canon': [list(x) for x in canon_sections(tt)]}

    def cflux_label():
        return {'cflux_per_block': tr_cflux_label(repo, consumed)}

    return [('cflux_label', cflux_label), ('dict_fistr', dict_fistr), ('writer', writer), ('element_types', element_types),
            ('ignore', ignore), ('read_array', read_array), ('remove_useless', remove_useless),
            ('generate_constraints', generate_constraints), ('split_blocks', split_blocks),
            ('first_write', first_write), ('pinned', pinned), ('cnt_sections', cnt_sections)]


def load_baseline():
    return json.loads(BASELINE.read_text())


def translate(repo, baseline=None):
    """-> (tables, consumed, degraded) ; degraded = {region: reason} for the regions
    taken from the baseline because the translator could not read them"""
    consumed, degraded, t = {}, {}, {}
    for name, thunk in _components(repo, consumed):
        try:
            t.update(thunk())
        except (SyntaxError, OSError):
            raise
        except Exception as e:      # TranslateError, or a recogniser tripping over an unforeseen shape
            if not isinstance(e, TranslateError):
                e = TranslateError(f'{type(e).__name__}: {e}')
            if baseline is None:
                baseline = load_baseline()
            keys = baseline['regions'][name]
            t.update({k: baseline['tables'][k] for k in keys})
            if name == 'first_write':
                try:
                    t['cnt_truncated'] = tr_cnt_first_write(repo, consumed)
                    degraded['first_write(msh)'] = str(e) + ' (.cnt flag read locally from write_cnt)'
                    continue
                except (TranslateError, ValueError, IndexError) as e2:
                    e = TranslateError(f'{e}; {e2}')
            degraded[name] = str(e)
    return t, consumed, degraded


def make_baseline(repo):
    consumed, tables, regions = {}, {}, {}
    for name, thunk in _components(repo, consumed):
        d = thunk()
        tables.update(d)
        regions[name] = sorted(d)
    return {'tables': tables, 'regions': regions}


# ---------------------------------------------------------------- emit
SRC_CTOR = {'gen_both': 'SrcGenBoth', 'gen_first': 'SrcGenFirst', 'spring': 'SrcSpring', 'values': 'SrcValues'}


def canon_fmt(f):
    """'%d' -> 'd'; '%.5E' -> 'E5'; '%5E' -> 'E6' (a width, no precision: C default 6)"""
    import re
    if f == '%d':
        return 'd'
    m = re.fullmatch(r'%(\d*)(?:\.(\d+))?E', f)
    if not m:
        raise TranslateError(f'format {f!r} not understood')
    return 'E' + (m.group(2) if m.group(2) is not None else '6')


def canon_sections(t):
    """[(key, header, source, canonical formats of the columns after the id)]; the default
    of write_data (str_format=None) is its translated default real format"""
    out = []
    for k, h, s, f in t['cnt_sections']:
        out.append((k, h, s, ['E%d' % t['frac_digits']] if f is None else [canon_fmt(x) for x in f]))
    return out


def emit_sections(t):
    """coq/C03/gen/CntSections.v"""
    rows = [f'  ({c1.coq_str(k)}, {c1.coq_str(h)}, {SRC_CTOR[s]}, [' + '; '.join(c1.coq_str(x) for x in f) + '])'
            for k, h, s, f in t['cnt_sections_canon']]
    return '\n'.join([
        '(* GENERATED by translate/c03_cnt.py from the tree under test; do not edit. *)',
        'From Coq Require Import String List.',
        'Import ListNotations.',
        'Local Open Scope string_scope.',
        '',
        '(* which arrays a section of write_cnt hands to write_data:',
        '   SrcGenBoth  = ids, (dof, dof), values of _generate_constraints (column-major)',
        '   SrcGenFirst = ids, dof, values of _generate_constraints',
        '   SrcSpring   = ids / dof / values of the non-NaN cells, row-major (np.where)',
        '   SrcValues   = attribute.ids, attribute.data *)',
        'Inductive section_source : Type := SrcGenBoth | SrcGenFirst | SrcSpring | SrcValues.',
        '',
        '(* write_fistr.py write_cnt: the sections written from fem_data.constraints, in file order:',
        '   key in constraints, header line, source, formats of the columns after the node id',
        '   ("d" = %d, "E<k>" = %.<k>E; %5E = E6; str_format=None = the default of write_data) *)',
        'Definition cnt_sections : list (string * string * section_source * list string) := [',
        ';\n'.join(rows),
        '].',
        '',
        '(* fistr.py _read_cnt_cflux: with one TYPE=PURE block, blocks without TYPE= are labelled',
        '   cflux (true: each block by its own header) or everything is pure_cflux (false) *)',
        f'Definition cflux_per_block : bool := {"true" if t["cflux_per_block"] else "false"}.',
        ''])


def emit_tables(t):
    return c1.emit(t)


if __name__ == '__main__':
    if len(sys.argv) > 1 and sys.argv[1] == '--write-baseline':
        b = make_baseline(sys.argv[2] if len(sys.argv) > 2 else '/repo')
        BASELINE.write_text(json.dumps(b, indent=1) + '\n')
        print('baseline written:', BASELINE)
    else:
        t, c, d = translate(sys.argv[1] if len(sys.argv) > 1 else '/repo')
        print(emit_sections(t))
        print('degraded:', json.dumps(d, indent=1))
