"""Self-test of translate/c06_tables.py: same-meaning spellings of the export code must translate
to the same values with no region unread; mutants must either change a translated value or leave
a region unread (=> baseline + widened correspondence).  Works on copies of the five source files
under build/C06/selftest (never touches the tree).  `python translate/c06_selftest.py [repo]`."""
import json
import shutil
import sys
from pathlib import Path

sys.path.insert(0, str(Path(__file__).resolve().parent))
import c06_tables as T  # noqa

FILES = ('config.py', 'fem_elemental_attribute.py', 'fem_attributes.py', 'fem_data.py', 'fem_attribute.py')
E, A, D = 'fem_elemental_attribute.py', 'fem_attributes.py', 'fem_data.py'

SAME = [
    ('tet2 export as one fancy index list', E,
     "            data[:, [6]], data[:, [4]], data[:, [5]],\n", "            data[:, [6, 4, 5]],\n"),
    ('tet2 export through hstack of a tuple', E,
     "    def _to_meshio_tet2(self, data):\n        return np.concatenate([\n            data[:, :4],\n"
     "            data[:, [6]], data[:, [4]], data[:, [5]],\n            data[:, 7:]], axis=1)",
     "    def _to_meshio_tet2(self, data):\n        head = data[:, :4]\n        mid = data[:, (6, 4, 5)]\n"
     "        return np.hstack((head, mid, data[:, 7:]))"),
    ('_to_meshio as guard clause', E,
     "        if cell_type == 'tet2':\n            return self._to_meshio_tet2(element.data)\n"
     "        else:\n            return element.data",
     "        if cell_type != 'tet2':\n            return element.data\n"
     "        return self._to_meshio_tet2(element.data)"),
    ('_to_meshio as conditional expression over a tuple', E,
     "        if cell_type == 'tet2':\n            return self._to_meshio_tet2(element.data)\n"
     "        else:\n            return element.data",
     "        data = element.data\n        return self._to_meshio_tet2(data) if cell_type in ('tet2',) else data"),
    ('_from_meshio with early assignment', E,
     "        if cell_type == 'tetra10':\n            cell = cls._from_meshio_tet2(data)\n"
     "        else:\n            cell = data\n",
     "        cell = data\n        if cell_type == 'tetra10':\n            cell = cls._from_meshio_tet2(data)\n"),
    ('ELEMENT_TYPES-like constant for the rank bound and <= spelling', A,
     "                if len(attribute_data.data.shape) < 3}", "                if attribute_data.data.ndim <= 2}"),
    ('nodal export with is-not-None and swapped arms', A,
     "                attribute_data.data if ids is None\n                else attribute_data.values_of(ids)\n",
     "                attribute_data.values_of(ids) if ids is not None\n                else attribute_data.data\n"),
    ('FEMData.to_meshio: keywords, direct return, renamed locals', D,
     "        meshio_mesh = meshio.Mesh(\n            self.nodes.data, cell_info,\n"
     "            point_data=point_data, cell_data=cell_data)\n        return meshio_mesh",
     "        return meshio.Mesh(\n            points=self.nodes.data, cells=cell_info,\n"
     "            cell_data=cell_data, point_data=point_data)"),
    ('node ids handed over by keyword', D,
     "self.nodal_data.to_meshio(self.nodes.ids)", "self.nodal_data.to_meshio(ids=self.nodes.ids)"),
    ('type table through dict(...)', 'config.py',
     "DICT_FEMIO_ELEMENT_TO_MESHIO_ELEMENT = {", "DICT_FEMIO_ELEMENT_TO_MESHIO_ELEMENT = dict({", ),
]
MUTANT = [
    ('tet2 export columns rotated the other way', E,
     "            data[:, [6]], data[:, [4]], data[:, [5]],\n", "            data[:, [5]], data[:, [6]], data[:, [4]],\n"),
    ('tet2 branch never taken', E, "        if cell_type == 'tet2':\n            return self._to_meshio_tet2",
     "        if cell_type == 'tet':\n            return self._to_meshio_tet2"),
    ('prism exported as pyramid', 'config.py', "'prism': 'wedge'", "'prism': 'pyramid'"),
    ('rank bound 2', A, "                if len(attribute_data.data.shape) < 3}",
     "                if len(attribute_data.data.shape) < 2}"),
    ('node ids not handed over', D, "self.nodal_data.to_meshio(self.nodes.ids)", "self.nodal_data.to_meshio()"),
    ('point data read through .loc', A, "else attribute_data.values_of(ids)", "else attribute_data.loc[ids].data"),
    ('point data keyed by the attribute name', A, "                attribute_name:\n                attribute_data.data if",
     "                attribute_data.name:\n                attribute_data.data if"),
    ('points from a copy', D, "            self.nodes.data, cell_info,", "            self.nodes.data.astype('f'), cell_info,"),
    ('block order from the dict', E, "        return [(t, self[t]) for t in self.ELEMENT_TYPES if t in self]",
     "        return list(dict.items(self))"),
    ('positions by shift', E, "nodes.ids2indices(element_data.data)", "element_data.data - 1"),
]


def flat(values):
    out = {}
    for r in T.REGIONS:
        out.update(values.get(r, {}))
    return json.loads(json.dumps(out))


def run(repo, work):
    repo, work = Path(repo), Path(work)
    base_values, _, base_unread = T.read_regions(repo)
    res = {'same_ok': 0, 'mutant_ok': 0, 'skipped': [], 'failed': []}
    if base_unread:
        res['skipped'].append('tree itself has unread regions: ' + ', '.join(base_unread))
        return res
    ref = flat(base_values)
    for kind, variants in (('same', SAME), ('mutant', MUTANT)):
        for v in variants:
            name, fname, old, new = v[0], v[1], v[2], v[3]
            src = (repo / 'femio' / fname).read_text()
            if src.count(old) != 1:
                res['skipped'].append(name)
                continue
            d = work / 'femio'
            if work.exists():
                shutil.rmtree(work)
            d.mkdir(parents=True)
            for f in FILES:
                (d / f).write_text((repo / 'femio' / f).read_text() if f != fname else src.replace(old, new))
            if fname == 'config.py' and 'dict({' in new:      # close the call
                txt = (d / fname).read_text()
                i = txt.index(new)
                j = txt.index('}', i)
                (d / fname).write_text(txt[:j + 1] + ')' + txt[j + 1:])
            values, _, unread = T.read_regions(work)
            same = not unread and flat(values) == ref
            if (kind == 'same') == same:
                res[kind + '_ok'] += 1
            else:
                res['failed'].append({'variant': name, 'kind': kind, 'unread': unread})
    if work.exists():
        shutil.rmtree(work)
    return res


if __name__ == '__main__':
    r = run(sys.argv[1] if len(sys.argv) > 1 else '/repo',
            Path(__file__).resolve().parent.parent / 'build' / 'C06' / 'selftest')
    print(json.dumps(r, indent=1))
    sys.exit(1 if r['failed'] else 0)
