"""Fail-closed translator for C05, part A (key scheme of the npz files).

For to_dict / from_dict / _split_dict_data / _validate_keys of FEMAttribute,
FEMElementalAttribute and FEMAttributes the source text (docstrings removed,
the tests that recognise / group keys replaced by placeholders) must equal the
templates below; the tests themselves are translated into the small language
of coq/C05/KeyModel.v:

   'c' in k                         -> TSub c
   k.split('/')[-1] == 'c'          -> TLastEq c
   k.endswith('c')                  -> TEnds c
   cand in k                        -> MSub
   cand == k.split('/')[0]          -> MEqFirst
   cand == _extract_element_type(k) -> MEqType     (either operand order)

ELEMENT_TYPES is evaluated (list / tuple literal).  Anything else raises TranslateError.

The comparison is modulo a normalisation that is applied to the source AND to the templates
(meaning, not spelling):
  * `x = A if C else B`            == `if C: x = A` / `else: x = B`
  * `if d.get(K, False):`          == `if K in d and d[K]:`
  * `for k, v in ...: f = E(k); ... f ...`   == the loop with E(k) written out (pure alias of the
    loop variable, assigned once)
The two _split_dict_data are not compared with a text at all: a recogniser accepts both the
"filter per label" form ({u: {k: v for k, v in d.items() if TEST(u, k)} for u in np.unique([g(k) ...])})
and the "group by g(k)" form (setdefault loop + labels np.unique of the g(k)), which groups by
equality on g(k) (MEqFirst for g = first part, MEqType for g = _extract_element_type).
_extract_element_type (nested def or method) must be inside a small grammar (len(parts) tests,
parts[const], raise ValueError) and is then EVALUATED on 1..8-part keys: the table
{2 parts -> part 0, 3 parts -> part 1, otherwise ValueError} is what KeyModel.extract_element_type
models.
"""
import ast
import copy
import hashlib
from pathlib import Path


class TranslateError(Exception):
    pass


def coq_str(s):
    if not all(32 <= ord(c) < 127 for c in s):
        raise TranslateError(f'non-ascii string {s!r}')
    return '"' + s.replace('"', '""') + '"'


def find_class(tree, name):
    for n in tree.body:
        if isinstance(n, ast.ClassDef) and n.name == name:
            return n
    raise TranslateError(f'class {name} not found')


def find_method(cls, name):
    for n in cls.body:
        if isinstance(n, ast.FunctionDef) and n.name == name:
            return n
    raise TranslateError(f'method {cls.name}.{name} not found')


def strip_docs(fn):
    fn = copy.deepcopy(fn)
    for n in ast.walk(fn):
        if isinstance(n, ast.FunctionDef) and n.body and isinstance(n.body[0], ast.Expr) and \
                isinstance(n.body[0].value, ast.Constant) and isinstance(n.body[0].value.value, str):
            n.body = n.body[1:] or [ast.Pass()]
    return fn


def is_name(n, s):
    return isinstance(n, ast.Name) and n.id == s


def const_str(n):
    return n.value if isinstance(n, ast.Constant) and isinstance(n.value, str) else None


def ktest(t, var):
    """test on the key variable `var` against a constant"""
    if isinstance(t, ast.Compare) and len(t.ops) == 1:
        a, b = t.left, t.comparators[0]
        if isinstance(t.ops[0], ast.In) and const_str(a) is not None and is_name(b, var):
            return ('TSub', const_str(a))
        if isinstance(t.ops[0], ast.Eq):
            for x, y in ((a, b), (b, a)):
                c = const_str(y)
                if c is not None and ast.unparse(x) == f"{var}.split('/')[-1]":
                    return ('TLastEq', c)
    if isinstance(t, ast.Call) and ast.unparse(t.func) == f'{var}.endswith' and len(t.args) == 1 \
            and const_str(t.args[0]) is not None and not t.keywords:
        return ('TEnds', const_str(t.args[0]))
    raise TranslateError(f'unsupported key test: {ast.unparse(t)}')


def kmatch(t, cand, var):
    if isinstance(t, ast.Compare) and len(t.ops) == 1:
        a, b = t.left, t.comparators[0]
        if isinstance(t.ops[0], ast.In) and is_name(a, cand) and is_name(b, var):
            return 'MSub'
        if isinstance(t.ops[0], ast.Eq):
            for x, y in ((a, b), (b, a)):
                if is_name(x, cand):
                    u = ast.unparse(y)
                    if u == f"{var}.split('/')[0]":
                        return 'MEqFirst'
                    if u in (f'_extract_element_type({var})', f'cls._extract_element_type({var})',
                             f'FEMElementalAttribute._extract_element_type({var})'):
                        return 'MEqType'
    raise TranslateError(f'unsupported grouping test: {ast.unparse(t)}')



# ------------------------------------------------------------------ normalisation
class _Subst(ast.NodeTransformer):
    def __init__(self, name, expr):
        self.name, self.expr = name, expr

    def visit_Name(self, n):
        if n.id == self.name and isinstance(n.ctx, ast.Load):
            return copy.deepcopy(self.expr)
        return n


def _pure_of(expr, names):
    """expr is built from the given names, constants, subscripts, comparisons and .split(const)"""
    for n in ast.walk(expr):
        if isinstance(n, ast.Name):
            if n.id not in names:
                return False
        elif isinstance(n, ast.Call):
            if not (isinstance(n.func, ast.Attribute) and n.func.attr == 'split' and
                    all(isinstance(a, ast.Constant) for a in n.args) and not n.keywords):
                return False
        elif not isinstance(n, (ast.Constant, ast.Subscript, ast.Attribute, ast.Load, ast.UnaryOp,
                                ast.USub, ast.Slice, ast.Index if hasattr(ast, 'Index') else ast.Load)):
            return False
    return True


def _targets(node):
    out = set()
    for n in ast.walk(node):
        if isinstance(n, ast.Name) and isinstance(n.ctx, ast.Store):
            out.add(n.id)
    return out


def _norm_block(body):
    out = []
    for st in body:
        for f in ('body', 'orelse', 'finalbody'):
            if hasattr(st, f) and isinstance(getattr(st, f), list) and not isinstance(st, ast.FunctionDef):
                setattr(st, f, _norm_block(getattr(st, f)))
        if isinstance(st, ast.FunctionDef):
            st.body = _norm_block(st.body)
        # x = A if C else B
        if isinstance(st, ast.Assign) and isinstance(st.value, ast.IfExp) and len(st.targets) == 1:
            v = st.value
            st = ast.If(test=v.test, body=[ast.Assign(targets=copy.deepcopy(st.targets), value=v.body, lineno=0)],
                        orelse=[ast.Assign(targets=copy.deepcopy(st.targets), value=v.orelse, lineno=0)])
        # if d.get(K, False):
        if isinstance(st, ast.If) and isinstance(st.test, ast.Call) and isinstance(st.test.func, ast.Attribute) \
                and st.test.func.attr == 'get' and isinstance(st.test.func.value, ast.Name) \
                and not st.test.keywords and len(st.test.args) in (1, 2) \
                and isinstance(st.test.args[0], ast.Constant) \
                and (len(st.test.args) == 1 or (isinstance(st.test.args[1], ast.Constant)
                                                and st.test.args[1].value in (False, None))):
            d, k = st.test.func.value, st.test.args[0]
            st.test = ast.BoolOp(op=ast.And(), values=[
                ast.Compare(left=copy.deepcopy(k), ops=[ast.In()], comparators=[copy.deepcopy(d)]),
                ast.Subscript(value=copy.deepcopy(d), slice=copy.deepcopy(k), ctx=ast.Load())])
        # aliases of the loop variables at the head of a loop body
        if isinstance(st, ast.For):
            loopvars = _targets(st.target)
            while st.body and isinstance(st.body[0], ast.Assign) and len(st.body[0].targets) == 1 \
                    and isinstance(st.body[0].targets[0], ast.Name) \
                    and _pure_of(st.body[0].value, loopvars):
                a = st.body[0]
                nm = a.targets[0].id
                rest = st.body[1:]
                if nm in loopvars or any(nm in _targets(x) for x in rest) or not rest:
                    break
                st.body = [_Subst(nm, a.value).visit(x) for x in rest]
        out.append(st)
    return out


def normalise(fn):
    fn = copy.deepcopy(fn)
    fn.body = _norm_block(fn.body)
    return ast.fix_missing_locations(fn)


def norm_text(text):
    return ast.unparse(normalise(ast.parse(text).body[0]))


# ------------------------------------------------------------------ _extract_element_type
def extract_table(fn):
    """len(parts) -> index returned | 'ValueError', by evaluation of a function inside a small
    grammar (so that sampling the lengths up to the largest constant + 2 is complete)"""
    fn = strip_docs(fn)
    params = [a.arg for a in fn.args.args]
    decos = [ast.unparse(d) for d in fn.decorator_list]
    if decos == ['staticmethod'] or decos == []:
        pass
    else:
        raise TranslateError('_extract_element_type: unsupported decorator')
    if len(params) != 1 or fn.args.vararg or fn.args.kwarg or fn.args.kwonlyargs or fn.args.defaults:
        raise TranslateError('_extract_element_type: unexpected signature')
    consts = [0]
    parts_names = set()
    for n in ast.walk(ast.Module(body=fn.body, type_ignores=[])):
        ok = isinstance(n, (ast.Module, ast.Assign, ast.If, ast.Return, ast.Raise, ast.Compare, ast.Name,
                            ast.Constant, ast.Subscript, ast.Call, ast.Attribute, ast.Load, ast.Store,
                            ast.Eq, ast.NotEq, ast.In, ast.NotIn, ast.Lt, ast.LtE, ast.Gt, ast.GtE,
                            ast.Tuple, ast.List, ast.UnaryOp, ast.USub, ast.BoolOp, ast.And, ast.Or, ast.Not,
                            ast.JoinedStr, ast.FormattedValue, ast.BinOp, ast.Sub, ast.Add))
        if not ok:
            raise TranslateError(f'_extract_element_type: unsupported construct {type(n).__name__}')
        if isinstance(n, ast.Call):
            f = n.func
            if isinstance(f, ast.Attribute) and f.attr == 'split' and is_name(f.value, params[0]) \
                    and len(n.args) == 1 and const_str(n.args[0]) == '/' and not n.keywords:
                continue
            if is_name(f, 'len') and len(n.args) == 1 and isinstance(n.args[0], ast.Name):
                continue
            if is_name(f, 'ValueError'):
                continue
            raise TranslateError(f'_extract_element_type: unsupported call {ast.unparse(n)}')
        if isinstance(n, ast.Constant) and isinstance(n.value, int) and not isinstance(n.value, bool):
            consts.append(abs(n.value))
        if isinstance(n, ast.Name) and n.id not in (params[0], 'len', 'ValueError') \
                and isinstance(n.ctx, ast.Store):
            parts_names.add(n.id)
    top = max(consts) + 2
    plain = copy.deepcopy(fn)
    plain.decorator_list = []
    mod = ast.fix_missing_locations(ast.Module(body=[plain], type_ignores=[]))
    ns = {'__builtins__': {'len': len, 'ValueError': ValueError}}
    exec(compile(mod, '<_extract_element_type>', 'exec'), ns)
    f = ns[fn.name]
    table = {}
    for n in range(1, max(top, 8) + 1):
        parts = [f'p{i}' for i in range(n)]
        try:
            r = f('/'.join(parts))
            table[n] = parts.index(r) if r in parts else 'other'
        except ValueError:
            table[n] = 'ValueError'
        except Exception as e:      # IndexError etc.
            table[n] = type(e).__name__
    return table


EXPECTED_EXTRACT = {n: (0 if n == 2 else 1 if n == 3 else 'ValueError') for n in range(1, 9)}


# ------------------------------------------------------------------ _split_dict_data
def _is_items(n, d='dict_data'):
    return isinstance(n, ast.Call) and isinstance(n.func, ast.Attribute) and n.func.attr == 'items' \
        and is_name(n.func.value, d) and not n.args


def _is_keys(n, d='dict_data'):
    return is_name(n, d) or (isinstance(n, ast.Call) and isinstance(n.func, ast.Attribute)
                             and n.func.attr == 'keys' and is_name(n.func.value, d) and not n.args)


def keyfun(e, var):
    """g(k) -> 'first' | 'type' | None"""
    u = ast.unparse(e)
    if u == f"{var}.split('/')[0]":
        return 'first'
    if u in (f'_extract_element_type({var})', f'cls._extract_element_type({var})',
             f'FEMElementalAttribute._extract_element_type({var})'):
        return 'type'
    return None


def _unique_of(n):
    """np.unique(X) -> X"""
    if isinstance(n, ast.Call) and ast.unparse(n.func) == 'np.unique' and len(n.args) == 1 and not n.keywords:
        return n.args[0]
    return None


def _listcomp_keyfun(n):
    """[g(k) for k in dict_data.keys()] -> g kind"""
    if isinstance(n, ast.ListComp) and len(n.generators) == 1 and not n.generators[0].ifs \
            and isinstance(n.generators[0].target, ast.Name) and _is_keys(n.generators[0].iter):
        return keyfun(n.elt, n.generators[0].target.id)
    return None


def split_shape(fn, what):
    """-> (grouping test, key function kind of the labels)"""
    body = [st for st in strip_docs(fn).body if not isinstance(st, ast.FunctionDef)]
    if [a.arg for a in fn.args.args] != ['cls', 'dict_data']:
        raise TranslateError(f'{what}: unexpected signature')
    bad = TranslateError(f'{what}: grouping not recognised:\n{ast.unparse(fn)}')
    lists = {}      # local -> key function kind of [g(k) for k in dict_data.keys()] / np.unique of it
    uniq = {}
    i = 0
    while i < len(body) and isinstance(body[i], ast.Assign) and len(body[i].targets) == 1 \
            and isinstance(body[i].targets[0], ast.Name):
        nm, v = body[i].targets[0].id, body[i].value
        g = _listcomp_keyfun(v)
        if g is not None:
            lists[nm] = g
        elif _unique_of(v) is not None and (_listcomp_keyfun(_unique_of(v)) or
                                            (isinstance(_unique_of(v), ast.Name) and _unique_of(v).id in lists)):
            x = _unique_of(v)
            uniq[nm] = _listcomp_keyfun(x) or lists[x.id]
        else:
            break
        i += 1
    rest = body[i:]

    def labels_kind(it, grouped=None):
        """key function kind of the labels iterated by the outer comprehension"""
        if isinstance(it, ast.Name) and it.id in uniq:
            return uniq[it.id]
        x = _unique_of(it)
        if x is None:
            return None
        if isinstance(x, ast.Name) and x.id in lists:
            return lists[x.id]
        if _listcomp_keyfun(x):
            return _listcomp_keyfun(x)
        if grouped and ast.unparse(x) in (f'list({grouped})', f'list({grouped}.keys())'):
            return 'grouped'
        return None

    # form (i): one return of a dict comprehension with a filter per label
    if len(rest) == 1 and isinstance(rest[0], ast.Return) and isinstance(rest[0].value, ast.DictComp):
        outer = rest[0].value
        if len(outer.generators) == 1 and not outer.generators[0].ifs and isinstance(outer.key, ast.Name) \
                and isinstance(outer.generators[0].target, ast.Name) \
                and outer.key.id == outer.generators[0].target.id and isinstance(outer.value, ast.DictComp):
            u = outer.key.id
            inner = outer.value
            g = inner.generators[0] if len(inner.generators) == 1 else None
            lk = labels_kind(outer.generators[0].iter)
            if g is not None and lk in ('first', 'type') and _is_items(g.iter) and len(g.ifs) == 1 \
                    and isinstance(g.target, ast.Tuple) and len(g.target.elts) == 2 \
                    and all(isinstance(e, ast.Name) for e in g.target.elts) \
                    and ast.unparse(inner.key) == g.target.elts[0].id \
                    and ast.unparse(inner.value) == g.target.elts[1].id:
                return kmatch(g.ifs[0], u, g.target.elts[0].id), lk
        raise bad
    # form (ii): G = {}; for k, v in dict_data.items(): G.setdefault(g(k), {})[k] = v;
    #            return {u: G.get(u, {}) | G[u] for u in np.unique(labels)}
    if len(rest) == 3 and isinstance(rest[0], ast.Assign) and len(rest[0].targets) == 1 \
            and isinstance(rest[0].targets[0], ast.Name) and isinstance(rest[0].value, ast.Dict) \
            and not rest[0].value.keys and isinstance(rest[1], ast.For) and isinstance(rest[2], ast.Return):
        G = rest[0].targets[0].id
        loop, ret = rest[1], rest[2].value
        if loop.orelse or len(loop.body) != 1:
            raise bad
        gk = None
        tgt, it = loop.target, loop.iter
        if isinstance(tgt, ast.Tuple) and len(tgt.elts) == 2 and all(isinstance(e, ast.Name) for e in tgt.elts) \
                and _is_items(it):
            kv, vv = tgt.elts[0].id, tgt.elts[1].id
            label = None
        elif isinstance(tgt, ast.Tuple) and len(tgt.elts) == 2 and isinstance(tgt.elts[0], ast.Name) \
                and isinstance(tgt.elts[1], ast.Tuple) and len(tgt.elts[1].elts) == 2 \
                and all(isinstance(e, ast.Name) for e in tgt.elts[1].elts) \
                and isinstance(it, ast.Call) and is_name(it.func, 'zip') and len(it.args) == 2 \
                and isinstance(it.args[0], ast.Name) and it.args[0].id in lists and _is_items(it.args[1]):
            # the labels were computed in the iteration order of the same dictionary
            label, gk = tgt.elts[0].id, lists[it.args[0].id]
            kv, vv = tgt.elts[1].elts[0].id, tgt.elts[1].elts[1].id
        else:
            raise bad
        a = loop.body[0]
        if not (isinstance(a, ast.Assign) and len(a.targets) == 1 and isinstance(a.targets[0], ast.Subscript)
                and is_name(a.targets[0].slice, kv) and is_name(a.value, vv)):
            raise bad
        sd = a.targets[0].value
        if not (isinstance(sd, ast.Call) and isinstance(sd.func, ast.Attribute) and sd.func.attr == 'setdefault'
                and is_name(sd.func.value, G) and len(sd.args) == 2 and isinstance(sd.args[1], ast.Dict)
                and not sd.args[1].keys and not sd.keywords):
            raise bad
        if label is not None:
            if not is_name(sd.args[0], label):
                raise bad
        else:
            gk = keyfun(sd.args[0], kv)
        if gk not in ('first', 'type'):
            raise bad
        if not (isinstance(ret, ast.DictComp) and len(ret.generators) == 1 and not ret.generators[0].ifs
                and isinstance(ret.key, ast.Name) and isinstance(ret.generators[0].target, ast.Name)
                and ret.key.id == ret.generators[0].target.id):
            raise bad
        u = ret.key.id
        if ast.unparse(ret.value) not in (f'{G}.get({u}, {{}})', f'{G}[{u}]'):
            raise bad
        lk = labels_kind(ret.generators[0].iter, grouped=G)
        if lk == 'grouped':
            lk = gk
        if lk != gk:
            raise bad
        # grouping by equality on g(k)
        return ('MEqFirst' if gk == 'first' else 'MEqType'), lk
    raise bad


TEMPLATES = {
    'FEMAttribute.to_dict': '''def to_dict(self, prefix=None):
    if prefix is None:
        prefix = ''
    else:
        prefix = f'{prefix}/'
    return {f'{prefix}ids': self.ids, f'{prefix}data': self.data}''',
    # variant that also stores the time_series flag
    'FEMAttribute.to_dict#ts': '''def to_dict(self, prefix=None):
    if prefix is None:
        prefix = ''
    else:
        prefix = f'{prefix}/'
    dict_data = {f'{prefix}ids': self.ids, f'{prefix}data': self.data}
    if self.time_series:
        dict_data[f'{prefix}time_series'] = np.array(True)
    return dict_data''',
    'FEMAttribute.from_dict#ts': '''@classmethod
def from_dict(cls, name, dict_data, **kwargs):
    if len(dict_data) not in (2, 3):
        raise ValueError(f'Unexpected data to load: {dict_data}')
    for k, v in dict_data.items():
        if TEST_IDS:
            ids_values = v
        elif TEST_DATA:
            data_values = v
        elif TEST_TS:
            kwargs['time_series'] = bool(v)
        else:
            raise ValueError(f'Unexpected key: {k}')
    return cls(name, ids=ids_values, data=data_values, **kwargs)''',
    'FEMElementalAttribute.from_dict#ts': '''@classmethod
def from_dict(cls, name, dict_data, **kwargs):
    split_dict_data = cls._split_dict_data(dict_data)
    attributes = {element_type: FEMAttribute.from_dict(name, v, **kwargs) for element_type, v in split_dict_data.items()}
    if any((a.time_series for a in attributes.values())):
        kwargs['time_series'] = True
    return cls(name, attributes, **kwargs)''',
    'FEMAttribute.from_dict': '''@classmethod
def from_dict(cls, name, dict_data, **kwargs):
    if len(dict_data) != 2:
        raise ValueError(f'Unexpected data to load: {dict_data}')
    for k, v in dict_data.items():
        if TEST_IDS:
            ids_values = v
        elif TEST_DATA:
            data_values = v
        else:
            raise ValueError(f'Unexpected key: {k}')
    return cls(name, ids=ids_values, data=data_values, **kwargs)''',
    'FEMAttribute.load': '''@classmethod
def load(cls, name, file_, **kwargs):
    dict_data = np.load(file_, allow_pickle=True)
    return cls.from_dict(name, dict_data, **kwargs)''',
    'FEMElementalAttribute.to_dict': '''def to_dict(self, prefix=None):
    if prefix is None:
        prefix = ''
    else:
        prefix = f'{prefix}/'
    dict_data = {}
    for key, value in self.items():
        dict_data.update(value.to_dict(prefix=f'{prefix}{key}'))
    return dict_data''',
    'FEMElementalAttribute.from_dict': '''@classmethod
def from_dict(cls, name, dict_data, **kwargs):
    split_dict_data = cls._split_dict_data(dict_data)
    return cls(name, {element_type: FEMAttribute.from_dict(name, v, **kwargs) for element_type, v in split_dict_data.items()}, **kwargs)''',
    'FEMElementalAttribute.load': '''@classmethod
def load(cls, name, file_, **kwargs):
    dict_data = np.load(file_, allow_pickle=True)
    return cls.from_dict(name, dict_data, **kwargs)''',
    'FEMElementalAttribute._validate_keys': '''def _validate_keys(self, dict_data):
    for k in dict_data.keys():
        if k not in self.ELEMENT_TYPES:
            if len(dict_data) > 1:
                raise ValueError(f'Unsupported element type: {k}')
            else:
                return {'unknown': list(dict_data.values())[0]}
    return dict_data''',
    'FEMElementalAttribute.items': '''def items(self):
    return [(t, self[t]) for t in self.ELEMENT_TYPES if t in self]''',
    'FEMAttributes.to_dict': '''def to_dict(self):
    dict_data = {}
    for k, v in self.data.items():
        dict_data.update(v.to_dict(prefix=k))
    return dict_data''',
    'FEMAttributes.from_dict': '''@classmethod
def from_dict(cls, dict_data, **kwargs):
    if 'is_elemental' in kwargs and kwargs['is_elemental']:
        attribute_class = FEMElementalAttribute
    else:
        attribute_class = FEMAttribute
    split_dict_data = cls._split_dict_data(dict_data)
    return cls({k: attribute_class.from_dict(k, v) for k, v in split_dict_data.items()}, **kwargs)''',
    'FEMAttributes.load': '''@classmethod
def load(cls, npz_file_name, **kwargs):
    npz_file_name = Path(npz_file_name)
    if not npz_file_name.is_file():
        return cls({})
    dict_data = np.load(npz_file_name, allow_pickle=True)
    return cls.from_dict(dict_data, **kwargs)''',
}

FILES = {'FEMAttribute': 'femio/fem_attribute.py',
         'FEMElementalAttribute': 'femio/fem_elemental_attribute.py',
         'FEMAttributes': 'femio/fem_attributes.py'}


class Keys:
    def __init__(self, repo):
        self.repo = Path(repo)
        self.consumed = {}
        self.cfg = {}
        self.norm = {}

    def method(self, cls, name):
        rel = FILES[cls]
        p = self.repo / rel
        if not p.exists():
            raise TranslateError(f'{rel} missing')
        src = p.read_text()
        tree = ast.parse(src)
        c = find_class(tree, cls)
        fn = find_method(c, name)
        seg = ast.get_source_segment(src, fn) or ''
        self.consumed[f'{rel}:{cls}.{name}'] = hashlib.sha256(seg.encode()).hexdigest()
        return strip_docs(fn), c

    def check(self, key, fn, variants=('',)):
        """-> the variant suffix whose template equals the text, modulo normalisation"""
        text = ast.unparse(normalise(fn))
        self.norm[key] = text
        for v in variants:
            if text == norm_text(TEMPLATES[key + v]):
                return v
        raise TranslateError(f'{key} differs from the translated template:\n{text}')

    def element_types(self):
        rel = FILES['FEMElementalAttribute']
        p = self.repo / rel
        if not p.exists():
            raise TranslateError(f'{rel} missing')
        cls = find_class(ast.parse(p.read_text()), 'FEMElementalAttribute')
        types = None
        for st in cls.body:
            if isinstance(st, ast.Assign) and len(st.targets) == 1 and is_name(st.targets[0], 'ELEMENT_TYPES'):
                try:
                    val = ast.literal_eval(st.value)
                except Exception:
                    raise TranslateError('ELEMENT_TYPES is not a literal')
                if not isinstance(val, (list, tuple)) or not all(isinstance(e, str) for e in val):
                    raise TranslateError('ELEMENT_TYPES is not a list of string constants')
                types = list(val)
        if types is None:
            raise TranslateError('ELEMENT_TYPES not found')
        self.cfg['element_types'] = types
        self.consumed['femio/fem_elemental_attribute.py:ELEMENT_TYPES'] = \
            hashlib.sha256(repr(types).encode()).hexdigest()

    def run(self):
        self.element_types()
        # FEMAttribute
        fn, _ = self.method('FEMAttribute', 'to_dict')
        self.cfg['writes_ts'] = self.check('FEMAttribute.to_dict', fn, ('', '#ts')) == '#ts'
        fn, _ = self.method('FEMAttribute', 'load')
        self.check('FEMAttribute.load', fn)
        fn, _ = self.method('FEMAttribute', 'from_dict')
        fn = normalise(fn)
        try:
            loop = [s for s in fn.body if isinstance(s, ast.For)][0]
            kvar = loop.target.elts[0].id
            if1 = loop.body[0]
            if2 = if1.orelse[0]
            self.cfg['ids_test'] = ktest(if1.test, kvar)
            self.cfg['data_test'] = ktest(if2.test, kvar)
            if1.test = ast.Name('TEST_IDS', ast.Load())
            if2.test = ast.Name('TEST_DATA', ast.Load())
            self.cfg['ts_test'] = None
            if len(if2.orelse) == 1 and isinstance(if2.orelse[0], ast.If):
                if3 = if2.orelse[0]
                self.cfg['ts_test'] = ktest(if3.test, kvar)
                if3.test = ast.Name('TEST_TS', ast.Load())
        except (IndexError, AttributeError):
            raise TranslateError('FEMAttribute.from_dict: unexpected structure')
        v = self.check('FEMAttribute.from_dict', fn, ('', '#ts'))
        if (v == '#ts') != (self.cfg['ts_test'] is not None):
            raise TranslateError('FEMAttribute.from_dict: inconsistent time_series handling')
        # FEMElementalAttribute
        for m in ('to_dict', 'from_dict', 'load', '_validate_keys', 'items'):
            fn, cls = self.method('FEMElementalAttribute', m)
            self.check('FEMElementalAttribute.' + m, fn, ('', '#ts') if m == 'from_dict' else ('',))
        fn, cls = self.method('FEMElementalAttribute', '_split_dict_data')
        self.cfg['elem_group'], lk = split_shape(fn, 'FEMElementalAttribute._split_dict_data')
        if lk != 'type':
            raise TranslateError('FEMElementalAttribute._split_dict_data: labels are not the element types '
                                 'of the keys')
        # _extract_element_type: nested in _split_dict_data or a (static) method of the class
        ext = [n for n in strip_docs(fn).body if isinstance(n, ast.FunctionDef)
               and n.name == '_extract_element_type']
        if not ext:
            ext = [n for n in cls.body if isinstance(n, ast.FunctionDef) and n.name == '_extract_element_type']
            if ext:
                self.method('FEMElementalAttribute', '_extract_element_type')
        if len(ext) != 1:
            raise TranslateError('_extract_element_type not found')
        table = extract_table(ext[0])
        self.cfg['extract_table'] = table
        if table != EXPECTED_EXTRACT:
            raise TranslateError(f'_extract_element_type: parts -> index table {table} differs from '
                                 'KeyModel.extract_element_type (2 parts -> 0, 3 parts -> 1, else ValueError)')
        # FEMAttributes
        for m in ('to_dict', 'from_dict', 'load'):
            fn, _ = self.method('FEMAttributes', m)
            self.check('FEMAttributes.' + m, fn)
        fn, _ = self.method('FEMAttributes', '_split_dict_data')
        self.cfg['attrs_group'], lk = split_shape(fn, 'FEMAttributes._split_dict_data')
        if lk != 'first':
            raise TranslateError('FEMAttributes._split_dict_data: labels are not the first parts of the keys')
        return self.cfg


def translate(repo):
    k = Keys(repo)
    try:
        cfg = k.run()
    except TranslateError as e:
        e.consumed = dict(k.consumed)
        raise
    return cfg, k.consumed


def emit(cfg, origin=None):
    def kt(t):
        return f'{t[0]} {coq_str(t[1])}'
    types = '[' + '; '.join(coq_str(t) for t in cfg['element_types']) + ']'
    head = 'GENERATED by /verif/translate/c05_keys.py from the tree under test - do not edit.'
    if origin:
        head = ('BASELINE key configuration (translate/c05_baseline.json, read from the registered tree): the '
                'translator\n   could not read the tree under test (' +
                origin.replace('*)', '* )').replace('(*', '( *').split('\n')[0][:300] +
                ').\n   Hand model of this run; tied by the widened correspondence.')
    return f'''(* {head}
   How the loaders recognise and group the keys of an npz file. *)
From Coq Require Import String List.
Import ListNotations.
From FV.C05 Require Import KeyModel.
Open Scope string_scope.

Definition kcfg : key_cfg := {{|
  ids_test := {kt(cfg['ids_test'])};
  data_test := {kt(cfg['data_test'])};
  ts_test := {('Some (' + kt(cfg['ts_test']) + ')') if cfg['ts_test'] else 'None'};
  writes_ts := {'true' if cfg['writes_ts'] else 'false'};
  elem_group := {cfg['elem_group']};
  attrs_group := {cfg['attrs_group']};
  element_types :=
    {types} |}}.
'''


if __name__ == '__main__':
    import sys
    repo = sys.argv[1] if len(sys.argv) > 1 else '/repo'
    k = Keys(repo)
    try:
        k.run()
        print(emit(k.cfg))
    except TranslateError as e:
        print('TranslateError:', e)
        for key, text in k.norm.items():
            if key in TEMPLATES and text != norm_text(TEMPLATES[key]) and (key + '#ts' not in TEMPLATES or text != norm_text(TEMPLATES[key + '#ts'])):
                print('----', key)
                print(text)
