"""Fail-closed translator for C05, part A (key scheme of the npz files).

For to_dict / from_dict / _split_dict_data / _validate_keys of FEMAttribute,
FEMElementalAttribute and FEMAttributes the source text (docstrings removed,
the tests that recognise / group keys replaced by placeholders) must equal the
templates below; the tests themselves are translated into the small language
of coq/C05/KeyModel.v:

   'c' in k                         -> TSub c
   k.split('/')[-1] == 'c'          -> TLastEq c
   k.endswith('c')                  -> TEnds c
   cand in k                        -> MSub
   cand == k.split('/')[0]          -> MEqFirst
   cand == _extract_element_type(k) -> MEqType     (either operand order)

ELEMENT_TYPES is copied.  Anything else raises TranslateError.
"""
import ast
import copy
import hashlib
from pathlib import Path


class TranslateError(Exception):
    pass


def coq_str(s):
    if not all(32 <= ord(c) < 127 for c in s):
        raise TranslateError(f'non-ascii string {s!r}')
    return '"' + s.replace('"', '""') + '"'


def find_class(tree, name):
    for n in tree.body:
        if isinstance(n, ast.ClassDef) and n.name == name:
            return n
    raise TranslateError(f'class {name} not found')


def find_method(cls, name):
    for n in cls.body:
        if isinstance(n, ast.FunctionDef) and n.name == name:
            return n
    raise TranslateError(f'method {cls.name}.{name} not found')


def strip_docs(fn):
    fn = copy.deepcopy(fn)
    for n in ast.walk(fn):
        if isinstance(n, ast.FunctionDef) and n.body and isinstance(n.body[0], ast.Expr) and \
                isinstance(n.body[0].value, ast.Constant) and isinstance(n.body[0].value.value, str):
            n.body = n.body[1:] or [ast.Pass()]
    return fn


def is_name(n, s):
    return isinstance(n, ast.Name) and n.id == s


def const_str(n):
    return n.value if isinstance(n, ast.Constant) and isinstance(n.value, str) else None


def ktest(t, var):
    """test on the key variable `var` against a constant"""
    if isinstance(t, ast.Compare) and len(t.ops) == 1:
        a, b = t.left, t.comparators[0]
        if isinstance(t.ops[0], ast.In) and const_str(a) is not None and is_name(b, var):
            return ('TSub', const_str(a))
        if isinstance(t.ops[0], ast.Eq):
            for x, y in ((a, b), (b, a)):
                c = const_str(y)
                if c is not None and ast.unparse(x) == f"{var}.split('/')[-1]":
                    return ('TLastEq', c)
    if isinstance(t, ast.Call) and ast.unparse(t.func) == f'{var}.endswith' and len(t.args) == 1 \
            and const_str(t.args[0]) is not None and not t.keywords:
        return ('TEnds', const_str(t.args[0]))
    raise TranslateError(f'unsupported key test: {ast.unparse(t)}')


def kmatch(t, cand, var):
    if isinstance(t, ast.Compare) and len(t.ops) == 1:
        a, b = t.left, t.comparators[0]
        if isinstance(t.ops[0], ast.In) and is_name(a, cand) and is_name(b, var):
            return 'MSub'
        if isinstance(t.ops[0], ast.Eq):
            for x, y in ((a, b), (b, a)):
                if is_name(x, cand):
                    u = ast.unparse(y)
                    if u == f"{var}.split('/')[0]":
                        return 'MEqFirst'
                    if u == f'_extract_element_type({var})':
                        return 'MEqType'
    raise TranslateError(f'unsupported grouping test: {ast.unparse(t)}')


TEMPLATES = {
    'FEMAttribute.to_dict': '''def to_dict(self, prefix=None):
    if prefix is None:
        prefix = ''
    else:
        prefix = f'{prefix}/'
    return {f'{prefix}ids': self.ids, f'{prefix}data': self.data}''',
    # variant that also stores the time_series flag
    'FEMAttribute.to_dict#ts': '''def to_dict(self, prefix=None):
    if prefix is None:
        prefix = ''
    else:
        prefix = f'{prefix}/'
    dict_data = {f'{prefix}ids': self.ids, f'{prefix}data': self.data}
    if self.time_series:
        dict_data[f'{prefix}time_series'] = np.array(True)
    return dict_data''',
    'FEMAttribute.from_dict#ts': '''@classmethod
def from_dict(cls, name, dict_data, **kwargs):
    if len(dict_data) not in (2, 3):
        raise ValueError(f'Unexpected data to load: {dict_data}')
    for k, v in dict_data.items():
        if TEST_IDS:
            ids_values = v
        elif TEST_DATA:
            data_values = v
        elif TEST_TS:
            kwargs['time_series'] = bool(v)
        else:
            raise ValueError(f'Unexpected key: {k}')
    return cls(name, ids=ids_values, data=data_values, **kwargs)''',
    'FEMElementalAttribute.from_dict#ts': '''@classmethod
def from_dict(cls, name, dict_data, **kwargs):
    split_dict_data = cls._split_dict_data(dict_data)
    attributes = {element_type: FEMAttribute.from_dict(name, v, **kwargs) for element_type, v in split_dict_data.items()}
    if any((a.time_series for a in attributes.values())):
        kwargs['time_series'] = True
    return cls(name, attributes, **kwargs)''',
    'FEMAttribute.from_dict': '''@classmethod
def from_dict(cls, name, dict_data, **kwargs):
    if len(dict_data) != 2:
        raise ValueError(f'Unexpected data to load: {dict_data}')
    for k, v in dict_data.items():
        if TEST_IDS:
            ids_values = v
        elif TEST_DATA:
            data_values = v
        else:
            raise ValueError(f'Unexpected key: {k}')
    return cls(name, ids=ids_values, data=data_values, **kwargs)''',
    'FEMAttribute.load': '''@classmethod
def load(cls, name, file_, **kwargs):
    dict_data = np.load(file_, allow_pickle=True)
    return cls.from_dict(name, dict_data, **kwargs)''',
    'FEMElementalAttribute.to_dict': '''def to_dict(self, prefix=None):
    if prefix is None:
        prefix = ''
    else:
        prefix = f'{prefix}/'
    dict_data = {}
    for key, value in self.items():
        dict_data.update(value.to_dict(prefix=f'{prefix}{key}'))
    return dict_data''',
    'FEMElementalAttribute.from_dict': '''@classmethod
def from_dict(cls, name, dict_data, **kwargs):
    split_dict_data = cls._split_dict_data(dict_data)
    return cls(name, {element_type: FEMAttribute.from_dict(name, v, **kwargs) for element_type, v in split_dict_data.items()}, **kwargs)''',
    'FEMElementalAttribute.load': '''@classmethod
def load(cls, name, file_, **kwargs):
    dict_data = np.load(file_, allow_pickle=True)
    return cls.from_dict(name, dict_data, **kwargs)''',
    'FEMElementalAttribute._split_dict_data': '''@classmethod
def _split_dict_data(cls, dict_data):

    def _extract_element_type(string):
        split_strings = string.split('/')
        if len(split_strings) == 2:
            return split_strings[0]
        elif len(split_strings) == 3:
            return split_strings[1]
        else:
            raise ValueError(f'Unexpected string format: {string}')
    unique_element_types = np.unique([_extract_element_type(k) for k in dict_data.keys()])
    return {unique_element_type: {k: v for k, v in dict_data.items() if GROUP_TEST} for unique_element_type in unique_element_types}''',
    'FEMElementalAttribute._validate_keys': '''def _validate_keys(self, dict_data):
    for k in dict_data.keys():
        if k not in self.ELEMENT_TYPES:
            if len(dict_data) > 1:
                raise ValueError(f'Unsupported element type: {k}')
            else:
                return {'unknown': list(dict_data.values())[0]}
    return dict_data''',
    'FEMElementalAttribute.items': '''def items(self):
    return [(t, self[t]) for t in self.ELEMENT_TYPES if t in self]''',
    'FEMAttributes.to_dict': '''def to_dict(self):
    dict_data = {}
    for k, v in self.data.items():
        dict_data.update(v.to_dict(prefix=k))
    return dict_data''',
    'FEMAttributes.from_dict': '''@classmethod
def from_dict(cls, dict_data, **kwargs):
    if 'is_elemental' in kwargs and kwargs['is_elemental']:
        attribute_class = FEMElementalAttribute
    else:
        attribute_class = FEMAttribute
    split_dict_data = cls._split_dict_data(dict_data)
    return cls({k: attribute_class.from_dict(k, v) for k, v in split_dict_data.items()}, **kwargs)''',
    'FEMAttributes.load': '''@classmethod
def load(cls, npz_file_name, **kwargs):
    npz_file_name = Path(npz_file_name)
    if not npz_file_name.is_file():
        return cls({})
    dict_data = np.load(npz_file_name, allow_pickle=True)
    return cls.from_dict(dict_data, **kwargs)''',
    'FEMAttributes._split_dict_data': '''@classmethod
def _split_dict_data(cls, dict_data):
    unique_attribute_names = np.unique([k.split('/')[0] for k in dict_data.keys()])
    return {unique_attribute_name: {k: v for k, v in dict_data.items() if GROUP_TEST} for unique_attribute_name in unique_attribute_names}''',
}

FILES = {'FEMAttribute': 'femio/fem_attribute.py',
         'FEMElementalAttribute': 'femio/fem_elemental_attribute.py',
         'FEMAttributes': 'femio/fem_attributes.py'}


class Keys:
    def __init__(self, repo):
        self.repo = Path(repo)
        self.consumed = {}
        self.cfg = {}
        self.norm = {}

    def method(self, cls, name):
        rel = FILES[cls]
        p = self.repo / rel
        if not p.exists():
            raise TranslateError(f'{rel} missing')
        src = p.read_text()
        tree = ast.parse(src)
        c = find_class(tree, cls)
        fn = find_method(c, name)
        seg = ast.get_source_segment(src, fn) or ''
        self.consumed[f'{rel}:{cls}.{name}'] = hashlib.sha256(seg.encode()).hexdigest()
        return strip_docs(fn), c

    def check(self, key, fn, variants=('',)):
        """-> the variant suffix whose template equals the normalised text"""
        text = ast.unparse(fn)
        self.norm[key] = text
        for v in variants:
            if text == TEMPLATES[key + v]:
                return v
        raise TranslateError(f'{key} differs from the translated template:\n{text}')

    def run(self):
        # FEMAttribute
        fn, _ = self.method('FEMAttribute', 'to_dict')
        self.cfg['writes_ts'] = self.check('FEMAttribute.to_dict', fn, ('', '#ts')) == '#ts'
        fn, _ = self.method('FEMAttribute', 'load')
        self.check('FEMAttribute.load', fn)
        fn, _ = self.method('FEMAttribute', 'from_dict')
        try:
            loop = [s for s in fn.body if isinstance(s, ast.For)][0]
            if1 = loop.body[0]
            if2 = if1.orelse[0]
            self.cfg['ids_test'] = ktest(if1.test, 'k')
            self.cfg['data_test'] = ktest(if2.test, 'k')
            if1.test = ast.Name('TEST_IDS', ast.Load())
            if2.test = ast.Name('TEST_DATA', ast.Load())
            self.cfg['ts_test'] = None
            if len(if2.orelse) == 1 and isinstance(if2.orelse[0], ast.If):
                if3 = if2.orelse[0]
                self.cfg['ts_test'] = ktest(if3.test, 'k')
                if3.test = ast.Name('TEST_TS', ast.Load())
        except (IndexError, AttributeError):
            raise TranslateError('FEMAttribute.from_dict: unexpected structure')
        v = self.check('FEMAttribute.from_dict', fn, ('', '#ts'))
        if (v == '#ts') != (self.cfg['ts_test'] is not None):
            raise TranslateError('FEMAttribute.from_dict: inconsistent time_series handling')
        # FEMElementalAttribute
        for m in ('to_dict', 'from_dict', 'load', '_validate_keys', 'items'):
            fn, cls = self.method('FEMElementalAttribute', m)
            self.check('FEMElementalAttribute.' + m, fn, ('', '#ts') if m == 'from_dict' else ('',))
        fn, cls = self.method('FEMElementalAttribute', '_split_dict_data')
        try:
            ret = fn.body[-1].value            # DictComp
            inner = ret.value                  # DictComp over dict_data.items()
            gen = inner.generators[0]
            if len(gen.ifs) != 1:
                raise TranslateError('FEMElementalAttribute._split_dict_data: expected one filter')
            self.cfg['elem_group'] = kmatch(gen.ifs[0], 'unique_element_type', 'k')
            gen.ifs[0] = ast.Name('GROUP_TEST', ast.Load())
        except (IndexError, AttributeError):
            raise TranslateError('FEMElementalAttribute._split_dict_data: unexpected structure')
        self.check('FEMElementalAttribute._split_dict_data', fn)
        types = None
        for st in cls.body:
            if isinstance(st, ast.Assign) and len(st.targets) == 1 and is_name(st.targets[0], 'ELEMENT_TYPES'):
                if not isinstance(st.value, ast.List) or any(const_str(e) is None for e in st.value.elts):
                    raise TranslateError('ELEMENT_TYPES is not a list of string constants')
                types = [e.value for e in st.value.elts]
        if types is None:
            raise TranslateError('ELEMENT_TYPES not found')
        self.cfg['element_types'] = types
        self.consumed['femio/fem_elemental_attribute.py:ELEMENT_TYPES'] = \
            hashlib.sha256(repr(types).encode()).hexdigest()
        # FEMAttributes
        for m in ('to_dict', 'from_dict', 'load'):
            fn, _ = self.method('FEMAttributes', m)
            self.check('FEMAttributes.' + m, fn)
        fn, _ = self.method('FEMAttributes', '_split_dict_data')
        try:
            inner = fn.body[-1].value.value
            gen = inner.generators[0]
            if len(gen.ifs) != 1:
                raise TranslateError('FEMAttributes._split_dict_data: expected one filter')
            self.cfg['attrs_group'] = kmatch(gen.ifs[0], 'unique_attribute_name', 'k')
            gen.ifs[0] = ast.Name('GROUP_TEST', ast.Load())
        except (IndexError, AttributeError):
            raise TranslateError('FEMAttributes._split_dict_data: unexpected structure')
        self.check('FEMAttributes._split_dict_data', fn)
        return self.cfg


def translate(repo):
    k = Keys(repo)
    cfg = k.run()
    return cfg, k.consumed


def emit(cfg):
    def kt(t):
        return f'{t[0]} {coq_str(t[1])}'
    types = '[' + '; '.join(coq_str(t) for t in cfg['element_types']) + ']'
    return f'''(* GENERATED by /verif/translate/c05_keys.py from the tree under test - do not edit.
   How the loaders recognise and group the keys of an npz file. *)
From Coq Require Import String List.
Import ListNotations.
From FV.C05 Require Import KeyModel.
Open Scope string_scope.

Definition kcfg : key_cfg := {{|
  ids_test := {kt(cfg['ids_test'])};
  data_test := {kt(cfg['data_test'])};
  ts_test := {('Some (' + kt(cfg['ts_test']) + ')') if cfg['ts_test'] else 'None'};
  writes_ts := {'true' if cfg['writes_ts'] else 'false'};
  elem_group := {cfg['elem_group']};
  attrs_group := {cfg['attrs_group']};
  element_types :=
    {types} |}}.
'''


if __name__ == '__main__':
    import sys
    repo = sys.argv[1] if len(sys.argv) > 1 else '/repo'
    k = Keys(repo)
    try:
        k.run()
        print(emit(k.cfg))
    except TranslateError as e:
        print('TranslateError:', e)
        for key, text in k.norm.items():
            if text != TEMPLATES[key] and text != TEMPLATES.get(key + '#ts'):
                print('----', key)
                print(text)
