"""C10 — exact-body tie of the OBJ writer.

OBJWriter.write is modelled by hand (Model.write_obj) and pinned by the
correspondence check on meshes of up to a few hundred faces.  Behaviour that
depends on SIZE (block-wise output, thresholds) cannot be reached by the
in-Coq evaluation in the quick tier, so the class body is additionally tied by
an exact match of its abstract syntax (comments / formatting do not count):
any rewrite is reported as tie-broken and triggers the extended search, which
evaluates the property oracle on the implementation for plates with more than
8 192 and more than 65 536 boundary faces.

When femio's OBJ writer is changed on purpose: re-validate Model.write_obj
against the new body and update PINNED below (python translate/c10_objpin.py).
"""
import ast
import hashlib
from pathlib import Path

PINNED = '7f102a2d403a4dbb56ca8348d72486f2c02053853d4996281dde0ec60e7d8d64'


def fingerprint(repo):
    src = (Path(repo) / 'femio' / 'formats' / 'obj' / 'write_obj.py').read_text()
    tree = ast.parse(src)
    for n in tree.body:
        if isinstance(n, ast.ClassDef) and n.name == 'OBJWriter':
            # docstrings do not count
            for f in ast.walk(n):
                if isinstance(f, (ast.FunctionDef, ast.ClassDef)) and f.body and \
                        isinstance(f.body[0], ast.Expr) and isinstance(f.body[0].value, ast.Constant) \
                        and isinstance(f.body[0].value.value, str):
                    f.body = f.body[1:] or [ast.Pass()]
            return hashlib.sha256(ast.dump(n, include_attributes=False).encode()).hexdigest()
    raise ValueError('class OBJWriter not found')


def check(repo):
    """-> (ok, fingerprint)"""
    try:
        fp = fingerprint(repo)
    except (OSError, SyntaxError, ValueError) as e:
        return False, 'unreadable: %s' % e
    return fp == PINNED, fp


if __name__ == '__main__':
    import sys
    print(fingerprint(sys.argv[1] if len(sys.argv) > 1 else '/repo'))
