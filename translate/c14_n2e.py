"""C14 — translator (tie T) for SignalProcessorMixin.convert_nodal2elemental.

Same method as translate/c14_e2n.py (whose symbolic machine is reused): the
method is executed symbolically once per configuration
    data          in {a name (str), an array}
    calc_average  in {True, False}
    ravel         in {True, False}
with helpers of the class inlined.  The gathered array is REGULAR (one row
count per element: numpy >= 1.24 refuses the ragged case inside np.array), so
`elemental_data.ndim` / `len(elemental_data.shape)` is 3.  The result per
configuration is a term of the language of coq/C14/N2EProg.v, written to
coq/C14/gen/N2EProg.v; PropsN2E.v proves the table equal to the reference
table, whose interpretation is proved equal to the model.  Fail-closed
(Untranslatable -> the harness uses the committed baseline table)."""
import ast
import hashlib
from pathlib import Path

import c14_e2n as base
from c14_e2n import Untranslatable, Undecided, Returned, Raised, SELF

METHOD = 'convert_nodal2elemental'
NAME = ('name-of-field',)            # the str argument
ARRAY = ('field', 'NArg')            # the array argument
NAMED = ('field', 'NByName')         # self.nodal_data.get_attribute_data(<the name>)


def is_field(v):
    return isinstance(v, tuple) and len(v) == 2 and v[0] == 'field'


def is_g3(v):
    return isinstance(v, tuple) and v and v[0] == 'gather'


class Machine(base.Machine):
    def eval(self, e, env, depth=0):
        if isinstance(e, ast.Attribute):
            src = ast.unparse(e)
            if src == 'self.nodes.ids':
                return ('node_ids',)
            if src == 'self.nodes':
                return ('nodes',)
            if src == 'self.elements.data':
                return ('elements_data',)
            if not (isinstance(e.value, ast.Name) and e.value.id in ('np', 'numpy')):
                v = self.eval(e.value, env, depth)
                if is_g3(v) and e.attr == 'shape':
                    return ('tuple', ('dim', 0), ('dim', 1), ('dim', 2))
                if is_g3(v) and e.attr == 'ndim':
                    return 3
                raise Untranslatable('attribute ' + src)
        if isinstance(e, ast.ListComp):
            return self.listcomp(e, env, depth)
        return super().eval(e, env, depth)

    def listcomp(self, e, env, depth):
        if len(e.generators) != 1 or e.generators[0].ifs or e.generators[0].is_async or \
                not isinstance(e.generators[0].target, ast.Name):
            raise Untranslatable('comprehension ' + ast.unparse(e))
        var = e.generators[0].target.id
        it = self.eval(e.generators[0].iter, env, depth)
        env2 = dict(env)
        env2[var] = ('item', it)
        elt = self.eval(e.elt, env2, depth)
        return ('each', it, elt)

    def call(self, e, env, depth):
        if any(isinstance(a, ast.Starred) for a in e.args) or any(k.arg is None for k in e.keywords):
            raise Untranslatable('star arguments')
        f = e.func
        fname = ast.unparse(f)
        if fname == 'isinstance' and len(e.args) == 2 and ast.unparse(e.args[1]) == 'str':
            v = self.eval(e.args[0], env, depth)
            if v == NAME:
                return True
            if v == ARRAY:
                return False
            raise Untranslatable('isinstance of ' + repr(v))
        args = [self.eval(a, env, depth) for a in e.args]
        kwargs = {k.arg: self.eval(k.value, env, depth) for k in e.keywords}
        if fname == 'len' and len(args) == 1 and not kwargs:
            if isinstance(args[0], tuple) and args[0] and args[0][0] == 'tuple':
                return len(args[0]) - 1
            return ('len', args[0])
        if fname in ('ValueError', 'NotImplementedError', 'TypeError', 'KeyError', 'RuntimeError',
                     'Exception'):
            return ('exc', fname)
        if fname == 'self.nodal_data.get_attribute_data' and args == [NAME] and not kwargs:
            return NAMED
        if fname == 'self.nodes.ids2indices' and len(args) == 1 and not kwargs:
            return ('node_positions', args[0])
        if fname in ('np.array', 'numpy.array', 'np.asarray', 'np.stack', 'np.vstack') \
                and len(args) == 1 and not kwargs:
            return self.arrayof(args[0], fname)
        if fname in ('np.mean', 'numpy.mean') and len(args) == 1 and set(kwargs) == {'axis'}:
            return self.mean(args[0], kwargs['axis'])
        if fname in ('np.ravel', 'numpy.ravel') and len(args) == 1 and not kwargs:
            return ('ravel1', args[0])
        if isinstance(f, ast.Attribute) and isinstance(f.value, ast.Name) and f.value.id == 'self' \
                and f.attr in self.methods:
            return self.call_method(f.attr, args, kwargs, depth)
        if isinstance(f, ast.Attribute) and not (isinstance(f.value, ast.Name)
                                                 and f.value.id in ('np', 'numpy', 'self')):
            obj = self.eval(f.value, env, depth)
            if f.attr == 'mean' and not args and set(kwargs) == {'axis'}:
                return self.mean(obj, kwargs['axis'])
            if f.attr in ('ravel', 'flatten') and not args and not kwargs:
                return ('ravel1', obj)
        raise Untranslatable('call ' + ast.unparse(e))

    def eval_subscript(self, e, env, depth):
        v = self.eval(e.value, env, depth)
        sl = e.slice
        if isinstance(sl, ast.Tuple):
            if len(sl.elts) != 2 or not (isinstance(sl.elts[1], ast.Slice) and sl.elts[1].lower is None
                                         and sl.elts[1].upper is None and sl.elts[1].step is None):
                raise Untranslatable('subscript ' + ast.unparse(e))
            sl = sl.elts[0]
        idx = self.eval(sl, env, depth)
        if is_field(v) and isinstance(idx, tuple) and idx[0] == 'node_positions':
            return ('rows_at', v, idx[1])
        raise Untranslatable('subscript ' + ast.unparse(e))

    def arrayof(self, v, fname):
        # np.array([f[ids2indices(nodes), :] for nodes in self.elements.data]) -> the gather
        if v[0] == 'each' and v[1] == ('elements_data',) and isinstance(v[2], tuple) and \
                v[2][0] == 'rows_at' and v[2][2] == ('item', ('elements_data',)) and \
                fname in ('np.array', 'numpy.array', 'np.asarray', 'np.stack'):
            return ('gather', v[2][1][1])
        # np.array([np.ravel(r) for r in G]) -> rows flattened per element
        if v[0] == 'each' and is_g3(v[1]) and v[2] == ('ravel1', ('item', v[1])):
            return ('ravelrows', v[1])
        # np.stack([np.mean(d, axis=0) for d in G]) = np.mean(G, axis=1)
        if v[0] == 'each' and is_g3(v[1]) and v[2] == ('mean0', ('item', v[1])):
            return ('meannodes', v[1])
        raise Untranslatable(fname + ' of ' + repr(v))

    def mean(self, v, axis):
        if is_g3(v) and axis in (1, -2) and not isinstance(axis, bool):
            return ('meannodes', v)
        if isinstance(v, tuple) and v[0] == 'item' and is_g3(v[1]) and axis in (0, -2) \
                and not isinstance(axis, bool):
            return ('mean0', v)
        raise Untranslatable(f'mean of {v!r} along axis {axis!r}')

    @staticmethod
    def guard_of(v):
        if isinstance(v, tuple) and len(v) == 3 and v[0] == 'ne':
            for a, b in ((v[1], v[2]), (v[2], v[1])):
                if a[0] == 'len' and is_field(a[1]) and b in (('len', ('node_ids',)), ('len', ('nodes',))):
                    return f'GLenNodes {a[1][1]}'
        return None


# ast.Subscript is not handled by the base machine
_base_eval = Machine.eval


def _eval(self, e, env, depth=0):
    if isinstance(e, ast.Subscript):
        return self.eval_subscript(e, env, depth)
    return _base_eval(self, e, env, depth)


Machine.eval = _eval


def n_coq(t):
    if t[0] == 'gather':
        return f'(NGather {t[1]})'
    if t[0] == 'meannodes':
        return f'(NMeanNodes {n_coq(t[1])})'
    if t[0] == 'ravelrows':
        return f'(NRavelRows {n_coq(t[1])})'
    raise Untranslatable('result term ' + repr(t))


def run_config(methods, src, by_name, ca, rv):
    mc = Machine(methods, src)
    fn = methods[METHOD]
    names = [a.arg for a in fn.args.args] + [a.arg for a in fn.args.kwonlyargs]
    if set(names) != {'self', 'data', 'calc_average', 'ravel'}:
        raise Untranslatable(f'{METHOD}: parameters {names}')
    env = {'self': SELF, 'data': NAME if by_name else ARRAY, 'calc_average': ca, 'ravel': rv}
    mc.used.add(METHOD)
    try:
        mc.exec_block(fn.body, env, 0)
        raise Untranslatable('falls off the end without a return')
    except Returned as r:
        res = f'NRet {n_coq(r.value) if isinstance(r.value, tuple) else n_coq(("?", r.value))}'
        guards = mc.guards
    except Raised as r:
        res = f'NRaise "{r.name}"'
        guards = [] if all(exc == r.name for _, exc in mc.guards) else mc.guards
    return (tuple(guards), res), mc


def translate(repo):
    path = Path(repo) / base.REL
    try:
        src = path.read_text()
        tree = ast.parse(src)
    except (OSError, SyntaxError) as e:
        raise Untranslatable(f'cannot parse {base.REL}: {e}')
    cls = base.find_class(tree)
    methods = {n.name: n for n in cls.body if isinstance(n, ast.FunctionDef)}
    if METHOD not in methods or methods[METHOD].decorator_list:
        raise Untranslatable(METHOD + ' not found / decorated')
    used, rows = set(), []
    b = lambda x: 'true' if x else 'false'  # noqa
    for by_name in (False, True):
        for ca in (False, True):
            for rv in (False, True):
                (guards, res), mc = run_config(methods, src, by_name, ca, rv)
                used |= mc.used
                gs = '; '.join(f'{g} "{exc}"' for g, exc in guards)
                rows.append(f'  | {b(by_name)}, {b(ca)}, {b(rv)} => mknbranch [{gs}] ({res})')
    fn = methods[METHOD]
    d = {k.arg: v for k, v in zip(fn.args.kwonlyargs, fn.args.kw_defaults) if v is not None}
    names = [x.arg for x in fn.args.args]
    d.update(dict(zip(names[len(names) - len(fn.args.defaults):], fn.args.defaults)))
    try:
        dv = {k: ast.literal_eval(d[k]) for k in ('calc_average', 'ravel')}
    except (KeyError, ValueError) as e:
        raise Untranslatable(f'defaults: {e}')
    if not all(isinstance(v, bool) for v in dv.values()):
        raise Untranslatable('defaults ' + repr(dv))
    regions = {n: ast.get_source_segment(src, methods[n]) for n in sorted(used)}
    sha = hashlib.sha256('\n'.join(regions[k] for k in sorted(regions)).encode()).hexdigest()
    text = (f'(* GENERATED by translate/c14_n2e.py from {base.REL}\n'
            f'   ({base.CLASS}.{METHOD}; methods read: {", ".join(sorted(used))}).\n'
            '   Do not edit: rewritten on every run. *)\n'
            'From Coq Require Import String List Bool.\nImport ListNotations.\n'
            'From FV.C14 Require Import N2EProg.\nOpen Scope string_scope.\n\n'
            'Definition n2e_prog : nprogram := fun by_name calc_average ravel =>\n'
            '  match by_name, calc_average, ravel with\n' + '\n'.join(rows) + '\n  end.\n\n'
            f'Definition n2e_defaults : ndefaults := mkndefaults {b(dv["calc_average"])} {b(dv["ravel"])}.\n')
    return text, {'sha': sha, 'methods': sorted(used), 'defaults': dv}


if __name__ == '__main__':
    import sys
    t, i = translate(sys.argv[1] if len(sys.argv) > 1 else '/repo')
    print(t)
    print(i)
